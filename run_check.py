#!/venv/bin/python
"""Driver for the kawin runtime monitors.

    /venv/bin/python run_check.py C05 --tier quick|thorough [--seed N] [--replay file] [--jobs N]

Exit 0: property held on everything explored (KNOWN-FINDING lines allowed)
Exit 1: VIOLATION property=<id> replay=<path>
Exit 2: INCONCLUSIVE property=<id> reason=...
"""
import argparse
import importlib
import json
import os
import queue
import shutil
import subprocess
import sys
import threading
import time
import traceback

VERIF = os.path.dirname(os.path.abspath(__file__))
REPO = os.environ.get('KAWIN_VERIF_REPO', '/repo')
PY = '/venv/bin/python'


def setup_paths():
    # the repository's working tree first, third-party contract library last
    for p in (VERIF, REPO):
        if p in sys.path:
            sys.path.remove(p)
    sys.path.insert(0, VERIF)
    sys.path.insert(0, REPO)
    deps = os.path.join(VERIF, '.deps')
    if deps not in sys.path:
        sys.path.append(deps)


def ensure_deps():
    deps = os.path.join(VERIF, '.deps')
    if os.path.isdir(os.path.join(deps, 'icontract')):
        return True
    cmd = [PY, '-m', 'pip', 'install', '--no-index', '--find-links', '/opt/veriftools/wheels',
           '--target', deps, '--quiet', 'icontract']
    try:
        subprocess.run(cmd, stdout=subprocess.DEVNULL, stderr=subprocess.DEVNULL, timeout=300)
    except Exception:
        pass
    return os.path.isdir(os.path.join(deps, 'icontract'))


# ================================================================================================
# worker

def worker_main(prop):
    setup_paths()
    proto = os.fdopen(os.dup(1), 'w')
    os.dup2(2, 1)  # anything the library prints goes to stderr
    sys.stdout = sys.stderr
    import warnings
    warnings.filterwarnings('ignore')
    import numpy as np
    np.seterr(all='ignore')
    from vlib import core

    reach = set()
    new_reach = []
    try:
        mon = sys.monitoring
        TOOL = 3
        mon.use_tool_id(TOOL, 'kawin-verif-reach')
        prefix = os.path.join(REPO, 'kawin') + os.sep

        def on_start(code, offset):
            fn = code.co_filename
            if fn.startswith(prefix):
                k = fn[len(prefix):] + ':' + code.co_qualname
                if k not in reach:
                    reach.add(k)
                    new_reach.append(k)
            return mon.DISABLE
        mon.register_callback(TOOL, mon.events.PY_START, on_start)
        mon.set_events(TOOL, mon.events.PY_START)
    except Exception:
        pass

    mod = importlib.import_module('checks.' + prop.lower())
    import kawin
    kfile = os.path.abspath(kawin.__file__)
    hello = {'hello': True, 'kawin': kfile, 'ok': kfile.startswith(os.path.abspath(REPO) + os.sep)}
    if hasattr(mod, 'worker_init'):
        try:
            mod.worker_init()
        except Exception:
            hello['ok'] = False
            hello['error'] = traceback.format_exc()[-2000:]
    proto.write(json.dumps(hello) + '\n')
    proto.flush()
    for line in sys.stdin:
        line = line.strip()
        if not line:
            continue
        case = json.loads(line)
        if case.get('quit'):
            break
        R = core.CaseResult(case)
        t0 = time.time()
        try:
            mod.run_case(case, R)
        except core.StopRun:
            pass
        except BaseException as e:  # harness error or unguarded library error: never a verdict
            if isinstance(e, KeyboardInterrupt):
                raise
            R.inconclusive = 'unhandled %s: %s | %s' % (type(e).__name__, str(e)[:200],
                                                         ''.join(traceback.format_tb(e.__traceback__)[-3:])[-900:])
        out = R.to_json()
        out['wall'] = time.time() - t0
        out['reach'] = new_reach[:]
        del new_reach[:]
        proto.write(json.dumps(out) + '\n')
        proto.flush()


# ================================================================================================
# driver

class Worker:
    def __init__(self, prop, env):
        self.prop = prop
        self.env = env
        self.p = None

    def start(self):
        self.p = subprocess.Popen([PY, os.path.join(VERIF, 'run_check.py'), prop_arg(self.prop), '--worker'],
                                  stdin=subprocess.PIPE, stdout=subprocess.PIPE, stderr=self.errfile,
                                  env=self.env, cwd=VERIF, text=True, bufsize=1)
        line = self._readline(300)
        if line is None:
            self.kill()
            return {'ok': False, 'error': 'worker start timeout'}
        try:
            return json.loads(line)
        except Exception:
            return {'ok': False, 'error': 'bad hello: %r' % line[:200]}

    def _readline(self, timeout):
        box = []

        def rd():
            try:
                box.append(self.p.stdout.readline())
            except Exception:
                box.append('')
        th = threading.Thread(target=rd, daemon=True)
        th.start()
        th.join(timeout)
        if th.is_alive():
            return None
        return box[0] if box and box[0] else ''

    def run(self, case, timeout):
        try:
            self.p.stdin.write(json.dumps(case) + '\n')
            self.p.stdin.flush()
        except Exception:
            return 'dead', None
        line = self._readline(timeout)
        if line is None:
            return 'timeout', None
        if line == '':
            return 'dead', None
        try:
            return 'ok', json.loads(line)
        except Exception:
            return 'dead', None

    def kill(self):
        try:
            self.p.kill()
            self.p.wait(10)
        except Exception:
            pass

    def close(self):
        try:
            self.p.stdin.write(json.dumps({'quit': True}) + '\n')
            self.p.stdin.flush()
            self.p.wait(20)
        except Exception:
            self.kill()


def prop_arg(p):
    return p


def main():
    ap = argparse.ArgumentParser()
    ap.add_argument('prop')
    ap.add_argument('--tier', default=os.environ.get('VERIF_TIER', 'quick'), choices=['quick', 'thorough'])
    ap.add_argument('--seed', type=int, default=None)
    ap.add_argument('--replay', default=None)
    ap.add_argument('--jobs', type=int, default=int(os.environ.get('VERIF_JOBS', '16')))
    ap.add_argument('--worker', action='store_true')
    ap.add_argument('--limit', type=int, default=None, help='debug: only the first N cases')
    ap.add_argument('--only', default=None, help='debug: comma separated case indices')
    args = ap.parse_args()
    prop = args.prop.upper()
    if args.worker:
        return worker_main(prop)

    setup_paths()
    from vlib import core
    seed = args.seed if args.seed is not None else int(os.environ.get('VERIF_SEED', '0'))
    t_start = time.time()
    mod = importlib.import_module('checks.' + prop.lower())
    need_deps = getattr(mod, 'NEEDS_ICONTRACT', False)
    deps_ok = ensure_deps() if need_deps else True

    # one scratch directory per driver invocation: concurrent runs of the same property (seed sweeps) must not delete each other's files
    scratch = os.path.join(VERIF, '.scratch', '%s.%d' % (prop, os.getpid()))
    shutil.rmtree(scratch, ignore_errors=True)
    os.makedirs(scratch, exist_ok=True)

    replay_mode = args.replay is not None
    if replay_mode:
        with open(args.replay) as f:
            rp = json.load(f)
        cases = [rp['case']]
        tier = rp.get('tier', args.tier)
        seed = rp.get('seed', seed)
        if 'hashseed' in rp:
            os.environ['VERIF_HASHSEED'] = str(rp['hashseed'])
    else:
        tier = args.tier
        cases = mod.plan(tier, seed)
        for i, c in enumerate(cases):
            c['idx'] = i
            c.setdefault('seed', seed)
        if args.only:
            want = set(int(x) for x in args.only.split(','))
            cases = [c for c in cases if c['idx'] in want]
        if args.limit:
            cases = cases[:args.limit]

    env = dict(os.environ)
    env['PYTHONHASHSEED'] = os.environ.get('VERIF_HASHSEED', '0')    # pycalphad results depend on it (set iteration order): fixed for replay, variable for sweeps
    env['KAWIN_VERIF_SCRATCH'] = scratch
    env['KAWIN_VERIF_TIER'] = tier
    env['MPLBACKEND'] = 'Agg'
    for k in ('OMP_NUM_THREADS', 'OPENBLAS_NUM_THREADS', 'MKL_NUM_THREADS'):
        env[k] = '1'
    env['PYTHONDONTWRITEBYTECODE'] = '1'

    # heaviest first for balance, if the plan gives weights
    order = sorted(range(len(cases)), key=lambda i: -float(cases[i].get('weight', 1.0)))
    q = queue.Queue()
    for i in order:
        q.put(cases[i])
    results = {}
    problems = []
    lock = threading.Lock()
    default_to = float(getattr(mod, 'CASE_TIMEOUT', 600))
    if tier == 'thorough':
        default_to = float(getattr(mod, 'CASE_TIMEOUT_THOROUGH', default_to))
    njobs = max(1, min(args.jobs, len(cases)))
    errlog = open(os.path.join(scratch, 'workers.stderr'), 'w')

    def pump(wid):
        w = Worker(prop, env)
        w.errfile = errlog
        hello = w.start()
        if not hello.get('ok'):
            with lock:
                problems.append('worker %d failed to start: %s' % (wid, json.dumps(hello)[:600]))
            w.kill()
            return
        while True:
            try:
                case = q.get_nowait()
            except queue.Empty:
                break
            st, out = w.run(case, float(case.get('timeout', default_to)))
            if st == 'ok':
                with lock:
                    results[case['idx']] = out
                continue
            with lock:
                results[case['idx']] = {'idx': case['idx'], 'monitors': {}, 'violations': [], 'observed': {},
                                        'worst': {}, 'nontrivial': False, 'key': None, 'reach': [],
                                        'inconclusive': 'watchdog fired' if st == 'timeout' else 'worker died',
                                        'info': {}, 'wall': 0.0}
            w.kill()
            w = Worker(prop, env)
            w.errfile = errlog
            hello = w.start()
            if not hello.get('ok'):
                with lock:
                    problems.append('worker %d failed to restart' % wid)
                return
        w.close()

    threads = [threading.Thread(target=pump, args=(i,), daemon=True) for i in range(njobs)]
    for t in threads:
        t.start()
    for t in threads:
        t.join()
    errlog.close()

    # --------------------------------------------------------------------------- aggregate
    findings = core.load_known_findings()
    monitors, observed, worst, reach = {}, {}, {}, set()
    nontrivial_keys = set()
    inconclusive_cases = []
    viol_unknown, viol_known = [], {}
    for c in cases:
        r = results.get(c['idx'])
        if r is None:
            inconclusive_cases.append({'idx': c['idx'], 'reason': 'no result'})
            continue
        for k, v in r['monitors'].items():
            monitors[k] = monitors.get(k, 0) + v
        for k, v in r['observed'].items():
            if isinstance(v, (int, float)):
                observed[k] = observed.get(k, 0) + v
        for k, v in r['worst'].items():
            if isinstance(v, (int, float)) and (k not in worst or v > worst[k]):
                worst[k] = v
        reach.update(r.get('reach', []))
        if r['nontrivial'] and r['key'] is not None:
            nontrivial_keys.add(r['key'])
        for k in r.get('extra_keys', []):
            nontrivial_keys.add(k)
        if r['inconclusive']:
            inconclusive_cases.append({'idx': c['idx'], 'reason': r['inconclusive']})
        for v in r['violations']:
            kf = core.match_finding(prop, v, findings)
            if kf is not None:
                e = viol_known.setdefault(kf['id'], {'finding': kf, 'count': 0, 'example': {'case': c, 'violation': v}})
                e['count'] += 1
            else:
                viol_unknown.append((c, v))

    rdir = os.path.join(VERIF, 'replays', prop)
    lines = []
    for kid, e in sorted(viol_known.items()):
        lines.append('KNOWN-FINDING: property=%s %s [%s; seen %d times this run]' % (prop, e['finding']['what'], kid, e['count']))
    seen_v = set()
    replay_paths = []
    for c, v in viol_unknown:
        sig = (v['monitor'], json.dumps(v['mech'], sort_keys=True))
        if sig in seen_v and len(replay_paths) >= 1:
            continue
        seen_v.add(sig)
        if len(replay_paths) >= 25:
            continue
        os.makedirs(rdir, exist_ok=True)
        h = core.case_hash({'case': c, 'v': v['monitor'], 'm': v['mech']})
        path = os.path.join(rdir, h + '.json')
        with open(path, 'w') as f:
            json.dump({'property': prop, 'tier': tier, 'seed': seed, 'hashseed': env['PYTHONHASHSEED'], 'case': c, 'violation': v}, f, indent=1)
        replay_paths.append(path)
        lines.append('VIOLATION property=%s replay=%s monitor=%s mech=%s' % (prop, path, v['monitor'], json.dumps(v['mech'], sort_keys=True)))

    reasons = []
    if not deps_ok:
        reasons.append('icontract could not be installed offline')
    reasons += problems
    if not replay_mode:
        for m in getattr(mod, 'REQUIRED_MONITORS', []):
            if monitors.get(m, 0) == 0:
                reasons.append('deciding monitor %s evaluated 0 times' % m)
        for suf in getattr(mod, 'REACH', []):
            if not any(k.endswith(suf) or k == suf for k in reach):
                reasons.append('anchored function never entered: %s' % suf)
        need = getattr(mod, 'MIN_NONTRIVIAL', {}).get(tier, 2)
        if len(nontrivial_keys) < need and not (args.limit or args.only):
            reasons.append('only %d distinct non-trivial cases (need %d)' % (len(nontrivial_keys), need))
        max_inc = getattr(mod, 'MAX_INCONCLUSIVE_FRACTION', 0.0)
        if len(inconclusive_cases) > max_inc * max(1, len(cases)):
            reasons.append('%d of %d cases inconclusive (first: %s)' % (len(inconclusive_cases), len(cases),
                                                                       inconclusive_cases[0]['reason'][:500]))

    if viol_unknown:
        verdict, code = 'violated', 1
    elif reasons:
        verdict, code = 'inconclusive', 2
    else:
        verdict, code = 'held', 0

    nsamp = int(getattr(mod, 'N_SAMPLES', 4))
    samples = []
    step = max(1, len(cases) // nsamp)
    for c in cases[::step][:nsamp]:
        r = results.get(c['idx'], {})
        samples.append({'case': c, 'monitors': r.get('monitors'), 'observed': r.get('observed'),
                        'nontrivial': r.get('nontrivial'), 'info': r.get('info')})
    ev = {
        'property_id': prop, 'tier': tier, 'seed': int(seed), 'level': getattr(mod, 'LEVEL', 'exploration'),
        'coverage': {
            'evaluations': len(cases),
            'distinct_nontrivial': len(nontrivial_keys),
            'rule': getattr(mod, 'RULE', ''),
            'samples': core.jsonable(samples),
            'monitor_evaluations': monitors,
            'observed_events': observed,
            'worst_residuals': worst,
            'kawin_functions_entered': len(reach),
            'anchored_functions_entered': [s for s in getattr(mod, 'REACH', []) if any(k.endswith(s) for k in reach)],
            'known_findings_seen': {k: e['count'] for k, e in viol_known.items()},
            'inconclusive_cases': inconclusive_cases[:20],
            'case_wall_s': {'sum': round(sum(float(r.get('wall', 0)) for r in results.values()), 1),
                            'max': round(max([float(r.get('wall', 0)) for r in results.values()] or [0]), 1), 'jobs': njobs,
                            'slowest': sorted([[round(float(r.get('wall', 0)), 1), int(i)] for i, r in results.items()], reverse=True)[:5]},
            'verdict': verdict,
            'inconclusive_reasons': reasons,
            'exhaustive': bool(getattr(mod, 'EXHAUSTIVE', False)),
        },
        'assumptions': list(getattr(mod, 'ASSUMPTIONS', [])),
        'wall_s': round(time.time() - t_start, 2),
        'violations': len(viol_unknown),
    }
    if not replay_mode and not (args.limit or args.only) and os.path.abspath(REPO) == '/repo':
        # (runs against a scratch copy through KAWIN_VERIF_REPO validate the monitors; they are not evidence)
        os.makedirs(os.path.join(VERIF, 'evidence'), exist_ok=True)
        with open(os.path.join(VERIF, 'evidence', prop + '.json'), 'w') as f:
            json.dump(ev, f, indent=1)
    shutil.rmtree(scratch, ignore_errors=True)

    for l in lines:
        print(l)
    print('SUMMARY property=%s tier=%s seed=%d verdict=%s cases=%d nontrivial=%d monitor_evals=%d known=%d unknown=%d wall=%.0fs' % (
        prop, tier, seed, verdict, len(cases), len(nontrivial_keys), sum(monitors.values()),
        sum(e['count'] for e in viol_known.values()), len(viol_unknown), time.time() - t_start))
    if verdict == 'inconclusive':
        print('INCONCLUSIVE property=%s reason=%s' % (prop, ' ; '.join(reasons)[:1500]))
    if replay_mode or args.limit or args.only:
        print(json.dumps({'monitors': monitors, 'observed': observed, 'worst': worst}, indent=1))
        for c, v in viol_unknown[:5]:
            print(json.dumps(v, indent=1)[:3000])
        for c in cases:
            r = results.get(c['idx'], {})
            print('case', c['idx'], 'nt=%s' % r.get('nontrivial'), 'wall=%.1f' % r.get('wall', 0), 'inc=%s' % r.get('inconclusive'),
                  json.dumps(r.get('info'))[:400], json.dumps(r.get('observed'))[:300])
    sys.exit(code)


if __name__ == '__main__':
    main()
