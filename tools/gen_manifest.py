#!/venv/bin/python
"""Regenerates MANIFEST.json from the check modules that exist (checks/cNN.py, attribute MANIFEST)."""
import importlib
import json
import os
import sys

VERIF = os.path.dirname(os.path.dirname(os.path.abspath(__file__)))
sys.path.insert(0, VERIF)
sys.path.insert(0, '/repo')

PROPS = [json.loads(l)['id'] for l in open(os.path.join(VERIF, 'properties.jsonl'))]
NOT_APPLICABLE = {}
ACCEPTED = [l.strip() for l in open(os.path.join(VERIF, 'tools', 'accepted.txt')) if l.strip() and not l.startswith('#')]   # property -> reason (only for properties the family genuinely cannot decide)

checks = []
na = []
for pid in PROPS:
    path = os.path.join(VERIF, 'checks', pid.lower() + '.py')
    if not os.path.exists(path) or pid not in ACCEPTED:
        na.append({'property_id': pid, 'reason': NOT_APPLICABLE.get(pid, 'monitor not built yet (work in progress); no claim made')})
        continue
    mod = importlib.import_module('checks.' + pid.lower())
    meta = getattr(mod, 'MANIFEST', {})
    level = getattr(mod, 'LEVEL', 'exploration')
    checks.append({
        'property_id': pid,
        'quick_cmd': '/venv/bin/python run_check.py %s --tier quick' % pid,
        'thorough_cmd': '/venv/bin/python run_check.py %s --tier thorough' % pid,
        'evidence_file': 'evidence/%s.json' % pid,
        'replay_cmd_template': '/venv/bin/python run_check.py %s --replay {path}' % pid,
        'engine': 'kawin-runtime-monitors',
        'level_claimed': {'category': level,
                          'text': meta.get('text', 'held on the executions listed in the evidence file; sampled, not exhaustive'),
                          'design_ref': 'DESIGN.md section 3, ' + pid},
        'level_note': meta.get('note', 'trusted: numpy/scipy/pycalphad, the independent reference formulas in the check module'),
        'technique': meta.get('technique', 'runtime monitoring'),
    })

manifest = {
    'version': 1,
    'setup_cmd': '/venv/bin/python -m pip install --no-index --find-links /opt/veriftools/wheels --target /verif/.deps --quiet --upgrade icontract',
    'hooks': {
        'guard': 'KAWIN_VERIF',
        'enable': 'no source hooks: all observation goes through public extension points (addCouplingModel, solve(solverType=callable), setThermodynamics, icontract wrappers applied from the harness); checks import /repo/kawin from the working tree in fresh interpreters',
        'baseline_off_cmd': 'cd /repo && /venv/bin/python -m pytest -ra -q -p no:cacheprovider --timeout=900 --continue-on-collection-errors',
        'source_commits': [],
        'add_only': True,
    },
    'engines': [{'name': 'kawin-runtime-monitors', 'path': 'run_check.py',
                 'serves_properties': [c['property_id'] for c in checks],
                 'kind_free_text': 'runtime monitoring: invariant hooks, reference-model and differential monitors, fault injection at the thermodynamics boundary, sys.monitoring reach counters; three-valued verdicts'}],
    'checks': checks,
    'not_applicable': na,
    'notes': 'Exit 0 held / 1 VIOLATION / 2 INCONCLUSIVE. Known findings: known_findings.json (matched by monitor + mechanism). VERIF_SEED selects which cases are drawn.',
}
with open(os.path.join(VERIF, 'MANIFEST.json'), 'w') as f:
    json.dump(manifest, f, indent=1)
print('checks:', [c['property_id'] for c in checks])
print('not_applicable:', [n['property_id'] for n in na])
try:
    import jsonschema
    jsonschema.validate(manifest, json.load(open('/root/.vp/MANIFEST.schema.json')))
    print('schema ok')
except ImportError:
    print('jsonschema not available under this interpreter')
