#!/venv/bin/python
import subprocess, re, os
root = os.path.join(os.path.dirname(os.path.abspath(__file__)), '..')
table = subprocess.check_output(['/venv/bin/python', os.path.join(root, 'tools', 'seed_table.py')]).decode()
p = os.path.join(root, 'DESIGN.md')
s = open(p).read()
s = re.sub(r'<!-- SEED-TABLE-BEGIN -->.*<!-- SEED-TABLE-END -->', '<!-- SEED-TABLE-BEGIN -->\n' + table + '<!-- SEED-TABLE-END -->', s, flags=re.S)
open(p, 'w').write(s)
print('updated', table.count('\n') - 2, 'rows')
