#!/bin/bash
# usage: tools/run_all.sh quick|thorough [seed] [ids...]   -- runs the registered checks one after another
cd "$(dirname "$0")/.."
tier=${1:-quick}; seed=${2:-0}; shift 2
ids="$@"
if [ -z "$ids" ]; then ids=$(grep -v '^#' tools/accepted.txt); fi
for id in $ids; do
  start=$(date +%s)
  VERIF_SEED=$seed /venv/bin/python run_check.py $id --tier $tier > .scratch_run_$id.log 2>&1
  rc=$?
  echo "$id rc=$rc $(( $(date +%s) - start ))s $(grep -c '^VIOLATION' .scratch_run_$id.log) violations; $(grep '^SUMMARY' .scratch_run_$id.log | cut -c1-200)"
  grep '^VIOLATION\|^INCONCLUSIVE' .scratch_run_$id.log | head -5 | cut -c1-300
  rm -f .scratch_run_$id.log
done
