#!/bin/bash
# usage: tools/try_seed.sh <seed dir with wt/ and out/> <tier> <check ids...>
# Confirms the seeded change (demo fails with it, passes on /repo HEAD) and runs the given checks against the
# modified tree through KAWIN_VERIF_REPO (equivalent to applying the patch to /repo, without disturbing it).
d=$1; tier=$2; shift 2
echo "== $d"
( cd $d/wt && timeout 600 /venv/bin/python $d/out/demo.py > $d/out/demo_modified.log 2>&1; echo "demo modified tree: exit $? : $(tail -1 $d/out/demo_modified.log | cut -c1-200)" )
( cd /repo && timeout 600 /venv/bin/python $d/out/demo.py > $d/out/demo_clean.log 2>&1; echo "demo clean /repo   : exit $? : $(tail -1 $d/out/demo_clean.log | cut -c1-200)" )
for id in "$@"; do
  KAWIN_VERIF_REPO=$d/wt /venv/bin/python /verif/run_check.py $id --tier $tier --jobs ${JOBS:-8} > $d/out/check_$id.log 2>&1
  echo "check $id on modified tree: exit $? ; $(grep -c '^VIOLATION' $d/out/check_$id.log) violation lines; $(grep '^SUMMARY' $d/out/check_$id.log | cut -c1-160)"
  grep '^VIOLATION' $d/out/check_$id.log | head -3 | cut -c1-250
done
