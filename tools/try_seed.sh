#!/bin/bash
# usage: tools/try_seed.sh <seed dir with out/patch.diff, out/demo.py> <tier> <check ids...>
# Applies the seeded change to a fresh scratch worktree of /repo HEAD (outside /repo and /verif), confirms the
# demonstration (exit 1 with the change, exit 0 on /repo HEAD) and runs the given checks against the modified tree
# through KAWIN_VERIF_REPO (equivalent to `git -C /repo apply`, without disturbing /repo). The worktree is removed.
d=$1; tier=$2; shift 2
wt=$d/wt_head
echo "== $d"
git -C /repo worktree remove --force $wt >/dev/null 2>&1
git -C /repo worktree add -q --detach $wt HEAD || exit 3
if ! git -C $wt apply $d/out/patch.diff; then echo "PATCH DOES NOT APPLY TO HEAD"; git -C /repo worktree remove --force $wt; exit 4; fi
( cd $wt && timeout 900 /venv/bin/python $d/out/demo.py > $d/out/demo_modified.log 2>&1; echo "demo HEAD+patch : exit $? : $(tail -1 $d/out/demo_modified.log | cut -c1-200)" )
( cd /repo && timeout 900 /venv/bin/python $d/out/demo.py > $d/out/demo_clean.log 2>&1; echo "demo /repo HEAD : exit $? : $(tail -1 $d/out/demo_clean.log | cut -c1-200)" )
for id in "$@"; do
  KAWIN_VERIF_REPO=$wt /venv/bin/python /verif/run_check.py $id --tier $tier --jobs ${JOBS:-8} > $d/out/check_$id.log 2>&1
  echo "check $id on modified tree: exit $? ; $(grep -c '^VIOLATION' $d/out/check_$id.log) violation lines; $(grep '^SUMMARY' $d/out/check_$id.log | cut -c1-160)"
  grep '^VIOLATION' $d/out/check_$id.log | head -3 | cut -c1-250
done
git -C /repo worktree remove --force $wt
