#!/venv/bin/python
"""Prints the markdown table 'which check catches which seeded change' from seeded/*/meta.json."""
import glob, json, os
rows = []
for f in sorted(glob.glob(os.path.join(os.path.dirname(__file__), '..', 'seeded', '*', 'meta.json'))):
    m = json.load(open(f))
    name = os.path.basename(os.path.dirname(f))
    caught = '; '.join('%s: %s' % (k, ', '.join(v['monitors_fired'])) for k, v in sorted(m['checks_run_against_it'].items()) if v['monitors_fired'])
    rows.append('| %s | %s | %s | %s | %s |' % (name, m['property'], (m.get('summary') or '').replace('|', '/')[:160], m['status'], caught or '-'))
print('| seed | property | change (author\'s one-line summary) | status | checks and monitors that fired |')
print('|---|---|---|---|---|')
print('\n'.join(rows))
