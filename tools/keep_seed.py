#!/venv/bin/python
"""keep_seed.py <seed dir> <name> <property> <status: caught|missed|caught-after-strengthening> "<notes>"
Copies patch.diff / demo.py / agent meta into /verif/seeded/<name>/ and writes meta.json."""
import json, os, shutil, sys, re
src, name, prop, status, notes = sys.argv[1:6]
dst = os.path.join('/verif/seeded', name)
os.makedirs(dst, exist_ok=True)
for f in ('patch.diff', 'demo.py'):
    shutil.copy(os.path.join(src, 'out', f), os.path.join(dst, f))
agent = {}
try:
    agent = json.load(open(os.path.join(src, 'out', 'meta.json')))
except Exception:
    pass
def last(path):
    try:
        return open(path).read().strip().splitlines()[-1][:300]
    except Exception:
        return None
checks = {}
for f in sorted(os.listdir(os.path.join(src, 'out'))):
    m = re.match(r'check_(C\d+)\.log', f)
    if m:
        txt = open(os.path.join(src, 'out', f)).read()
        viol = [l for l in txt.splitlines() if l.startswith('VIOLATION')]
        mons = sorted(set(re.search(r'monitor=(\S+)', l).group(1) for l in viol if 'monitor=' in l))
        summ = [l for l in txt.splitlines() if l.startswith('SUMMARY')]
        checks[m.group(1)] = {'violation_lines': len(viol), 'monitors_fired': mons, 'summary': summ[-1][:200] if summ else None}
meta = {
    'property': prop, 'summary': agent.get('summary'), 'needs': agent.get('needs'), 'files': agent.get('files'),
    'author': 'independent sub-agent given only the property text and a scratch worktree',
    'confirmed': {'tests_with_change': agent.get('tests_passed'), 'demo_with_change': last(os.path.join(src, 'out', 'demo_modified.log')),
                  'demo_without_change': last(os.path.join(src, 'out', 'demo_clean.log'))},
    'status': status, 'checks_run_against_it': checks, 'notes': notes,
    'how_run': 'tools/try_seed.sh: demo in modified worktree (exit 1) and in /repo HEAD (exit 0); run_check.py <id> --tier quick with KAWIN_VERIF_REPO=<modified worktree>',
}
json.dump(meta, open(os.path.join(dst, 'meta.json'), 'w'), indent=1)
print('kept', dst, status, {k: v['monitors_fired'] for k, v in checks.items()})
