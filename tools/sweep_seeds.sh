#!/bin/bash
# usage: tools/sweep_seeds.sh [tier] [seed ids...]   -- re-runs every kept seeded change against the check(s) of its property
# (patch applied to a scratch worktree of /repo HEAD outside /repo and /verif; worktree removed afterwards)
cd "$(dirname "$0")/.."
tier=${1:-quick}; shift
ids="$@"; [ -z "$ids" ] && ids=$(ls seeded)
mkdir -p /tmp/main/sweep
for id in $ids; do
  prop=$(/venv/bin/python -c "import json;print(json.load(open('seeded/$id/meta.json'))['property'])")
  checks=$(/venv/bin/python -c "import json;print(' '.join(sorted(k for k,v in json.load(open('seeded/$id/meta.json'))['checks_run_against_it'].items() if v['monitors_fired'])))")
  wt=/tmp/main/sweep/$id
  git -C /repo worktree remove --force $wt >/dev/null 2>&1
  git -C /repo worktree add -q --detach $wt HEAD || { echo "$id: worktree failed"; continue; }
  if ! git -C $wt apply /verif/seeded/$id/patch.diff 2>/dev/null; then echo "$id: PATCH DOES NOT APPLY TO HEAD"; git -C /repo worktree remove --force $wt; continue; fi
  for c in $checks; do
    KAWIN_VERIF_REPO=$wt /venv/bin/python run_check.py $c --tier $tier --jobs ${JOBS:-8} > /tmp/main/sweep/$id.$c.log 2>&1
    rc=$?
    echo "$id ($prop) vs $c: exit $rc, $(grep -c '^VIOLATION' /tmp/main/sweep/$id.$c.log) violation lines, monitors: $(grep '^VIOLATION' /tmp/main/sweep/$id.$c.log | sed 's/.*monitor=\([^ ]*\).*/\1/' | sort -u | tr '\n' ' ')"
  done
  git -C /repo worktree remove --force $wt
done
