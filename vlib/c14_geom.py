"""Independent geometric reference for the Clemm-Fisher nucleus factors (property C14).

A nucleus of unit curvature radius on a junction of n grains (n = 2 grain boundary, n = 3 grain edge,
n = 4 grain corner) is the intersection of n unit balls whose centres sit at distance d behind the junction,
opposite to the grain they bulge into:   centre_i = -d * u_i,   u_i = unit vector to the middle of grain i
(2 antipodal directions / 3 directions at 120 deg in a plane / 4 tetrahedral directions).
Young's equation at every grain boundary (contact angle theta, cos(theta) = k = gamma_gb / (2 gamma)) fixes
d = k / k_max with k_max = 1, sqrt(3)/2, sqrt(2/3): the distance of centre_i to the boundary plane between
grains i and j is d * k_max and has to equal cos(theta).  The intersection is non-empty iff d < 1, which is
exactly the admissible range of each site type.

The body is star shaped about the junction point (origin) with radial function
        rho(w) = min_i rho_i(w),      rho_i(w) = -d (w.u_i) + sqrt(d^2 (w.u_i)^2 + 1 - d^2)
and inside grain i (the Voronoi cell of u_i on the unit sphere) the minimum is attained by i.  Hence
        volume factor   c = sum_i  int_cell_i  rho^3 / 3  dw
        area factor     a = sum_i  int_cell_i  rho^2 / (rho + d w.u_i) dw   (dA = rho^2 dw / (n.w), n = rho w + d u_i)
        removed boundary b = sum over planar boundary sectors  int rho(w(psi))^2 / 2 dpsi
all evaluated with tensor Gauss-Legendre rules on smooth parametrisations of one symmetry-reduced piece.
Nothing here uses the closed forms of kawin/precipitation/parameters/Nucleation.py.
"""
import numpy as np

KMAX = {'GRAIN BOUNDARIES': 1.0, 'GRAIN EDGES': np.sqrt(3.0) / 2.0, 'GRAIN CORNERS': np.sqrt(2.0 / 3.0)}

_GL_CACHE = {}


def _gl(n, lo, hi):
    if n not in _GL_CACHE:
        _GL_CACHE[n] = np.polynomial.legendre.leggauss(n)
    x, w = _GL_CACHE[n]
    return 0.5 * (hi - lo) * x + 0.5 * (hi + lo), 0.5 * (hi - lo) * w


def _rho(mu, d):
    """radial extent of the unit ball centred at -d*u along a direction w with w.u = mu"""
    return -d * mu + np.sqrt(d * d * mu * mu + 1.0 - d * d)


def _cell_integrals(mu, wts, d):
    rho = _rho(mu, d)
    c = np.sum(wts * rho ** 3 / 3.0)
    a = np.sum(wts * rho ** 2 / (rho + d * mu))
    return a, c


def boundary(k, n=64):
    """grain boundary: two balls, cell of u_1 = hemisphere (azimuthal symmetry)"""
    d = k / KMAX['GRAIN BOUNDARIES']
    th, w = _gl(n, 0.0, np.pi / 2)
    a, c = _cell_integrals(np.cos(th), 2 * np.pi * np.sin(th) * w, d)
    # boundary plane: w.u = 0 all around, a disc
    b = np.pi * _rho(0.0, d) ** 2
    return 2 * a, b, 2 * c


def edge(k, n=64):
    """grain edge: three balls, u_i at 120 deg in the x-y plane, triple line = z axis.
    cell of u_1 = lune |phi| < 60 deg; use phi in [0, 60], polar angle in [0, 90] (4 mirror images)"""
    d = k / KMAX['GRAIN EDGES']
    ph, wp = _gl(n, 0.0, np.pi / 3)
    th, wt = _gl(n, 0.0, np.pi / 2)          # polar angle from the z axis
    PH, TH = np.meshgrid(ph, th, indexing='ij')
    W = np.outer(wp, wt) * np.sin(TH)
    mu = np.sin(TH) * np.cos(PH)             # w.u_1, u_1 = x
    a, c = _cell_integrals(mu, W, d)
    a *= 4 * 3
    c *= 4 * 3
    # three half planes through the z axis at phi = 60 deg (+120, +240): directions w(psi), psi polar angle 0..pi
    ps, wps = _gl(n, 0.0, np.pi / 2)
    mu_p = np.sin(ps) * np.cos(np.pi / 3)
    b = 3 * 2 * np.sum(wps * _rho(mu_p, d) ** 2 / 2.0)
    return a, b, c


def corner(k, n=64):
    """grain corner: four balls, u_i tetrahedral.  With u_1 = z and u_2 at azimuth 0 the cell of u_1 is bounded
    (for |phi| < 60 deg) by the bisector plane of u_1,u_2:  tan(theta_max) = sqrt(2)/cos(phi).
    24 congruent pieces: phi in [0, 60], theta in [0, theta_max(phi)]."""
    d = k / KMAX['GRAIN CORNERS']
    ph, wp = _gl(n, 0.0, np.pi / 3)
    t, wt = _gl(n, 0.0, 1.0)
    thmax = np.arctan2(np.sqrt(2.0), np.cos(ph))
    TH = np.outer(thmax, t)
    W = np.outer(wp * thmax, wt) * np.sin(TH)
    mu = np.cos(TH)                          # w.u_1
    a, c = _cell_integrals(mu, W, d)
    a *= 24
    c *= 24
    # six planar sectors, each between two triple lines (-u_k, -u_l), opening angle arccos(-1/3);
    # in the bisector plane of u_1,u_2 take the sector between -u_3 and -u_4, parametrised by slerp; mirror symmetric
    u = np.array([[0.0, 0.0, 1.0],
                  [2 * np.sqrt(2) / 3, 0.0, -1.0 / 3],
                  [-np.sqrt(2) / 3, np.sqrt(6) / 3, -1.0 / 3],
                  [-np.sqrt(2) / 3, -np.sqrt(6) / 3, -1.0 / 3]])
    p, q = -u[2], -u[3]
    om = np.arccos(np.clip(np.dot(p, q), -1, 1))
    ps, wps = _gl(n, 0.0, om / 2)
    w_dir = (np.sin(om - ps)[:, None] * p[None, :] + np.sin(ps)[:, None] * q[None, :]) / np.sin(om)
    mu_p = w_dir @ u[0]
    b = 6 * 2 * np.sum(wps * _rho(mu_p, d) ** 2 / 2.0)
    return a, b, c


REFERENCE = {'GRAIN BOUNDARIES': boundary, 'GRAIN EDGES': edge, 'GRAIN CORNERS': corner}


def reference_factors(site_name, k, n=64):
    """(area factor a, removed boundary factor b, volume factor c) by numerical integration"""
    return REFERENCE[site_name](float(k), n)
