"""Shared workload generator and observation seams for precipitation runs (C01-C03, C11-C13, C19, C20).

Seams (all public extension points, no repository hooks):
  StepObserver      coupling model: updateCoupledModel(model) once per accepted step
  MonIterator       callable passed as solverType: wraps the built-in iterator, records raw output + dt
  ThermSpy          delegating proxy around the real thermodynamics object: query log, suspension
                    point callbacks, scripted fault injection
"""
import numpy as np

from vlib.core import StopRun

R_GAS = 8.314

# ------------------------------------------------------------------------------------------------
# thermodynamic systems (all shipped with the repository)

def _db(name):
    """A freshly parsed Database per thermodynamics object: kawin adds helper phases to the database it is
    given (order/disorder handling), so sharing one would make runs depend on each other."""
    from pycalphad import Database
    import kawin.tests.datasets as ds
    return Database(getattr(ds, name))


CUTI_PHASES = ['CU4TI', 'CU3TI2']
ALMGSI_PHASES = ['MGSI_B_P', 'MG5SI6_B_DP', 'B_PRIME_L', 'U1_PHASE', 'U2_PHASE']
ALMGSI_GAMMA = {'MGSI_B_P': 0.18, 'MG5SI6_B_DP': 0.084, 'B_PRIME_L': 0.18, 'U1_PHASE': 0.18, 'U2_PHASE': 0.18}


def make_therm(system, prec_phases=None, solutes=None, df_method='tangent', sampling=True):
    """A brand-new thermodynamics object (paired runs must not share one: cached composition sets
    make results history dependent at the 1e-8..2e-6 level)."""
    from kawin.thermo import BinaryThermodynamics, MulticomponentThermodynamics
    if system == 'alzr':
        th = BinaryThermodynamics(_db('ALZR_TDB'), ['AL', 'ZR'], ['FCC_A1', 'AL3ZR'], drivingForceMethod=df_method)
        th.setDiffusivity(lambda T: 0.0768 * np.exp(-242000 / (8.314 * T)), 'FCC_A1')
    elif system == 'cuti':
        # binary system with TWO precipitate phases (examples/CuTi.tdb is shipped with the repository; mobility based)
        import os
        from pycalphad import Database
        from vlib.core import REPO
        ph = list(prec_phases) if prec_phases else CUTI_PHASES
        th = BinaryThermodynamics(Database(os.path.join(REPO, 'examples', 'CuTi.tdb')), ['CU', 'TI'], ['FCC_A1'] + ph, drivingForceMethod=df_method)
        th.setMobilityCorrection('all', 100)
    elif system == 'nialcr':
        sol = list(solutes) if solutes else ['AL', 'CR']
        th = MulticomponentThermodynamics(_db('NICRAL_TDB'), ['NI'] + sol, ['FCC_A1', 'FCC_L12'], drivingForceMethod=df_method)
    elif system == 'almgsi':
        sol = list(solutes) if solutes else ['MG', 'SI']
        ph = list(prec_phases) if prec_phases else ALMGSI_PHASES
        th = MulticomponentThermodynamics(_db('ALMGSI_DB'), ['AL'] + sol, ['FCC_A1'] + ph, drivingForceMethod=df_method)
    else:
        raise ValueError(system)
    if sampling:
        th.setDFSamplingDensity(2000)
        th.setEQSamplingDensity(500)
    return th


# ------------------------------------------------------------------------------------------------
# temperature schedules (JSON description -> callable / arrays)

def schedule_eval(sched, t):
    """Independent evaluation of a schedule description at time t (seconds)."""
    k = sched['kind']
    if k == 'iso':
        return float(sched['T'])
    if k == 'array':
        hrs = np.asarray(sched['hours'], dtype=float)
        Ts = np.asarray(sched['temps'], dtype=float)
        th = t / 3600.0
        if th <= hrs[0]:
            return float(Ts[0])
        if th >= hrs[-1]:
            return float(Ts[-1])
        j = int(np.searchsorted(hrs, th, side='right')) - 1
        f = (th - hrs[j]) / (hrs[j + 1] - hrs[j])
        return float(Ts[j] + f * (Ts[j + 1] - Ts[j]))
    if k == 'ramp':        # function: T0 + rate*t clipped to [lo, hi]
        return float(min(max(sched['T0'] + sched['rate'] * t, sched['lo']), sched['hi']))
    raise ValueError(k)


def schedule_args(sched, as_function=False):
    k = sched['kind']
    if k == 'iso':
        if as_function:
            T = float(sched['T'])
            return ((lambda t: T),)
        return (float(sched['T']),)
    if k == 'array':
        if as_function:      # the same arithmetic as the library's break-point interpolation => bit-identical T
            hrs, Ts = list(sched['hours']), list(sched['temps'])
            return ((lambda t: np.interp(t / 3600, hrs, Ts, Ts[0], Ts[-1])),)
        return (list(sched['hours']), list(sched['temps']))
    if k == 'ramp':
        T0, rate, lo, hi = sched['T0'], sched['rate'], sched['lo'], sched['hi']
        return ((lambda t: np.minimum(np.maximum(T0 + rate * t, lo), hi)),)
    raise ValueError(k)


# ------------------------------------------------------------------------------------------------
# model construction from a JSON configuration

def default_cfg(system):
    if system == 'alzr':
        return {'system': 'alzr', 'phases': ['AL3ZR'], 'solutes': ['ZR'], 'x0': [4e-3],
                'schedule': {'kind': 'iso', 'T': 723.15}, 'gamma': {'AL3ZR': 0.1},
                'VmAlpha': 1.0e-5, 'VmBeta': {'AL3ZR': 1.0e-5}, 'site': {'AL3ZR': 'dislocations'},
                'dislocationDensity': 1e15, 'grainSize': 1.0, 'pbm': {'cMin': 1e-10, 'cMax': 1e-8, 'bins': 75, 'minBins': 50, 'maxBins': 100, 'adaptive': True}}
    if system == 'cuti':
        ph = list(CUTI_PHASES)
        return {'system': 'cuti', 'phases': ph, 'solutes': ['TI'], 'x0': [0.019],
                'schedule': {'kind': 'iso', 'T': 623.15}, 'gamma': {'CU4TI': 0.035, 'CU3TI2': 0.07},
                'VmAlpha': 7.11e-6, 'VmBeta': {p: 7.6e-6 for p in ph}, 'site': {p: 'bulk' for p in ph}, 'bulkN0': 1e30,
                'pbm': {'cMin': 1e-10, 'cMax': 1e-8, 'bins': 75, 'minBins': 50, 'maxBins': 100, 'adaptive': True}}
    if system == 'nialcr':
        return {'system': 'nialcr', 'phases': ['FCC_L12'], 'solutes': ['AL', 'CR'], 'x0': [0.098, 0.083],
                'schedule': {'kind': 'iso', 'T': 1073.0}, 'gamma': {'FCC_L12': 0.023},
                'VmAlpha': 6.57e-6, 'VmBeta': {'FCC_L12': 6.57e-6}, 'site': {'FCC_L12': 'bulk'}, 'bulkN0': 1e30,
                'pbm': {'cMin': 1e-10, 'cMax': 1e-8, 'bins': 75, 'minBins': 50, 'maxBins': 100, 'adaptive': True}}
    if system == 'almgsi':
        ph = ['MGSI_B_P', 'MG5SI6_B_DP']
        return {'system': 'almgsi', 'phases': ph, 'solutes': ['MG', 'SI'], 'x0': [0.0072, 0.0057],
                'schedule': {'kind': 'iso', 'T': 448.15}, 'gamma': {p: ALMGSI_GAMMA[p] for p in ph},
                'VmAlpha': 1e-5, 'VmBeta': {p: 1e-5 for p in ph}, 'site': {p: 'dislocations' for p in ph},
                'pbm': {'cMin': 1e-10, 'cMax': 1e-8, 'bins': 75, 'minBins': 50, 'maxBins': 100, 'adaptive': True}}
    raise ValueError(system)


def _set_volume(vol, Vm, spec):
    """Specify the molar volume Vm through one of the three public ways (molar volume, unit-cell volume, lattice
    parameter) with a given number of atoms per unit cell."""
    NA = 6.02214076e23
    if not spec:
        vol.setVolume(Vm, 'VM', 4)
        return
    n = int(spec.get('atoms', 4))
    t = spec.get('type', 'VM')
    if t == 'VM':
        vol.setVolume(Vm, 'VM', n)
    elif t == 'VA':
        vol.setVolume(n * Vm / NA, 'VA', n)
    else:
        vol.setVolume(float(np.cbrt(n * Vm / NA)), 'a', n)


def build_model(cfg, therm, temperature_via='setter'):
    """PrecipitateModel from a configuration dict. May raise the library's documented ValueError for
    inadmissible combinations (caller counts those as rejected)."""
    from kawin.precipitation import PrecipitateModel, MatrixParameters, PrecipitateParameters, TemperatureParameters
    phases = list(cfg['phases'])
    solutes = list(cfg['solutes'])
    matrix = MatrixParameters(solutes)
    x0 = cfg['x0']
    _set_volume(matrix.volume, cfg['VmAlpha'], (cfg.get('volSpec') or {}).get('alpha'))
    matrix.initComposition = float(x0[0]) if len(solutes) == 1 else [float(v) for v in x0]
    if 'GBenergy' in cfg:
        matrix.GBenergy = cfg['GBenergy']
    nd = {}
    if 'grainSize' in cfg:
        nd['grainSize'] = cfg['grainSize']
    if 'grainAspectRatio' in cfg:
        nd['aspectRatio'] = cfg['grainAspectRatio']
    if 'dislocationDensity' in cfg:
        nd['dislocationDensity'] = cfg['dislocationDensity']
    if 'bulkN0' in cfg:
        nd['bulkN0'] = cfg['bulkN0']
    if nd:
        matrix.nucleationSites.setNucleationDensity(**nd)
    if 'effectiveDiffusion' in cfg:
        matrix.effectiveDiffusion.isEnabled = bool(cfg['effectiveDiffusion'])
    if 'theta' in cfg:
        matrix.theta = cfg['theta']

    precs = []
    for p in phases:
        pp = PrecipitateParameters(p)
        pp.gamma = cfg['gamma'][p]
        _set_volume(pp.volume, cfg['VmBeta'][p], ((cfg.get('volSpec') or {}).get('beta') or {}).get(p))
        shape = (cfg.get('shape') or {}).get(p)
        if shape:
            pp.shapeFactor.setPrecipitateShape(shape['name'], shape.get('ar', 1))
        pp.nucleation.setNucleationType(cfg['site'][p])
        se = (cfg.get('strain') or {}).get(p)
        if se:
            if se['kind'] == 'constant':
                pp.strainEnergy.setConstantElasticEnergy(se['value'])
            elif se['kind'] == 'elastic':
                from kawin.precipitation import StrainEnergy
                sE = StrainEnergy('ellipsoid' if shape and shape['name'] in ('needle', 'plate') else ('cube' if shape and shape['name'] == 'cubic' else 'sphere'))
                sE.setModuli(E=se['E'], nu=se['nu'])
                sE.setEigenstrain(se['eigenstrain'])
                pp.strainEnergy = sE
                pp.validate()
        if p in (cfg.get('calcAR') or []):
            # aspect ratio from the balance of strain and interfacial energy (needs an elastic strain energy and a needle/plate shape)
            pp.calculateAspectRatio = True
        if 'infDiff' in cfg:
            pp.infinitePrecipitateDiffusion = bool(cfg['infDiff'].get(p, True)) if isinstance(cfg['infDiff'], dict) else bool(cfg['infDiff'])
        if 'Rmin' in cfg:
            pp.Rmin = cfg['Rmin']
        precs.append(pp)
    for p, parents in (cfg.get('parents') or {}).items():
        for q in parents:
            precs[phases.index(p)].parentPhases.append(phases.index(q))

    sargs = schedule_args(cfg['schedule'], as_function=temperature_via.endswith('_function'))
    if temperature_via.startswith('ctor'):
        temp = TemperatureParameters(*sargs)
        model = PrecipitateModel(thermodynamics=therm, matrixParameters=matrix, precipitateParameters=precs,
                                 temperatureParameters=temp)
    else:
        model = PrecipitateModel(thermodynamics=therm, matrixParameters=matrix, precipitateParameters=precs)
        model.setTemperature(*sargs)
    pbm = cfg.get('pbm')
    if pbm:
        model.setPBMParameters(cMin=pbm['cMin'], cMax=pbm['cMax'], bins=pbm['bins'], minBins=pbm['minBins'],
                               maxBins=pbm['maxBins'], adaptive=pbm.get('adaptive', True))
    if cfg.get('recordPSD'):
        model.setPSDrecording(True)
    if cfg.get('constraints'):
        model.setConstraints(**cfg['constraints'])
    if cfg.get('betaBinary'):
        model.setBetaBinary(cfg['betaBinary'])
    return model


def solver_type(name):
    from kawin.solver.Solver import SolverType
    return SolverType.EXPLICITEULER if name == 'euler' else SolverType.RK4


def volume_factor_reference(site, k=None):
    """Independent kappa (volume = kappa R^3) for bulk/dislocation (sphere) and grain-boundary (two
    spherical caps, cos(theta) = k). Edges/corners: None (the repository's value is used; its geometry is
    validated in C14)."""
    if site in ('bulk', 'dislocations'):
        return 4.0 * np.pi / 3.0
    if site in ('grain_boundaries', 'grain boundaries'):
        return 2.0 * np.pi / 3.0 * (2.0 - 3.0 * k + k ** 3)
    return None


# ------------------------------------------------------------------------------------------------
# seams

class StepObserver:
    """Registered with addCouplingModel; callback(model, step_index) after every accepted step."""

    def __init__(self, callback=None, max_steps=None, wall_budget=None):
        import time
        self.callback = callback
        self.max_steps = max_steps
        self.steps = 0
        self.capped = False
        # optional wall-clock budget of a single free run (never used for paired / reference runs, whose step counts must
        # agree): the run is ended like a logical cap, every completed step has been monitored, only coverage is lost
        self.deadline = None if wall_budget is None else time.monotonic() + float(wall_budget)
        self.time_capped = False

    def updateCoupledModel(self, model):
        self.steps += 1
        if self.callback is not None:
            self.callback(model, self.steps)
        if self.max_steps is not None and self.steps >= self.max_steps:
            self.capped = True
            raise StopRun()
        if self.deadline is not None and self.steps % 20 == 0:
            import time
            if time.monotonic() > self.deadline:
                self.capped = True
                self.time_capped = True
                raise StopRun()


class MonIterator:
    """Wraps a built-in iterator; records stage calls, the raw new state and dt of the last step."""

    def __init__(self, name, on_return=None, on_enter=None):
        from kawin.solver.Iterators import ExplicitEulerIterator, RK4Iterator
        self.base = ExplicitEulerIterator if name == 'euler' else RK4Iterator
        self.name = name
        self.on_return = on_return
        self.on_enter = on_enter
        self.calls = 0
        self.last = None

    def __call__(self, f, t, X_old, updateX):
        self.calls += 1
        stage_t = []

        def F(tt, x, getDt=False):
            stage_t.append(float(tt))
            return f(tt, x, getDt) if getDt else f(tt, x)
        if self.on_enter is not None:
            self.on_enter(t, X_old)
        X_new, dt = self.base(F, t, X_old, updateX)
        self.last = {'t': float(t), 'dt': float(dt), 'X_old': np.array(X_old, copy=True),
                     'X_raw': np.array(X_new, copy=True), 'X_ref': X_new, 'stage_t': stage_t}
        if self.on_return is not None:
            self.on_return(self.last)
        return X_new, dt

    def __eq__(self, other):   # DESolver.setIterator compares the iterator with enum members
        return False

    def __hash__(self):
        return id(self)


QUERY_METHODS = ('getDrivingForce', 'getInterfacialComposition', 'getGrowthAndInterfacialComposition',
                 'getInterdiffusivity', 'getTracerDiffusivity', 'impingementFactor', 'getLocalEq', 'getCurvature')


class ThermSpy:
    """Delegating proxy around a thermodynamics object.

    before(method, args, kwargs)        called before every backend query
    fault(method, call_index, args) -> None (no fault) or ('return', value) to drop the result
    """

    def __init__(self, inner, before=None, fault=None):
        object.__setattr__(self, '_inner', inner)
        object.__setattr__(self, '_before', before)
        object.__setattr__(self, '_fault', fault)
        object.__setattr__(self, 'ncalls', {})
        object.__setattr__(self, 'nfaults', 0)
        object.__setattr__(self, 'log', None)

    def __getattr__(self, name):
        attr = getattr(self._inner, name)
        if name in QUERY_METHODS and callable(attr):
            def wrapped(*a, **k):
                n = self.ncalls.get(name, 0) + 1
                self.ncalls[name] = n
                if self._before is not None:
                    self._before(name, a, k)
                if self.log is not None:
                    self.log.append((name, a, k))
                if self._fault is not None:
                    fr = self._fault(name, n, a, k)
                    if fr is not None:
                        object.__setattr__(self, 'nfaults', self.nfaults + 1)
                        return fr[1]
                return attr(*a, **k)
            return wrapped
        return attr

    def __setattr__(self, name, value):
        if name in ('log',):
            object.__setattr__(self, name, value)
        else:
            setattr(self._inner, name, value)


HISTORIES = ['time', 'temperature', 'composition', 'xEqAlpha', 'xEqBeta', 'drivingForce', 'impingement', 'Gcrit',
             'Rcrit', 'nucRate', 'precipitateDensity', 'Rnuc', 'Ravg', 'ARavg', 'volFrac', 'fconc']


def snapshot_histories(model):
    return {k: np.array(getattr(model.pData, k), copy=True) for k in HISTORIES}
