"""pytest plugin: run repository tests with the C08 contracts installed on PopulationBalanceModel.
Writes a JSON report (contract evaluations, violations with the test they occurred in) to $C08_PLUGIN_OUT."""
import json
import os

from vlib import c08_contracts as CT

_state = {'tests': 0, 'failed': 0, 'violations': []}


def pytest_configure(config):
    CT.install()
    CT.drain()


def pytest_runtest_makereport(item, call):
    if call.when != 'call':
        return
    _state['tests'] += 1
    if call.excinfo is not None:
        _state['failed'] += 1
        e = call.excinfo.value
        if isinstance(e, CT.ContractViolation):
            _state['violations'].append({'monitor': e.monitor, 'mech': e.mech, 'test': item.nodeid,
                                         'detail': {k: repr(v)[:200] for k, v in (e.detail or {}).items()}})


def pytest_sessionfinish(session, exitstatus):
    stats, events, worst = CT.drain()
    out = os.environ.get('C08_PLUGIN_OUT')
    if out:
        with open(out, 'w') as f:
            json.dump({'stats': stats, 'events': events, 'tests': _state['tests'], 'failed': _state['failed'],
                       'violations': _state['violations']}, f)
