"""Runtime contracts for kawin.precipitation.PopulationBalance.PopulationBalanceModel (property C08).

install() decorates the *real* class in place (no copy, no subclass):

  * ghost-state wrappers (plain Python, add-only) on every public method: call depth, name of the last outermost
    operation, call counters (EVENTS), the grid right after construction (`_c08_init`) and a harness-side copy of
    what createBackup() was asked to save (`_c08_backup`).
  * icontract post-conditions with OLD snapshots on addSizeClasses, changeSizeClasses, adjustSizeClassesEuler,
    reset, revert, LoadDistribution.  They are also evaluated when kawin calls these methods internally
    (adjust -> extend -> re-mesh), which is wanted: each of them is a complete operation.
  * an icontract class invariant.  icontract 2.7.3 keeps the instance in its in-progress set for the whole duration
    of an outermost public call, so the invariant is evaluated before and after *outermost* public calls only;
    the transient states inside changeSizeClasses (bins/min/max already new, arrays still old, when it calls
    self.ThirdMoment() / self.reset(False)) and inside __init__ (setBinConstraints before any array exists) are
    never looked at.  This was checked with a call counter, see checks/c08.py docstring.

Conditions are named functions with an explicit error= factory (no source re-parsing by icontract).  A violated
contract raises ContractViolation(monitor, mech, detail) out of the kawin call.
"""
import functools
import inspect

import numpy as np

MONITORS = ('invariant', 'extend_post', 'remesh_m3', 'adjust_max', 'reset_initial', 'revert_restores', 'load_hist')

# tolerances (constants; floating-point analysis, margins are recorded in WORST)
TOL_GRID = 1e-12     # boundaries / end points / midpoints, relative to the largest boundary
TOL_M3 = 1e-10       # third moment before/after a re-mesh, relative

STATS = {}           # monitor -> number of evaluations that held (drained by the harness)
EVENTS = {}          # event name -> count
WORST = {}           # residual name -> largest value seen
_INSTALLED = {'done': False}


class ContractViolation(Exception):
    def __init__(self, monitor, mech, detail):
        Exception.__init__(self, '%s %s' % (monitor, mech))
        self.monitor = monitor
        self.mech = mech
        self.detail = detail


VACUOUS = 'vacuous'   # contract not applicable to this call (counted as an event, not as an evaluation)


def _decide(monitor, res):
    if res is None:
        return _held(monitor)
    return res is VACUOUS


def _held(monitor):
    STATS[monitor] = STATS.get(monitor, 0) + 1
    return True


def _event(name, n=1):
    EVENTS[name] = EVENTS.get(name, 0) + n


def _worst(name, v):
    v = float(v)
    if v == v and (name not in WORST or v > WORST[name]):
        WORST[name] = v


def drain():
    """-> (stats, events, worst) accumulated since the last call."""
    out = (dict(STATS), dict(EVENTS), dict(WORST))
    STATS.clear()
    EVENTS.clear()
    WORST.clear()
    return out


# ------------------------------------------------------------------------------------------------
# helpers (independent arithmetic: nothing here calls a method of the object under observation)

def grid_state(self):
    return {'PSD': np.array(self.PSD, copy=True), 'bounds': np.array(self.PSDbounds, copy=True),
            'size': np.array(self.PSDsize, copy=True),
            'bins': self.bins, 'min': float(self.min), 'max': float(self.max)}


def third_moment(psd, bounds):
    b = np.asarray(bounds, dtype=float)
    r = 0.5 * (b[:-1] + b[1:])
    return float(np.sum(np.asarray(psd, dtype=float) * r * r * r))


def histogram(data, bounds):
    """Counts per class, classes half open [b_i, b_i+1), the last one closed (documented numpy convention)."""
    b = np.asarray(bounds, dtype=float)
    d = np.asarray(data, dtype=float).ravel()
    n = len(b) - 1
    inside = (d >= b[0]) & (d <= b[-1])
    d = d[inside]
    idx = np.searchsorted(b, d, side='right') - 1
    idx[d == b[-1]] = n - 1
    return np.bincount(idx, minlength=n).astype(float)


def invariant_clause(self):
    """None when the grid description is consistent, else (clause, detail)."""
    d = self.__dict__
    for a in ('PSD', 'PSDbounds', 'PSDsize', 'bins', 'min', 'max'):
        if a not in d:
            return 'attributes', {'missing': a}
    psd, b, r = np.asarray(self.PSD), np.asarray(self.PSDbounds), np.asarray(self.PSDsize)
    n = self.bins
    if psd.ndim != 1 or b.ndim != 1 or r.ndim != 1 or len(psd) != n or len(r) != n or len(b) != n + 1:
        return 'lengths', {'bins': n, 'len_PSD': psd.shape, 'len_PSDsize': r.shape, 'len_PSDbounds': b.shape}
    if n < 1:
        return 'lengths', {'bins': n}
    if not np.all(np.isfinite(b)):
        return 'finite_bounds', {'bounds': b}
    if not np.all(b[1:] > b[:-1]):
        k = int(np.argmin(b[1:] - b[:-1]))
        return 'increasing', {'first_bad': k, 'b_k': b[k], 'b_k+1': b[k + 1], 'bounds': b}
    scale = float(abs(b[-1]))
    e = max(abs(float(b[0]) - float(self.min)), abs(float(b[-1]) - float(self.max))) / scale
    _worst('endpoints_rel', e)
    if not e <= TOL_GRID:
        return 'endpoints', {'min': self.min, 'max': self.max, 'b0': b[0], 'b_last': b[-1]}
    m = float(np.max(np.abs(r - 0.5 * (b[:-1] + b[1:])))) / scale
    _worst('midpoints_rel', m)
    if not m <= TOL_GRID:
        return 'midpoints', {'worst_rel': m, 'PSDsize': r, 'bounds': b}
    if psd.dtype.kind not in 'fiu' or not np.all(np.isfinite(psd)):
        return 'finite', {'PSD': psd}
    if not np.all(psd >= 0):
        k = int(np.argmin(psd))
        return 'nonneg', {'class': k, 'value': psd[k]}
    return None


# ------------------------------------------------------------------------------------------------
# invariant

def _inv_ok(self):
    return invariant_clause(self) is None and _held('invariant')


def _inv_err(self):
    clause, detail = invariant_clause(self)
    return ContractViolation('invariant', {'clause': clause, 'after': self.__dict__.get('_c08_last')}, detail)


# ------------------------------------------------------------------------------------------------
# extend

def _snap(self):
    return grid_state(self)


def _extend_clause(self, bins, OLD):
    o = OLD.st
    nb = o['bins']
    try:
        add = int(bins)
    except Exception:
        return VACUOUS
    if add < 0 or add != bins:
        _event('extend_inadmissible')
        return VACUOUS
    psd, b = np.asarray(self.PSD), np.asarray(self.PSDbounds)
    if self.bins != nb + add or len(psd) != nb + add or len(b) != nb + add + 1:
        return 'class_count', {'old_bins': nb, 'added': add, 'bins': self.bins, 'len_PSD': len(psd), 'len_bounds': len(b)}
    if psd[:nb].tobytes() != o['PSD'].tobytes():
        return 'old_populations', {'old': o['PSD'], 'new': psd[:nb]}
    scale = float(abs(b[-1]))
    e = float(np.max(np.abs(b[:nb + 1] - o['bounds']))) / scale
    _worst('extend_old_bounds_rel', e)
    if not e <= TOL_GRID:
        return 'old_boundaries', {'worst_rel': e, 'old': o['bounds'], 'new': b[:nb + 1]}
    if not np.all(psd[nb:] == 0):
        return 'new_classes_empty', {'new_classes': psd[nb:]}
    return None


def _extend_ok(self, bins, OLD):
    return _decide('extend_post', _extend_clause(self, bins, OLD))


def _extend_err(self, bins, OLD):
    clause, detail = _extend_clause(self, bins, OLD)
    return ContractViolation('extend_post', {'op': 'extend', 'clause': clause}, detail)


# ------------------------------------------------------------------------------------------------
# re-mesh

def remesh_facts(old, new_min, new_max, new_bins):
    """Structural facts about a re-mesh old grid -> new grid: covered?, coarsening class."""
    psd, b = old['PSD'], old['bounds']
    pop = np.nonzero(psd > 0)[0]
    if len(pop) == 0:
        return {'populated': 0, 'covered': True, 'coarsening': None}
    lo, hi = b[pop[0]], b[pop[-1] + 1]
    covered = bool(new_min <= lo and new_max >= hi)
    w_old = (b[-1] - b[0]) / old['bins']
    w_new = (new_max - new_min) / new_bins
    ratio = w_new / w_old
    coarsening = 'coarser_ge2' if ratio >= 2 else ('coarser_lt2' if ratio > 1 else 'finer_or_equal')
    return {'populated': int(len(pop)), 'covered': covered, 'coarsening': coarsening, 'width_ratio': float(ratio)}


def _remesh_clause(self, resetPSD, OLD):
    o = OLD.st
    if resetPSD:
        _event('remesh_with_reset')
        return VACUOUS
    facts = remesh_facts(o, float(self.min), float(self.max), int(self.bins))
    if not facts['covered']:
        _event('remesh_not_covering')
        return VACUOUS
    m_old = third_moment(o['PSD'], o['bounds'])
    if len(np.asarray(self.PSD)) + 1 != len(np.asarray(self.PSDbounds)):
        return 'lengths', {'facts': facts}
    m_new = third_moment(self.PSD, self.PSDbounds)
    if m_old == 0:
        _event('remesh_empty')
        if m_new != 0:
            return 'created', {'m3_old': m_old, 'm3_new': m_new, 'facts': facts}
        return VACUOUS   # empty before, empty after: holds trivially, not counted as an evaluation
    _event('remesh_covering_populated')
    rel = abs(m_new - m_old) / m_old
    if rel <= TOL_M3:
        _worst('remesh_m3_rel', rel)
        return None
    eff = 'emptied' if m_new == 0 else 'changed'
    return eff, {'m3_old': m_old, 'm3_new': m_new, 'rel': rel, 'facts': facts,
                 'old_bounds': o['bounds'], 'old_PSD': o['PSD'], 'new_min': self.min, 'new_max': self.max, 'new_bins': self.bins}


def _remesh_ok(self, resetPSD, OLD):
    return _decide('remesh_m3', _remesh_clause(self, resetPSD, OLD))


def _remesh_err(self, resetPSD, OLD):
    eff, detail = _remesh_clause(self, resetPSD, OLD)
    f = detail.get('facts', {})
    return ContractViolation('remesh_m3', {'op': 'remesh', 'effect': eff, 'coarsening': f.get('coarsening'),
                                           'isolated_class': f.get('populated') == 1}, detail)


# ------------------------------------------------------------------------------------------------
# automatic adjustment

def _adjust_clause(self, checkDissolution):
    if not self.__dict__.get('_adaptiveBinSize', False):
        _event('adjust_not_adaptive')
        return VACUOUS
    if self.minBins > self.maxBins:
        _event('adjust_contradictory_limits')
        return VACUOUS
    if self.bins > self.maxBins:
        return 'above_maximum', {'bins': self.bins, 'maxBins': self.maxBins, 'minBins': self.minBins}
    return None


def _adjust_ok(self, checkDissolution):
    return _decide('adjust_max', _adjust_clause(self, checkDissolution))


def _adjust_err(self, checkDissolution):
    clause, detail = _adjust_clause(self, checkDissolution)
    return ContractViolation('adjust_max', {'op': 'adjust', 'clause': clause, 'dissolution': bool(checkDissolution)}, detail)


# ------------------------------------------------------------------------------------------------
# reset

def _reset_clause(self, resetBounds):
    init = self.__dict__.get('_c08_init')
    if not resetBounds or init is None:
        return VACUOUS
    if self.bins != init['bins'] or float(self.min) != init['min'] or float(self.max) != init['max']:
        return 'description', {'bins': self.bins, 'min': self.min, 'max': self.max,
                               'initial': {k: init[k] for k in ('bins', 'min', 'max')}}
    b = np.asarray(self.PSDbounds)
    if b.shape != init['bounds'].shape or b.tobytes() != init['bounds'].tobytes():
        return 'boundaries', {'bounds': b, 'initial': init['bounds']}
    r = np.asarray(self.PSDsize)
    if r.shape != init['size'].shape or r.tobytes() != init['size'].tobytes():
        return 'centres', {'PSDsize': r, 'initial': init['size']}
    psd = np.asarray(self.PSD)
    if psd.shape != init['PSD'].shape or not np.all(psd == 0):
        return 'populations', {'PSD': psd}
    return None


def _reset_ok(self, resetBounds):
    return _decide('reset_initial', _reset_clause(self, resetBounds))


def _reset_err(self, resetBounds):
    clause, detail = _reset_clause(self, resetBounds)
    return ContractViolation('reset_initial', {'op': 'reset', 'clause': clause}, detail)


# ------------------------------------------------------------------------------------------------
# backup / revert

def _revert_clause(self):
    bk = self.__dict__.get('_c08_backup')
    if bk is None:
        return VACUOUS
    psd, b = np.asarray(self.PSD), np.asarray(self.PSDbounds)
    if psd.shape != bk['PSD'].shape or psd.tobytes() != bk['PSD'].tobytes():
        return 'populations', {'PSD': psd, 'saved': bk['PSD']}
    if b.shape != bk['bounds'].shape or b.tobytes() != bk['bounds'].tobytes():
        return 'boundaries', {'bounds': b, 'saved': bk['bounds']}
    if self.bins != len(bk['PSD']) or float(self.min) != float(bk['bounds'][0]) or float(self.max) != float(bk['bounds'][-1]):
        return 'description', {'bins': self.bins, 'min': self.min, 'max': self.max}
    return None


def _revert_ok(self):
    if self.__dict__.get('_c08_backup') is None:
        _event('revert_without_backup')
    return _decide('revert_restores', _revert_clause(self))


def _revert_err(self):
    clause, detail = _revert_clause(self)
    bk = self.__dict__.get('_c08_backup') or {}
    return ContractViolation('revert_restores', {'op': 'revert', 'clause': clause,
                                                 'remesh_since_backup': bool(bk.get('remeshed'))}, detail)


# ------------------------------------------------------------------------------------------------
# load

def _load_clause(self, data, OLD):
    o = OLD.st
    try:
        d = np.asarray(data, dtype=float)
    except Exception:
        return VACUOUS
    if d.size and not np.all(np.isfinite(d)):
        _event('load_inadmissible')
        return VACUOUS
    want = histogram(d, o['bounds'])
    psd = np.asarray(self.PSD)
    if psd.shape != want.shape or not np.array_equal(psd, want):
        return 'counts', {'PSD': psd, 'histogram': want, 'n_data': int(d.size)}
    return None


def _load_ok(self, data, OLD):
    return _decide('load_hist', _load_clause(self, data, OLD))


def _load_err(self, data, OLD):
    clause, detail = _load_clause(self, data, OLD)
    return ContractViolation('load_hist', {'op': 'load_data', 'clause': clause}, detail)


# ------------------------------------------------------------------------------------------------
# ghost state

def _ghost(name, func):
    @functools.wraps(func)
    def wrapper(self, *args, **kwargs):
        d = self.__dict__
        depth = d.get('_c08_depth', 0)
        if depth == 0:
            d['_c08_last'] = name
        d['_c08_depth'] = depth + 1
        _event('call:' + name)
        try:
            if name == 'createBackup':
                saved = {'PSD': np.array(self.PSD, copy=True), 'bounds': np.array(self.PSDbounds, copy=True), 'remeshed': False}
                out = func(self, *args, **kwargs)
                d['_c08_backup'] = saved
                return out
            if name == 'changeSizeClasses':
                if d.get('_c08_backup') is not None:
                    d['_c08_backup']['remeshed'] = True
                d['_c08_in_remesh'] = d.get('_c08_in_remesh', 0) + 1
                try:
                    return func(self, *args, **kwargs)
                finally:
                    d['_c08_in_remesh'] -= 1
            if name == 'reset':
                resetBounds = args[0] if args else kwargs.get('resetBounds', True)
                # a reset the caller asked for discards what could be reverted to; the reset(False) that the
                # re-mesh performs internally is not such a request
                if resetBounds or not d.get('_c08_in_remesh', 0):
                    d['_c08_backup'] = None
                return func(self, *args, **kwargs)
            if name == '__init__':
                out = func(self, *args, **kwargs)
                d['_c08_init'] = grid_state(self)
                d['_c08_backup'] = None
                return out
            return func(self, *args, **kwargs)
        finally:
            d['_c08_depth'] = depth
    return wrapper


def install():
    """Decorate kawin's PopulationBalanceModel in place (idempotent).  Returns the class."""
    import icontract
    from kawin.precipitation.PopulationBalance import PopulationBalanceModel as P
    if _INSTALLED['done']:
        return P
    for name, val in list(P.__dict__.items()):
        if not inspect.isfunction(val):
            continue
        if name.startswith('_') and name != '__init__':
            continue
        setattr(P, name, _ghost(name, val))

    def contract(name, cond, err, snapshot=False):
        f = P.__dict__[name]
        f = icontract.ensure(cond, error=err)(f)
        if snapshot:
            f = icontract.snapshot(_snap, name='st')(f)
        setattr(P, name, f)

    contract('addSizeClasses', _extend_ok, _extend_err, snapshot=True)
    contract('changeSizeClasses', _remesh_ok, _remesh_err, snapshot=True)
    contract('adjustSizeClassesEuler', _adjust_ok, _adjust_err)
    contract('reset', _reset_ok, _reset_err)
    contract('revert', _revert_ok, _revert_err)
    contract('LoadDistribution', _load_ok, _load_err, snapshot=True)
    icontract.invariant(_inv_ok, error=_inv_err)(P)
    _INSTALLED['done'] = True
    return P
