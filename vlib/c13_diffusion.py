"""C13 (diffusion part): the temperature handed to the backend for node i at a stage equals the user's
schedule / field evaluated at (z_i, stage time).

Single-phase models run against a duck-typed stub backend (constant diffusivity) that records every
(x, T) it is asked for; homogenization models run against the real Fe-Cr-Ni database with an
instance-level wrapper on the equilibrium entry point. The composition cache is cleared through the
model's public clearCache() before every stage so that every node reaches the backend.
"""
import numpy as np

from vlib import precip
from vlib.core import StopRun


class StubTherm:
    def __init__(self, nsol):
        self.log = []
        self.nsol = nsol
        self.numElements = nsol + 1

    def clearCache(self):
        pass

    def getInterdiffusivity(self, x, T, removeCache=False, phase=None):
        self.log.append((np.array(x, dtype=float, copy=True), float(np.squeeze(T))))
        if self.nsol == 1:
            return 1e-14
        return 1e-14 * (np.eye(self.nsol) + 0.1)


def _schedule(rng, variant, zlim, dur):
    """returns (description, setter(model), reference(z, t))"""
    T0 = float(rng.uniform(1100, 1400))
    kind = ['iso', 'array', 'field', 'array', 'field', 'field_time_only'][variant % 6]
    if kind == 'iso':
        return {'kind': 'iso', 'T': T0}, (lambda m: m.setTemperature(T0)), (lambda z, t: T0 * np.ones(len(z)))
    if kind == 'array':
        # break points that do / do not cover the run: before the first and after the last break point the documented
        # behaviour is to HOLD the first / last temperature (seeded change F07 extrapolated the end segments)
        cover = ((variant + 1) // 2) % 4
        f0 = 0.0 if cover in (0, 1) else 0.15
        f2 = 1.0 if cover in (0, 2) else 0.6
        hrs = [f0 * dur / 3600, (f0 + 0.3 * (f2 - f0)) * dur / 3600, f2 * dur / 3600]
        Ts = [T0, T0 + float(rng.uniform(-80, 80)), T0 + float(rng.uniform(-80, 80))]

        def ref(z, t):
            th = t / 3600.0
            if th <= hrs[0]:
                v = Ts[0]
            elif th >= hrs[-1]:
                v = Ts[-1]
            else:
                j = int(np.searchsorted(hrs, th, side='right')) - 1
                v = Ts[j] + (th - hrs[j]) / (hrs[j + 1] - hrs[j]) * (Ts[j + 1] - Ts[j])
            return v * np.ones(len(z))
        return {'kind': 'array', 'hours': hrs, 'temps': Ts}, (lambda m: m.setTemperatureArray(hrs, Ts)), ref
    L = zlim[1] - zlim[0]
    a = float(rng.uniform(20, 90)) / L
    b = float(rng.uniform(-60, 60)) / dur
    if kind == 'field_time_only':
        a = 0.0

    def f(z, t):
        return T0 + a * (np.asarray(z) - zlim[0]) + b * t
    return {'kind': kind, 'T0': T0, 'grad': a, 'rate': b}, (lambda m: m.setTemperatureFunction(f)), (lambda z, t: f(np.asarray(z), t) * np.ones(len(z)))


def run(case, R):
    from kawin.diffusion import SinglePhaseModel, HomogenizationModel
    from vlib.core import case_rng
    rng = case_rng(case['seed'], 'C13', case['idx'], 7)
    v = case['variant']
    homog = (v % 6 == 5) or (v % 7 == 3)
    N = int(rng.integers(8, 20)) if not homog else int(rng.integers(6, 10))
    zlim = [0.0, 1e-4]
    itname = 'rk4' if v % 2 else 'euler'
    if not homog:
        nsol = 1 + (v % 2)
        els = ['A', 'B', 'C'][:nsol + 1]
        therm = StubTherm(nsol)
        m = SinglePhaseModel(zlim, N, els, ['PH'], thermodynamics=therm, record=False)
        step_profile = (v % 6 in (2, 4)) and (v // 6) % 2 == 0
        for e in range(nsol):
            if step_profile:
                # runs of bit-identical nodes under a temperature field: every node still has to reach the backend with its
                # own temperature (seeded change F16 copied the neighbour's diffusivity when the compositions were identical)
                m.setCompositionStep(0.1 + 0.05 * e, 0.3 + 0.05 * e, 0.5 * (zlim[0] + zlim[1]), els[1 + e])
            else:
                m.setCompositionLinear(0.1 + 0.05 * e, 0.3 + 0.05 * e, els[1 + e])
        if step_profile:
            m.useCache(False)
        dz = (zlim[1] - zlim[0]) / (N - 1)
        dur = 25 * 0.4 * dz * dz / (1e-14 * 1.2)
        log = therm.log
    else:
        from kawin.thermo import GeneralThermodynamics
        import kawin.tests.datasets as ds
        therm = GeneralThermodynamics(ds.FECRNI_DB, ['FE', 'CR', 'NI'], ['FCC_A1', 'BCC_A2'])
        m = HomogenizationModel(zlim, N, ['FE', 'CR', 'NI'], ['FCC_A1', 'BCC_A2'], thermodynamics=therm, record=False)
        m.setCompositionLinear(0.2, 0.3, 'CR')
        m.setCompositionLinear(0.1, 0.25, 'NI')
        nsol = 2
        dur = 3e3
        log = []
        orig = therm.getEq

        def spy_eq(x, T, *a, **k):
            log.append((np.array(np.squeeze(x), dtype=float, copy=True), float(np.squeeze(T))))
            return orig(x, T, *a, **k)
        therm.getEq = spy_eq
    desc, setter, ref = _schedule(rng, v, zlim, dur)
    setter(m)
    mech = {'model': 'homogenization' if homog else 'single_phase', 'schedule': desc['kind'], 'iterator': itname}
    from kawin.solver.Iterators import ExplicitEulerIterator, RK4Iterator
    base = ExplicitEulerIterator if itname == 'euler' else RK4Iterator
    state = {'steps': 0, 'stages': 0, 'calls': 0}
    max_steps = 12 if homog else 40

    def iterator(f, t, X_old, updateX):
        def F(tt, x, getDt=False):
            m.clearCache() if hasattr(m, 'clearCache') else m.hashTable.clearCache()
            m.hashTable.clearCache()
            del log[:]
            out = f(tt, x, getDt) if getDt else f(tt, x)
            X = np.reshape(np.asarray(x), (nsol, N))
            Texp = np.asarray(ref(m.z, tt), dtype=float)
            state['stages'] += 1
            seen = set()
            for xq, Tq in log:
                state['calls'] += 1
                xq = np.atleast_1d(xq)
                # node identity from the composition the backend was asked for (profile is strictly monotone)
                d = np.max(np.abs(X - xq[:, None]), axis=0)
                cand = np.nonzero(d == 0.0)[0]
                if len(cand):
                    # several nodes may hold this composition (step profiles): the one whose scheduled temperature is closest
                    i = int(cand[np.argmin(np.abs(Texp[cand] - Tq))])
                    okx = True
                else:
                    i = int(np.argmin(d))
                    okx = False
                okT = abs(Tq - Texp[i]) <= 1e-12 * abs(Texp[i])
                seen.add(i)
                R.check('c13.diffusion_T', okx and okT, dict(mech, what='composition' if not okx else 'temperature'),
                        stage_time=tt, node=i, z=m.z[i], passed_T=Tq, expected_T=Texp[i], composition_match=bool(okx))
            R.check('c13.diffusion_T', len(seen) == N, dict(mech, what='nodes_missing'), nodes_seen=len(seen), nodes=N, stage_time=tt)
            return out
        r = base(F, t, X_old, updateX)
        state['steps'] += 1
        if state['steps'] >= max_steps:
            raise StopRun()
        return r
    try:
        m.solve(dur, solverType=iterator)
    except StopRun:
        pass
    R.observe('diffusion_stages', state['stages'])
    R.observe('diffusion_backend_calls', state['calls'])
    R.info.update({'model': mech['model'], 'schedule': desc, 'steps': state['steps'], 'N': N, 'iterator': itname})
    R.set_nontrivial(state['calls'] >= 2 * N and desc['kind'] != 'iso')
