"""Random precipitation configurations (DESIGN.md section 2).

gen_config(rng, ...) returns a JSON-serialisable dict understood by vlib.precip.build_model plus run
control ('iterator', 'segments', 'max_steps').  Grid parameters are drawn in two classes that are
reported separately: 'in_range' (minBins <= bins <= maxBins, what the parameter documentation
describes) and 'out_of_range' (anything else the constructor accepts).
"""
import numpy as np

from vlib import precip

BINARY = ('alzr', 'cuti')      # systems solved with BinaryThermodynamics (tabulated interfacial compositions)
SITES = ['bulk', 'dislocations', 'grain boundaries', 'grain edges', 'grain corners']
SITE_KMAX = {'grain boundaries': 1.0, 'grain edges': np.sqrt(3) / 2, 'grain corners': np.sqrt(2.0 / 3.0)}


def _loguniform(rng, lo, hi):
    return float(np.exp(rng.uniform(np.log(lo), np.log(hi))))


def gen_schedule(rng, system, T0, allow_noniso=True, duration=1e4):
    if not allow_noniso or rng.random() < 0.5:
        return {'kind': 'iso', 'T': float(T0)}
    kind = rng.choice(['array', 'ramp'])
    span = float(rng.uniform(5, 60)) * (1 if rng.random() < 0.5 else -1)
    if kind == 'array':
        hrs_tot = duration / 3600.0
        nseg = int(rng.integers(1, 4))
        hours = [0.0] + sorted(float(h) for h in rng.uniform(0.05, 1.0, nseg) * hrs_tot)
        if nseg == 3:
            hours[0] = 0.5 * hours[1]      # first break point later than the start of the run: the first temperature is held before it
        temps = [float(T0)]
        for i in range(nseg):
            temps.append(float(T0 + span * rng.uniform(0.2, 1.0) * (1 if rng.random() < 0.7 else 0)))
        return {'kind': 'array', 'hours': hours, 'temps': temps}
    rate = span / duration
    return {'kind': 'ramp', 'T0': float(T0), 'rate': float(rate), 'lo': float(T0 - abs(span)), 'hi': float(T0 + abs(span))}


def gen_config(rng, system=None, tier='quick', allow_noniso=True, out_of_window=False, grid_class=None,
               sites=None, allow_beta2=False, iterator=None, max_steps=None, allow_dtfrac=False, allow_elastic=False):
    system = system or rng.choice(['alzr', 'nialcr', 'almgsi'], p=[0.45, 0.35, 0.2])
    system = str(system)
    cfg = precip.default_cfg(system)
    cfg['iterator'] = iterator or str(rng.choice(['euler', 'rk4'], p=[0.6, 0.4]))
    # ---------------------------------------------------------------- composition / temperature
    if system == 'alzr':
        x0 = [_loguniform(rng, 3e-3, 7e-3)]
        T0 = rng.uniform(700, 790)
        gam = {'AL3ZR': float(rng.uniform(0.08, 0.11))}
        if out_of_window:
            if rng.random() < 0.5:
                x0 = [_loguniform(rng, 1e-6, 5e-5)]
            else:
                T0 = rng.uniform(900, 1000)
    elif system == 'cuti':
        # binary with two precipitate phases of different interfacial energy (added after seeded change C12-d)
        x0 = [float(rng.uniform(0.008, 0.03))]
        T0 = rng.uniform(600, 720)
        gam = {'CU4TI': float(rng.uniform(0.03, 0.055)), 'CU3TI2': float(rng.uniform(0.05, 0.09))}
        if rng.random() < 0.25:
            gam['CU3TI2'] = gam['CU4TI']
        if out_of_window:
            if rng.random() < 0.5:
                x0 = [_loguniform(rng, 1e-5, 5e-4)]
            else:
                T0 = rng.uniform(1100, 1200)
    elif system == 'nialcr':
        x0 = [float(rng.uniform(0.095, 0.12)), float(rng.uniform(0.06, 0.10))]
        T0 = rng.uniform(1000, 1100)
        gam = {'FCC_L12': float(rng.uniform(0.018, 0.028))}
        if out_of_window:
            if rng.random() < 0.5:
                x0 = [float(rng.uniform(0.01, 0.03)), float(rng.uniform(0.02, 0.05))]
            else:
                T0 = rng.uniform(1350, 1450)
    else:
        nph = int(rng.integers(2, 4)) if tier == 'thorough' else 2
        idx = sorted(rng.choice(len(precip.ALMGSI_PHASES), size=nph, replace=False).tolist())
        ph = [precip.ALMGSI_PHASES[i] for i in idx]
        if 'MG5SI6_B_DP' not in ph and rng.random() < 0.7:
            ph[0] = 'MG5SI6_B_DP'
            ph = list(dict.fromkeys(ph))
            if len(ph) < 2:
                ph.append('MGSI_B_P')
        cfg['phases'] = ph
        x0 = [float(rng.uniform(0.005, 0.009)), float(rng.uniform(0.004, 0.008))]
        T0 = rng.uniform(430, 500)
        if x0[0] > 0.008:
            # intermediate window (560-660 K): some of the listed phases have a positive driving force at the initial state and
            # others do not (seeded change F10: a later-listed phase without a two-phase equilibrium crashed setup())
            T0 = 560.0 + (T0 - 430.0) / 70.0 * 100.0
        gam = {p: float(precip.ALMGSI_GAMMA[p] * rng.uniform(0.85, 1.1)) for p in ph}
        if out_of_window:
            T0 = rng.uniform(750, 820)
    cfg['x0'] = x0
    cfg['gamma'] = gam
    phases = cfg['phases']
    # ---------------------------------------------------------------- run length
    dur = {'alzr': _loguniform(rng, 3e3, 1e6), 'cuti': _loguniform(rng, 1e1, 1e5), 'nialcr': _loguniform(rng, 1e2, 1e6),
           'almgsi': _loguniform(rng, 1e3, 1e5)}[system]
    if out_of_window or rng.random() < 0.1:
        dur = _loguniform(rng, 1e1, 1e4)
    cfg['schedule'] = gen_schedule(rng, system, T0, allow_noniso, dur)
    noniso = cfg['schedule']['kind'] != 'iso'
    nseg = int(rng.choice([1, 1, 2, 3, 4]))
    cuts = sorted(rng.uniform(0.05, 0.95, nseg - 1).tolist())
    edges = [0.0] + cuts + [1.0]
    cfg['segments'] = [float(dur * (edges[i + 1] - edges[i])) for i in range(nseg)]
    # ---------------------------------------------------------------- volumes
    ratio = float(rng.uniform(0.7, 1.5))          # Vm_beta / Vm_alpha
    cfg['VmBeta'] = {p: float(cfg['VmAlpha'] * ratio) for p in phases}
    # how the volumes are specified (molar volume / unit-cell volume / lattice parameter, atoms per unit cell)
    if rng.random() < 0.6:
        cfg['volSpec'] = {'alpha': {'type': str(rng.choice(['VM', 'VA', 'a'])), 'atoms': int(rng.choice([2, 4, 4]))},
                          'beta': {p: {'type': str(rng.choice(['VM', 'VA', 'a'])), 'atoms': int(rng.choice([1, 2, 4, 8, 16]))} for p in phases}}
    # ---------------------------------------------------------------- nucleation sites
    site_pool = sites or SITES
    cfg['site'] = {}
    cfg['grainSize'] = _loguniform(rng, 0.5, 100.0)
    boundary_grain = _loguniform(rng, 0.3, 8.0)
    cfg['dislocationDensity'] = _loguniform(rng, 1e12, 1e15)
    if system in ('nialcr', 'cuti') and rng.random() < 0.5:
        cfg['bulkN0'] = _loguniform(rng, 1e28, 1e30)
    elif 'bulkN0' in cfg and rng.random() < 0.5:
        del cfg['bulkN0']
    boundary = False
    kmin = None
    for p in phases:
        s = str(rng.choice(site_pool))
        cfg['site'][p] = s
        if s in SITE_KMAX:
            boundary = True
            lim = SITE_KMAX[s] * cfg['gamma'][p] * 2      # gbEnergy < lim
            kmin = lim if kmin is None else min(kmin, lim)
    if boundary:
        cfg['grainSize'] = boundary_grain
        cfg['GBenergy'] = float(kmin * rng.uniform(0.1, 0.9))
    # ---------------------------------------------------------------- shape / strain
    cfg['shape'] = {}
    cfg['strain'] = {}
    for p in phases:
        if cfg['site'][p] in SITE_KMAX:
            continue       # boundary sites require spheres (library rejects other shapes)
        r = rng.random()
        if r < 0.45:
            continue
        name = str(rng.choice(['needle', 'plate', 'cubic']))
        ar = float(rng.uniform(1.0, 4.0))
        if ar < 1.6:
            ar = 1.0      # a non-spherical shape at its default aspect ratio of exactly 1 (limit values of the shape factors; seeded change C03-e)
        cfg['shape'][p] = {'name': name, 'ar': ar}
    for p in phases:
        if rng.random() < 0.2:
            cfg['strain'][p] = {'kind': 'constant', 'value': _loguniform(rng, 1e5, 2e7)}
        elif allow_elastic and rng.random() < 0.15:
            # elastic strain energy computed from moduli and eigenstrain (Khachaturyan / Eshelby paths)
            cfg['strain'][p] = {'kind': 'elastic', 'E': float(rng.uniform(60e9, 200e9)), 'nu': float(rng.uniform(0.25, 0.35)),
                                'eigenstrain': float(rng.uniform(5e-4, 4e-3))}
    if len(phases) > 1 and rng.random() < 0.3:
        # nucleation on the surface of another precipitate phase
        a, b = rng.choice(len(phases), size=2, replace=False)
        cfg['parents'] = {phases[int(a)]: [phases[int(b)]]}
    # ---------------------------------------------------------------- PBM grid
    gclass = grid_class or ('in_range' if rng.random() < 0.85 else 'out_of_range')
    cMax = _loguniform(rng, 4e-9, 4e-8)
    if gclass == 'in_range':
        minB = int(rng.integers(20, 80))
        maxB = int(minB * rng.uniform(1.6, 2.5))
        bins = int(rng.integers(minB, maxB + 1))
    else:
        minB = int(rng.integers(20, 120))
        maxB = int(rng.integers(30, 200))
        bins = int(rng.integers(10, 160))
    if noniso and system in BINARY:
        bins = min(bins, 32)
        minB = min(minB, 24)
        maxB = max(min(maxB, 48), minB + 5, bins)
    cfg['pbm'] = {'cMin': 1e-10, 'cMax': cMax, 'bins': bins, 'minBins': minB, 'maxBins': maxB,
                  'adaptive': bool(rng.random() < 0.75)}
    cfg['grid_class'] = gclass
    cfg['recordPSD'] = bool(rng.random() < 0.3)
    # ---------------------------------------------------------------- constraints
    cons = {}
    for flag in ('checkTemperature', 'checkPSD', 'checkRcrit', 'checkNucleation', 'checkVolumePre'):
        if rng.random() < 0.15:
            cons[flag] = False
    if rng.random() < 0.9:
        # the default (1e-3) spends thousands of steps in the incubation period; larger values reach
        # nucleation/growth/coarsening within the step cap
        cons['dtScale'] = float(rng.choice([1e-2, 3e-2, 0.1, 0.3]))
    if rng.random() < 0.3:
        cons['maxDissolution'] = float(rng.choice([1e-3, 1e-2, 5e-2]))
    if rng.random() < 0.2:
        cons['minRadius'] = float(rng.choice([2e-10, 3e-10, 5e-10]))
    if rng.random() < 0.2:
        cons['maxVolumeChange'] = float(rng.choice([1e-3, 1e-2]))
    cfg['constraints'] = cons
    if system not in BINARY:
        if rng.random() < 0.3:
            cfg['infDiff'] = False
    if rng.random() < 0.3:
        cfg['effectiveDiffusion'] = bool(rng.random() < 0.5)
    if system in BINARY and allow_beta2 and rng.random() < 0.25:
        cfg['betaBinary'] = 2
    # ---------------------------------------------------------------- solver step fractions (dt constraints of solve())
    if allow_dtfrac and rng.random() < 0.3:
        mn = float(rng.choice([1e-3, 0.03, 0.07, 0.3, 0.7]))
        cfg['minDtFrac'] = mn
        if rng.random() < 0.4:
            cfg['maxDtFrac'] = float(max(mn, rng.choice([0.07, 0.3, 1.0])))
    # ---------------------------------------------------------------- step cap
    if max_steps is None:
        max_steps = 1600 if tier == 'quick' else 6000
        if noniso and system in BINARY:
            # every step (every RK4 stage) of a fast ramp rebuilds the interfacial-composition table (0.3-1 s)
            max_steps = (60 if cfg['iterator'] == 'euler' else 50) if tier == 'quick' else 400
        if system == 'almgsi':
            max_steps = min(max_steps, 1500 if tier == 'quick' else 3000)
        if cfg['iterator'] == 'rk4':
            max_steps = int(max_steps * 0.5)
    cfg['max_steps'] = int(max_steps)
    return cfg


def cfg_weight(cfg):
    """Rough relative cost, for load balancing."""
    per = {'alzr': 4.5, 'cuti': 9.0, 'nialcr': 9.0, 'almgsi': 14.0}[cfg['system']] * (3.0 if cfg['iterator'] == 'rk4' else 1.0)
    if cfg['schedule']['kind'] != 'iso' and cfg['system'] in BINARY:
        per = 700.0
    return per * cfg['max_steps'] * max(1, len(cfg['phases']) / 2)


def gen_dissolution_config(rng, system='nialcr', tier='quick'):
    """Age, then heat far above the solvus so that the precipitates dissolve completely (a regime of its own:
    the 'phase has no precipitates' branches are entered with non-zero previous values)."""
    cfg = precip.default_cfg(system)
    cfg['iterator'] = str(rng.choice(['euler', 'rk4'], p=[0.7, 0.3]))
    cfg['constraints'] = {'dtScale': 0.3, 'maxDissolution': 0.05, 'checkRcrit': False}    # the critical-radius rule collapses the step where the driving force passes through zero
    if system == 'alzr':
        cfg['x0'] = [float(rng.uniform(3.5e-3, 6e-3))]
        T1, T2 = float(rng.uniform(720, 770)), float(rng.uniform(1150, 1300))
        t_age = float(np.exp(rng.uniform(np.log(3e3), np.log(3e4))))
        t_ramp = float(rng.uniform(50, 500))
        t_hold = float(np.exp(rng.uniform(np.log(2e2), np.log(5e3))))
        cfg['constraints']['maxTempChange'] = float(rng.choice([10.0, 25.0]))      # a table rebuild costs ~0.3-1 s
        cfg['pbm'] = {'cMin': 1e-10, 'cMax': 5e-9, 'bins': 32, 'minBins': 24, 'maxBins': 48, 'adaptive': True}
    elif system == 'nialcr':
        cfg['x0'] = [float(rng.uniform(0.10, 0.115)), float(rng.uniform(0.07, 0.09))]
        T1, T2 = float(rng.uniform(1030, 1080)), float(rng.uniform(1400, 1500))
        t_age = float(np.exp(rng.uniform(np.log(20), np.log(500))))
        t_ramp = float(rng.uniform(5, 50))
        t_hold = float(np.exp(rng.uniform(np.log(50), np.log(2e3))))
    else:
        T1, T2 = float(rng.uniform(440, 470)), float(rng.uniform(800, 850))
        t_age = float(np.exp(rng.uniform(np.log(5e3), np.log(3e4))))
        t_ramp = float(rng.uniform(50, 500))
        t_hold = float(np.exp(rng.uniform(np.log(2e2), np.log(5e3))))
    if system != 'alzr':      # coarse classes: the growth-limited step scales with the class width
        cfg['pbm'] = {'cMin': 1e-10, 'cMax': 8e-9, 'bins': 36, 'minBins': 28, 'maxBins': 56, 'adaptive': True}
    h = 1.0 / 3600.0
    cfg['schedule'] = {'kind': 'array', 'hours': [0.0, t_age * h, (t_age + t_ramp) * h, (t_age + t_ramp + t_hold) * h],
                       'temps': [T1, T1, T2, T2]}
    if rng.random() < 0.5:
        cfg['segments'] = [t_age, t_ramp + t_hold]
    else:
        cfg['segments'] = [t_age + t_ramp + t_hold]
    cfg['max_steps'] = 2200 if tier == 'quick' else 8000
    # Ni-Al-Cr steps cost up to 0.3 s once the matrix has left the two-phase field (search for a two-phase equilibrium in every
    # growth evaluation): the run also ends on a wall budget
    cfg['wall_budget'] = 120.0 if tier == 'quick' else 600.0
    cfg['dissolution'] = True
    return cfg
