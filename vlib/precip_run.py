"""Trajectory runner for precipitation models with pluggable per-step monitors.

One `TrajectoryRun` builds a fresh thermodynamics object, wraps it in a ThermSpy, builds the model from
a configuration dict, attaches a monitoring iterator and a step observer and runs 1..k solve() calls.
Per accepted step it assembles a `ctx` dict with everything the monitors need:

  at iterator entry   psd_prev (user-visible PSD the step starts from), grids, n_prev
  at iterator return  X_raw (copy of the integrator output), X_ref (the live buffer), dt, stage times,
                      PSDXbeta copies, stability indices, J used by the final update
  at first backend    X_mb = copy of the live buffer = distribution exactly as the mass balance saw it
  query afterwards    (after the documented zeroing of sub-minimum/unstable classes, before truncation)
  in the observer     recorded slice n, user-visible PSD/grids after the update, grid events
                      (extend / re-mesh, captured by instance-level wrappers of the PBM's public methods)
"""
import numpy as np

from vlib import precip
from vlib.core import StopRun

ALLOWED_SETUP_ERRORS = (ValueError,)


class GridEvents:
    """Instance-level wrappers around the public grid operations of one PopulationBalanceModel."""

    def __init__(self, pbm):
        self.pbm = pbm
        self.events = []
        self._wrap('changeSizeClasses')
        self._wrap('addSizeClasses')
        self._wrap('reset')

    def _wrap(self, name):
        orig = getattr(self.pbm, name)
        ev = self.events
        pbm = self.pbm

        def wrapped(*a, **k):
            before = {'PSD': np.array(pbm.PSD, copy=True), 'bounds': np.array(pbm.PSDbounds, copy=True)}
            r = orig(*a, **k)
            ev.append({'op': name, 'args': a, 'before': before,
                       'after': {'PSD': np.array(pbm.PSD, copy=True), 'bounds': np.array(pbm.PSDbounds, copy=True)}})
            return r
        setattr(self.pbm, name, wrapped)

    def drain(self):
        e = list(self.events)
        del self.events[:]
        return e


class TrajectoryRun:
    def __init__(self, cfg, R, monitors, max_steps=None, fault=None, temperature_via='setter', therm=None):
        self.cfg = cfg
        self.R = R
        self.monitors = monitors
        self.max_steps = max_steps
        self.fault = fault
        self.fault_active = fault is not None
        self.fault_info = None
        self.temperature_via = temperature_via
        self.ctx = None
        self.await_mb = False
        self.model = None
        self.steps = 0
        self.capped = False
        self.error = None
        self.rejected = False
        self.therm_in = therm
        self.segment = 0
        self.table_builds = []     # (step index, T) of every array-valued interfacial query (binary lookup table)
        self.in_iterator = False

    # ---------------------------------------------------------------- seams
    def _before_query(self, name, a, k):
        if getattr(self, 'extra_before', None) is not None:
            self.extra_before(name, a, k)
        if self.await_mb and self.ctx is not None:
            self.ctx['X_mb'] = np.array(self.ctx['X_ref'], copy=True)
            self.await_mb = False
        if name == 'getInterfacialComposition' and len(a) >= 2 and np.ndim(a[1]) > 0 and np.size(a[1]) > 1:
            bins_now = [int(p.bins) for p in self.model.PBM] if self.model is not None and hasattr(self.model, 'PBM') else []
            self.table_builds.append({'step': self.steps, 'T': float(np.ravel(a[0])[0]), 'n': int(np.size(a[1])),
                                      'full': (int(np.size(a[1])) - 1) in bins_now, 'in_iterator': self.in_iterator})

    def _on_enter(self, t, X_old):
        m = self.model
        self.in_iterator = True
        self.ctx = {
            't0': float(t), 'n_prev': int(m.pData.n),
            'psd_prev': [np.array(p.PSD, copy=True) for p in m.PBM],
            'bounds': [np.array(p.PSDbounds, copy=True) for p in m.PBM],
            'size': [np.array(p.PSDsize, copy=True) for p in m.PBM],
            'X_mb': None, 'segment': self.segment,
        }

    def _on_return(self, last):
        m = self.model
        self.in_iterator = False
        c = self.ctx
        c['X_ref'] = last['X_ref']
        c['X_raw'] = last['X_raw']
        c['X_old'] = last['X_old']
        c['dt'] = last['dt']
        c['stage_t'] = last['stage_t']
        c['xbeta'] = [None if x is None else np.array(x, copy=True) for x in getattr(m, 'PSDXbeta', [None] * len(m.PBM))]
        c['rdf_index'] = np.array(m.RdrivingForceIndex, copy=True)
        cy = getattr(m, '_currY', None)
        c['J_last_stage'] = None if cy is None else np.array(cy.nucRate[0], copy=True)
        c['Rnuc_last_stage'] = None if cy is None else np.array(cy.Rnuc[0], copy=True)
        c['growth_iter'] = [np.array(g, copy=True) for g in m.growth]
        self.await_mb = True

    def _on_step(self, model, step):
        self.steps = step
        c = self.ctx
        if c is None:
            return
        self.await_mb = False
        c['n'] = int(model.pData.n)
        c['psd_post'] = [np.array(p.PSD, copy=True) for p in model.PBM]
        c['bounds_post'] = [np.array(p.PSDbounds, copy=True) for p in model.PBM]
        c['size_post'] = [np.array(p.PSDsize, copy=True) for p in model.PBM]
        c['grid_events'] = [g.drain() for g in self.grid_events]
        c['step'] = step
        for mon in self.monitors:
            mon.on_step(self, model, c)
        self.ctx = None

    # ---------------------------------------------------------------- run
    def execute(self):
        R = self.R
        cfg = self.cfg
        try:
            inner = self.therm_in if self.therm_in is not None else precip.make_therm(
                cfg['system'], cfg['phases'], cfg.get('solutes_db'), cfg.get('df_method', 'tangent'))
        except Exception as e:  # the harness could not build the backend: not a verdict
            R.inconclusive = 'thermodynamics construction failed: %r' % (e,)
            return self
        self.spy = precip.ThermSpy(inner, before=self._before_query, fault=self.fault)
        try:
            self.model = precip.build_model(cfg, self.spy, temperature_via=self.temperature_via)
        except ALLOWED_SETUP_ERRORS as e:
            self.rejected = True
            R.observe('rejected_config')
            R.info['rejected'] = str(e)[:200]
            return self
        m = self.model
        self.grid_events = [GridEvents(p) for p in m.PBM]
        self.iterator = precip.MonIterator(cfg.get('iterator', 'euler'), on_return=self._on_return, on_enter=self._on_enter)
        self.observer = precip.StepObserver(self._on_step, max_steps=self.max_steps, wall_budget=cfg.get('wall_budget'))
        for mon in self.monitors:
            mon.on_build(self, m)
        m.addCouplingModel(self.observer)
        segs = cfg.get('segments', [cfg.get('duration', 100.0)])
        self.t_expected = 0.0
        stages = cfg.get('stage_schedules')
        self.active_schedule = cfg['schedule']
        for si, seg in enumerate(segs):
            self.segment = si
            if stages and si > 0:
                # multi-stage treatment through the public setter between solve() calls
                self.active_schedule = stages[si]
                m.setTemperature(*precip.schedule_args(stages[si]))
            for ch in (cfg.get('stage_changes') or {}).get(str(si), []):
                # parameters changed through public setters between two solve() calls
                if ch['what'] == 'gamma':
                    m.setInterfacialEnergy(m.precipitateParameters[m.phaseIndex(ch['phase'])].gamma * ch['factor'], phase=ch['phase'])
                elif ch['what'] == 'VmBeta':
                    pp = m.precipitateParameters[m.phaseIndex(ch['phase'])]
                    m.setVolumeBeta(pp.volume.Vm * ch['factor'], 'VM', pp.volume.atomsPerCell, phase=ch['phase'])
                elif ch['what'] == 'VmAlpha':
                    vol = m.matrixParameters.volume
                    m.setVolumeAlpha(vol.Vm * ch['factor'], 'VM', vol.atomsPerCell)
                R.observe('parameter_changes_between_calls')
            t_before = float(m.pData.time[m.pData.n])
            try:
                m.solve(float(seg), solverType=self.iterator,
                        **({k: cfg[k] for k in ('minDtFrac', 'maxDtFrac') if k in cfg}))
            except StopRun:
                if self.observer.time_capped:
                    R.observe('runs_ended_by_wall_budget')
                if cfg.get('cap_per_segment') and si < len(segs) - 1 and not self.observer.time_capped:
                    # logical step budget per solve() call: go on with the next call from the time reached
                    self.observer.max_steps += int(cfg['max_steps'])
                    self.observer.capped = False
                    R.observe('capped_segments')
                    continue
                self.capped = True
                R.observe('capped_runs')
            except Exception as e:
                self.error = e
                for mon in self.monitors:
                    mon.on_exception(self, m, e, si)
                break
            for mon in self.monitors:
                mon.on_solve_return(self, m, si, t_before, float(seg), self.capped)
            if self.capped:
                break
        R.observe('steps', self.steps)
        R.observe('runs')
        return self


class Monitor:
    def on_build(self, run, model):
        pass

    def on_step(self, run, model, c):
        pass

    def on_exception(self, run, model, exc, seg):
        pass

    def on_solve_return(self, run, model, seg, t_before, duration, capped):
        pass


def split_flat(X, sizes):
    out = []
    off = 0
    for s in sizes:
        out.append(X[off:off + s])
        off += s
    return out


def site_name(model, p):
    return model.precipitateParameters[p].nucleation.description.name


def kappa_for(model, p):
    """Volume factor: independent closed form for bulk/dislocation/grain-boundary nuclei, the repository's
    own value for edges/corners (whose geometry is validated in C14)."""
    nuc = model.precipitateParameters[p].nucleation
    name = nuc.description.name
    if name in ('BULK', 'DISLOCATIONS'):
        return 4.0 * np.pi / 3.0, 'independent'
    if name == 'GRAIN BOUNDARIES':
        k = model.matrixParameters.GBenergy / (2.0 * model.precipitateParameters[p].gamma)
        return 2.0 * np.pi / 3.0 * (2.0 - 3.0 * k + k ** 3), 'independent'
    return float(nuc.volumeFactor), 'repository'
