"""Per-step monitors for precipitation trajectories (see DESIGN.md section 3, C01/C02/C03/C12/C13)."""
import numpy as np

from vlib.precip_run import Monitor, split_flat, kappa_for, site_name
from vlib import precip


def _mech(run, model, p=None, **kw):
    cfg = run.cfg
    m = {'system': cfg['system'], 'iterator': cfg.get('iterator', 'euler')}
    if p is not None:
        m['site'] = site_name(model, p)
        m['infDiff'] = bool(model.precipitateParameters[p].infinitePrecipitateDiffusion)
    fi = getattr(run, 'fault_info', None)
    if fi is not None:
        m['fault_kind'] = fi['kind']
        m['fault_hit'] = '+'.join(sorted(fi['hit'])) if fi['hit'] else 'none'
    m.update(kw)
    return m


# =================================================================================================
class C01Monitor(Monitor):
    """Solute conservation between matrix and precipitates, recomputed independently from the
    distribution exactly as the mass balance saw it."""
    TOL = 1e-10

    def on_build(self, run, model):
        self.F_nodiff = None      # own integration of the precipitate content for 'no diffusion' phases
        self.x0 = np.atleast_1d(np.array(run.cfg['x0'], dtype=float))
        self.peak_fv = 0.0

    def on_step(self, run, model, c):
        R = run.R
        if c.get('X_mb') is None:
            R.observe('c01_no_massbalance_capture')
            return
        nph = len(model.phases)
        nel = len(self.x0)
        sizes = [len(s) for s in c['size']]
        Xs = split_flat(c['X_mb'], sizes)
        n = c['n']
        pd = model.pData
        F = np.zeros((nph, nel))
        if self.F_nodiff is None:
            self.F_nodiff = np.array(pd.fconc[c['n_prev']], copy=True)
        skip = False
        minDens = model.constraints.minNucleateDensity
        for p in range(nph):
            pp = model.precipitateParameters[p]
            kap, src = kappa_for(model, p)
            coef = model.matrixParameters.volume.Vm / pp.volume.Vm * kap
            N = Xs[p]
            # class radii of the oracle are the mid-points of the class boundaries (independent of the model's cached centres;
            # seeded change C02-d shifted PSDsize of appended classes and an oracle reading PSDsize saw nothing)
            Rc = 0.5 * (c['bounds'][p][1:] + c['bounds'][p][:-1])
            if float(np.sum(N)) < minDens:
                F[p] = 0.0
                self.F_nodiff[p] = 0.0
                continue
            xb = c['xbeta'][p]
            if xb is None or len(xb) != len(Rc) + 1:
                R.observe('c01_no_composition_table')
                skip = True
                continue
            xmid = 0.5 * (xb[:-1] + xb[1:])
            if pp.infinitePrecipitateDiffusion:
                for e in range(nel):
                    F[p, e] = coef * np.sum(N * Rc ** 3 * xmid[:, e])
            else:
                prev = c['psd_prev'][p]
                for e in range(nel):
                    self.F_nodiff[p, e] = self.F_nodiff[p, e] + coef * np.sum((Rc ** 3 * (N - prev)) * xmid[:, e])
                F[p] = self.F_nodiff[p]
            # recorded precipitate content = recomputed one
            scale = max(np.max(np.abs(self.x0)), 1e-300)
            err = float(np.max(np.abs(pd.fconc[n, p] - F[p])))
            R.worst('c01_fconc_residual', err / scale)
            R.check('c01.fconc', err <= self.TOL * scale, _mech(run, model, p, kappa=src),
                    step=c['step'], n=n, phase=str(model.phases[p]), recorded=pd.fconc[n, p], recomputed=F[p])
        if skip:
            return
        fv = pd.volFrac[n]
        sfv = float(np.sum(fv))
        self.peak_fv = max(self.peak_fv, sfv)
        if sfv >= 1:
            R.observe('c01_total_fraction_ge_1')
            return
        scale = max(np.max(np.abs(self.x0)), 1e-300)
        tot = np.sum(F, axis=0)
        unclamped = (self.x0 - tot) / (1.0 - sfv)
        for e in range(nel):
            if unclamped[e] < 0:
                R.observe('c01_clamped')
                R.check('c01.clamp', pd.composition[n, e] == model.constraints.minComposition,
                        _mech(run, model), step=c['step'], recorded=pd.composition[n, e], unclamped=unclamped[e])
                continue
            res = float(self.x0[e] - ((1.0 - sfv) * pd.composition[n, e] + tot[e]))
            R.worst('c01_conservation_residual', abs(res) / scale)
            R.check('c01.conservation', abs(res) <= self.TOL * scale,
                    _mech(run, model, None, segment_gt0=c['segment'] > 0, nphases=nph),
                    step=c['step'], n=n, element=e, residual=res, x0=self.x0[e], matrix=pd.composition[n, e],
                    fv=fv, precipitate_content=tot[e], time=pd.time[n])


# =================================================================================================
class C02Monitor(Monitor):
    """Reported statistics are moments of the distribution; removal only as documented; number density
    changes only by nucleation and by loss through the end faces."""
    REL = 1e-12

    def on_build(self, run, model):
        self.remesh_events = 0
        self.extend_events = 0

    def on_step(self, run, model, c):
        R = run.R
        if c.get('X_mb') is None:
            R.observe('c02_no_massbalance_capture')
            return
        nph = len(model.phases)
        sizes = [len(s) for s in c['size']]
        Xs = split_flat(c['X_mb'], sizes)
        Xraw = split_flat(c['X_raw'], sizes)
        n = c['n']
        pd = model.pData
        minDens = model.constraints.minNucleateDensity
        minR = model.constraints.minRadius
        it = run.cfg.get('iterator', 'euler')
        for p in range(nph):
            pp = model.precipitateParameters[p]
            N = Xs[p]
            # class radii of the oracle are the mid-points of the class boundaries (independent of the model's cached centres;
            # seeded change C02-d shifted PSDsize of appended classes and an oracle reading PSDsize saw nothing)
            Rc = 0.5 * (c['bounds'][p][1:] + c['bounds'][p][:-1])
            kap, src = kappa_for(model, p)
            coef = model.matrixParameters.volume.Vm / pp.volume.Vm * kap
            # ---- (a) moments
            N0 = float(np.sum(N))
            ok = abs(pd.precipitateDensity[n, p] - N0) <= self.REL * max(abs(N0), 1e-300)
            R.check('c02.density', ok, _mech(run, model, p), step=c['step'], recorded=pd.precipitateDensity[n, p], moment=N0)
            if N0 < minDens:
                R.check('c02.empty', pd.Ravg[n, p] == 0 and pd.volFrac[n, p] == 0, _mech(run, model, p),
                        step=c['step'], Ravg=pd.Ravg[n, p], fv=pd.volFrac[n, p])
            else:
                Rav = float(np.sum(N * Rc) / N0)
                R.check('c02.Ravg', abs(pd.Ravg[n, p] - Rav) <= 1e-11 * abs(Rav), _mech(run, model, p),
                        step=c['step'], recorded=pd.Ravg[n, p], moment=Rav)
                fvm = min(coef * float(np.sum(N * Rc ** 3)), 1.0)
                if pd.volFrac[c['n_prev'], p] == 1:
                    fvm = 1.0
                R.worst('c02_fv_rel', abs(pd.volFrac[n, p] - fvm) / max(fvm, 1e-300))
                R.check('c02.volFrac', abs(pd.volFrac[n, p] - fvm) <= 1e-11 * max(fvm, 1e-300), _mech(run, model, p, kappa=src),
                        step=c['step'], recorded=pd.volFrac[n, p], moment=fvm)
            # ---- (b) documented removal
            evs = c['grid_events'][p]
            ops = [e['op'] for e in evs]
            rdf = int(c['rdf_index'][p])
            if 'reset' in ops and 'changeSizeClasses' not in ops:
                R.observe('c02_phase_reset')
            elif not evs:
                post = c['psd_post'][p]
                if len(post) == len(N):
                    same = post == N
                    zero = post == 0
                    okz = same | zero
                    # classes whose centre lies below the minimum radius are NOT in this list: the reported statistics are
                    # computed from a distribution in which they are already empty, so a class that is populated in the
                    # statistics and emptied afterwards is a difference between the statistics and the distribution
                    # (seeded change C02-e: the two sites disagreed about the class that straddles the minimum radius)
                    allowed = (N < 1) | (np.arange(len(N)) <= max(rdf, int(model.RdrivingForceIndex[p])))
                    bad = (~okz) | (zero & ~same & ~allowed)
                    R.check('c02.removal', not bool(np.any(bad)), _mech(run, model, p, grid='unchanged'), step=c['step'],
                            bad_classes=np.nonzero(bad)[0], before=N[bad], after=post[bad])
            else:
                base = np.where(N < 1, 0.0, N)      # after the documented 1-particle truncation
                cur = base
                cur_bounds = c['bounds'][p]
                okchain = True
                for e in evs:
                    if e['op'] == 'reset':
                        continue
                    if e['op'] == 'addSizeClasses':
                        self.extend_events += 1
                        R.observe('c02_extend')
                        b, a = e['before'], e['after']
                        k = len(b['PSD'])
                        good = (len(a['PSD']) > k and np.array_equal(a['PSD'][:k], b['PSD']) and not np.any(a['PSD'][k:])
                                and np.allclose(a['bounds'][:k + 1], b['bounds'], rtol=1e-12, atol=0))
                        R.check('c02.extend_prefix', good, _mech(run, model, p, grid='extended'), step=c['step'],
                                old_bins=k, new_bins=len(a['PSD']))
                    elif e['op'] == 'changeSizeClasses':
                        self.remesh_events += 1
                        R.observe('c02_remesh')
                        b, a = e['before'], e['after']
                        cb = 0.5 * (b['bounds'][1:] + b['bounds'][:-1])
                        ca = 0.5 * (a['bounds'][1:] + a['bounds'][:-1])
                        m3b = float(np.sum(b['PSD'] * cb ** 3))
                        m3a = float(np.sum(a['PSD'] * ca ** 3))
                        populated = b['PSD'] > 0
                        covers = (not np.any(populated)) or (a['bounds'][0] <= b['bounds'][:-1][populated].min() and
                                                               a['bounds'][-1] >= b['bounds'][1:][populated].max())
                        if covers and m3b > 0:
                            R.worst('c02_remesh_m3_rel', abs(m3a - m3b) / m3b)
                            R.check('c02.remesh_m3', abs(m3a - m3b) <= 1e-9 * m3b, _mech(run, model, p, grid='remeshed'),
                                    step=c['step'], before=m3b, after=m3a, old_bins=len(b['PSD']), new_bins=len(a['PSD']))
                        else:
                            R.observe('c02_remesh_not_covering')
                # final user-visible distribution = last event's result up to documented zeroing
                last = [e for e in evs if e['op'] != 'reset']
                if last:
                    a = last[-1]['after']
                    post = c['psd_post'][p]
                    if len(post) == len(a['PSD']):
                        ca = 0.5 * (a['bounds'][1:] + a['bounds'][:-1])
                        same = post == a['PSD']
                        zero = post == 0
                        allowed = (ca < minR) | (np.arange(len(post)) <= int(model.RdrivingForceIndex[p]))
                        bad = (~(same | zero)) | (zero & ~same & ~allowed)
                        R.check('c02.removal', not bool(np.any(bad)), _mech(run, model, p, grid='changed'), step=c['step'],
                                bad_classes=np.nonzero(bad)[0])
            # ---- (c) transport bound on the un-truncated integrator output
            prev = c['psd_prev'][p]
            raw = Xraw[p]
            if it == 'euler':
                J = float(pd.nucRate[c['n_prev'], p])
            else:
                J = None if c['J_last_stage'] is None else float(c['J_last_stage'][p])
            if J is None:
                R.observe('c02_no_J')
                continue
            dt = c['dt']
            # classes subject to the documented removal (centre below the minimum radius, at/below the stability index) are
            # emptied right after the integrator returns; what the integrator wrote there (possibly inf*0 = NaN where the
            # growth law is singular) is not part of the distribution. Particles can reach them only from the first
            # surviving class, so that class bounds the loss "through the smallest size class".
            removable = (Rc < minR) | (np.arange(len(raw)) <= rdf)
            if np.any(~np.isfinite(raw[removable])):
                R.observe('c02_nonfinite_in_removed_classes')
            raw = np.where(removable, 0.0, raw)
            first = int(np.argmax(~removable)) if np.any(~removable) else 0
            S0 = float(np.sum(prev))
            S1 = float(np.sum(raw))
            tol = 1e-9 * max(S0, S1, 1.0)
            upper = J * dt * (1 + 1e-9) + tol
            lower = -(float(prev[first]) + float(prev[0]) + float(prev[-1])) - tol
            d = S1 - S0
            R.check('c02.transport', lower <= d <= upper,
                    _mech(run, model, p, J_zero=(J == 0), side='increase' if d > upper else 'decrease'),
                    step=c['step'], change=d, J=J, dt=dt, upper=upper, lower=lower)
            if np.any(raw < 0):
                R.observe('c02_negative_transient_class')
            else:
                # reported density against the user-visible distribution of the previous step
                d2 = float(pd.precipitateDensity[n, p]) - S0
                R.check('c02.density_step', d2 <= upper, _mech(run, model, p, J_zero=(J == 0)),
                        step=c['step'], change=d2, J=J, dt=dt)


# =================================================================================================
class C03Monitor(Monitor):
    """Well-formed runs: end time, monotone time, aligned finite histories, bounds."""

    def on_build(self, run, model):
        self.n_at_solve_start = 0
        self.steps_in_segment = 0
        self.last_checked_n = -1

    def _well_formed(self, run, model, where, seg):
        R = run.R
        pd = model.pData
        mech = _mech(run, model, None, where=where)
        L = len(pd.time)
        lens = {k: len(getattr(pd, k)) for k in precip.HISTORIES}
        R.check('c03.aligned', all(v == L for v in lens.values()) and pd.n == L - 1, mech, lengths=lens, n=pd.n)
        t = pd.time
        R.check('c03.time_increasing', bool(np.all(np.diff(t) > 0)), mech,
                first_bad=int(np.argmax(np.diff(t) <= 0)) if L > 1 else None)
        for k in precip.HISTORIES:
            a = np.asarray(getattr(pd, k), dtype=float)
            fin = np.isfinite(a)
            if not R.check('c03.finite', bool(np.all(fin)), dict(mech, history=k, shape=_shape_kind(run, model)),
                           first_bad_step=int(np.argwhere(~fin)[0][0]) if not np.all(fin) else None):
                break
        fv = np.asarray(pd.volFrac, dtype=float)
        R.check('c03.fraction_bounds', bool(np.all((fv >= 0) & (fv <= 1)) and np.all(np.sum(fv, axis=1) <= 1 + 1e-12)),
                dict(mech, nphases=len(model.phases)), max_total=float(np.nanmax(np.sum(fv, axis=1))), min=float(np.nanmin(fv)))
        comp = np.asarray(pd.composition, dtype=float)
        okc = bool(np.all((comp >= 0) & (comp <= 1)))
        cm = dict(mech)
        if not okc:
            # structural facts for the classifier: which bound, and whether every offending record is a state in which another
            # solute sits on the documented clamp (negative matrix composition -> minimum composition), i.e. the mass balance
            # had already left its domain
            above = comp > 1
            below = comp < 0
            cm['bound'] = 'above_one' if np.any(above) and not np.any(below) else ('below_zero' if np.any(below) and not np.any(above) else 'both')
            rows = np.any(above | below, axis=1)
            cm['other_solute_on_documented_clamp'] = bool(comp.shape[1] > 1 and np.all(np.any(comp[rows] == model.constraints.minComposition, axis=1)))
            cm['total_fraction_reached_one'] = bool(np.nanmax(np.sum(fv, axis=1)) >= 1 - 1e-12)
        R.check('c03.composition_bounds', okc, cm, min=float(np.nanmin(comp)), max=float(np.nanmax(comp)))
        for k in ('Ravg', 'Rcrit', 'Rnuc', 'precipitateDensity', 'nucRate'):
            a = np.asarray(getattr(pd, k), dtype=float)
            R.check('c03.nonnegative', bool(np.all(a >= 0)), dict(mech, history=k), min=float(np.nanmin(a)))
        for p, pbm in enumerate(model.PBM):
            R.check('c03.psd_nonnegative', bool(np.all(np.asarray(pbm.PSD) >= 0)) and bool(np.all(np.isfinite(pbm.PSD))),
                    dict(mech, site=site_name(model, p)), min=float(np.min(pbm.PSD)) if len(pbm.PSD) else None)

    def on_step(self, run, model, c):
        R = run.R
        pd = model.pData
        n = c['n']
        R.check('c03.step_aligned', len(pd.time) == n + 1 and n == c['n_prev'] + 1, _mech(run, model, None), n=n, n_prev=c['n_prev'])
        for p in range(len(model.phases)):
            post = c['psd_post'][p]
            R.check('c03.psd_step', bool(np.all(post >= 0)) and bool(np.all(np.isfinite(post))),
                    _mech(run, model, p), step=c['step'], min=float(np.min(post)) if len(post) else None)

    def on_exception(self, run, model, exc, seg):
        from vlib.core import kawin_frame
        fr = kawin_frame(exc.__traceback__)
        if isinstance(exc, ValueError) and run.steps == 0 and fr is not None and 'validate' in fr[1].lower():
            run.rejected = True
            run.R.observe('rejected_config')
            return
        run.R.exception('c03.internal_error', exc, _mech(run, model, None, shape=_shape_kind(run, model),
                                                         fault=bool(run.fault_active)),
                        step=run.steps, segment=seg)

    def on_solve_return(self, run, model, seg, t_before, duration, capped):
        R = run.R
        pd = model.pData
        if not capped:
            tf = t_before + duration
            R.check('c03.end_time', abs(pd.time[pd.n] - tf) <= 2 * np.spacing(tf), _mech(run, model, None),
                    end=pd.time[pd.n], requested=tf, segment=seg)
        self._well_formed(run, model, 'solve_return', seg)


def _shape_kind(run, model):
    try:
        return [type(pp.shapeFactor.description).__name__ for pp in model.precipitateParameters]
    except Exception:
        return None


# =================================================================================================
class C13Monitor(Monitor):
    """Recorded temperature = schedule(time); binary lookup table never staler than maxTempChange."""

    def on_build(self, run, model):
        self.sched = run.cfg['schedule']
        self.table_T = None
        self.seen_builds = 0

    def on_step(self, run, model, c):
        R = run.R
        pd = model.pData
        n = c['n']
        self.sched = getattr(run, 'active_schedule', self.sched)
        Texp = precip.schedule_eval(self.sched, float(pd.time[n]))
        R.check('c13.recorded_T', abs(pd.temperature[n] - Texp) <= 1e-9 * max(1.0, abs(Texp)),
                _mech(run, model, None, schedule=self.sched['kind'], via=run.temperature_via, stage_gt0=c['segment'] > 0 and bool(run.cfg.get('stage_schedules'))),
                step=c['step'], time=pd.time[n], recorded=pd.temperature[n], expected=Texp)
        if len(model.elements) == 1:
            # table staleness: temperature of the most recent full/partial table build
            for b in run.table_builds[self.seen_builds:]:
                if b['full']:
                    self.table_T = b['T']
                    R.observe('c13_table_builds')
                else:
                    R.observe('c13_partial_table_builds')
            self.seen_builds = len(run.table_builds)
            if self.table_T is not None:
                lim = model.constraints.maxTempChange
                dT = abs(pd.temperature[n] - self.table_T)
                R.worst('c13_table_staleness_over_limit', dT / lim)
                R.check('c13.table_fresh', dT <= lim * (1 + 1e-9),
                        _mech(run, model, None, schedule=self.sched['kind'], heating=bool(pd.temperature[n] >= self.table_T)),
                        step=c['step'], T=pd.temperature[n], table_T=self.table_T, limit=lim)


# =================================================================================================
class C12Monitor(Monitor):
    """Critical radius is where growth changes sign; in binary models the interfacial composition tabulated for a size class
    is the backend's answer for the Gibbs-Thomson energy of THAT phase at that radius."""
    DELTA = 1e-2
    TABLE_EVERY = 20

    def on_build(self, run, model):
        self._ref_therm = None

    def _table_values(self, run, model, c):
        # isothermal runs only (the table is then exact for the current temperature); three boundaries per phase: the first
        # stable one, the middle, the LAST (size classes appended by a grid extension are at the end)
        R = run.R
        if run.cfg['schedule']['kind'] != 'iso' or getattr(run, 'fault_active', False):
            return
        T = float(model.pData.temperature[c['n']])
        for p in range(len(model.phases)):
            pp = model.precipitateParameters[p]
            b = np.asarray(model.PBM[p].PSDbounds, dtype=float)
            xa = np.asarray(model.PSDXalpha[p], dtype=float)
            if xa.ndim != 2 or xa.shape[0] != len(b):
                R.observe('c12_table_grid_mismatch')
                continue
            first = int(model.RdrivingForceIndex[p]) + 1
            if first >= len(b) - 1:
                continue
            idx = sorted(set([first, (first + len(b) - 1) // 2, len(b) - 1]))
            g = np.array([float(np.squeeze(pp.computeGibbsThomsonContribution(np.array([b[i]])))) for i in idx])
            if getattr(self, '_ref_therm', None) is None:
                # an independent backend object (the run's own object is not queried, so the run is not perturbed)
                self._ref_therm = precip.make_therm(run.cfg['system'], run.cfg['phases'])
            ref, _ = self._ref_therm.getInterfacialComposition(T, np.array(g, copy=True), precPhase=pp.phase)
            ref = np.atleast_1d(np.asarray(ref, dtype=float))
            got = xa[idx, 0]
            ok = bool(np.all((ref != -1) == (got != -1)) and np.all(np.abs(got - ref) <= 1e-5 * np.abs(ref) + 1e-12))
            R.worst('c12_table_vs_backend_rel', float(np.max(np.abs(got - ref) / np.maximum(np.abs(ref), 1e-300))))
            R.check('c12.table_value', ok, _mech(run, model, p, phase_index=min(p, 1), appended_classes_seen=bool(run.R.observed.get('c12_grid_extended', 0) > 0)),
                    step=c['step'], radii=b[idx], table=got, backend=ref, g=g)

    def on_step(self, run, model, c):
        R = run.R
        pd = model.pData
        n = c['n']
        if len(model.elements) == 1:
            if any(e['op'] == 'addSizeClasses' for evs in c.get('grid_events', []) for e in evs):
                R.observe('c12_grid_extended')
                self._table_values(run, model, c)
            elif c['step'] % self.TABLE_EVERY == 1:
                self._table_values(run, model, c)
        for p in range(len(model.phases)):
            pp = model.precipitateParameters[p]
            dg = pd.drivingForce[n, p]
            rc = pd.Rcrit[n, p]
            if not (dg > 0 and rc > pp.Rmin * (1 + 1e-9)):
                R.observe('c12_state_skipped')
                continue
            g = np.asarray(model.growth[p], dtype=float)
            b = np.asarray(model.PBM[p].PSDbounds, dtype=float)
            if len(g) != len(b):
                R.observe('c12_growth_grid_mismatch')
                continue
            if not np.any(g):
                R.observe('c12_zero_growth')
                continue
            delta = self.DELTA
            if len(model.elements) == 1:
                delta += 2.0 / max(dg * pp.volume.Vm, 1e-300)    # documented 1 J/mol offset of the binary tie-line
            if delta > 0.1:
                R.observe('c12_state_skipped')
                continue
            big = b > rc * (1 + delta)
            small = b < rc * (1 - delta)
            # boundaries below the minimum radius bound only classes that the documented removal empties every step (the
            # binary growth law can be singular there: supersaturation > 1 gives an infinite 'growth rate'): not part of the claim
            keep = b >= model.constraints.minRadius
            R.observe('c12_boundaries_below_min_radius_excluded', int(np.sum(~keep)))
            big = big & keep
            small = small & keep
            if len(model.elements) == 1:
                # boundaries at/below the stability index carry the composition of the first stable boundary by
                # documented design (their classes are emptied every step): not part of the claim
                small = small & (np.arange(len(b)) > int(model.RdrivingForceIndex[p]))
                R.observe('c12_unstable_boundaries_excluded', int(model.RdrivingForceIndex[p]) + 1)
            bad_big = big & ~(g > 0)
            bad_small = small & ~(g < 0)
            extra = {}
            if len(model.elements) == 1 and np.any(bad_small) and not np.any(bad_big):
                # structural fact for the classifier: is the denominator of the binary growth law,
                # (Vm_alpha / Vm_beta) x_beta - x_alpha(R), non-positive at every offending boundary?
                try:
                    xa = np.asarray(model.PSDXalpha[p], dtype=float)[:, 0]
                    xb = np.asarray(model.PSDXbeta[p], dtype=float)[:, 0]
                    den = model.matrixParameters.volume.Vm * xb / pp.volume.Vm - xa
                    extra['growth_law_denominator'] = 'nonpositive' if bool(np.all(den[bad_small] <= 0)) else 'positive'
                except Exception:
                    extra['growth_law_denominator'] = 'unknown'
            R.check('c12.growth_sign', not (np.any(bad_big) or np.any(bad_small)),
                    _mech(run, model, p, shape=type(pp.shapeFactor.description).__name__,
                          side='above' if np.any(bad_big) else 'below', **extra),
                    step=c['step'], Rcrit=rc, dG=dg, bad_radii=b[bad_big | bad_small][:5], growth=g[bad_big | bad_small][:5])
            R.observe('c12_states')
            if np.any(big) and np.any(small):
                R.observe('c12_states_both_signs')
