"""Harness-written user programs for C05: GenericModel / Coupler subclasses with random nested state
layouts, scripted getDt proposals and stop schedules, plus the on-line part of the monitors (structure
signature on every callback, callbacks after a stop request, accepted-time recording).

Nothing in here re-implements the solver: the models are *inputs* to the real kawin.solver / GenericModel code.
"""
import numpy as np

from vlib.core import StopRun


# ------------------------------------------------------------------------------------------------
# layouts: spec = leaf | list of specs ; leaf = ('py',) | ('np',) | ('a0',) | ('arr', shape)

def spec_size(spec):
    if isinstance(spec, list):
        return sum(spec_size(s) for s in spec)
    if spec[0] == 'arr':
        return int(np.prod(spec[1])) if len(spec[1]) else 1
    return 1


def build(spec, flat, pos=0):
    """Nested structure described by spec, filled from flat[pos:]; returns (obj, new pos)."""
    if isinstance(spec, list):
        out = []
        for s in spec:
            o, pos = build(s, flat, pos)
            out.append(o)
        return out, pos
    k = spec[0]
    if k == 'py':
        return float(flat[pos]), pos + 1
    if k == 'np':
        return np.float64(flat[pos]), pos + 1
    if k == 'a0':
        return np.array(float(flat[pos])), pos + 1
    n = int(np.prod(spec[1]))
    return np.array(flat[pos:pos + n], dtype=float).reshape(spec[1]), pos + n


def spec_sig(spec):
    if isinstance(spec, list):
        return ('L',) + tuple(spec_sig(s) for s in spec)
    if spec[0] == 'arr':
        return ('A', tuple(int(v) for v in spec[1]))
    return 'S'


def sig(x):
    """Structure signature: nesting, scalar-ness, array shapes (python/numpy scalars and 0-d arrays are all
    'S': the library documents that scalars come back as elements of the flat array)."""
    if isinstance(x, list):
        return ('L',) + tuple(sig(e) for e in x)
    if isinstance(x, np.ndarray):
        return 'S' if x.ndim == 0 else ('A', tuple(x.shape))
    if isinstance(x, (float, np.floating, int, np.integer)):
        return 'S'
    if isinstance(x, tuple):
        return ('T',) + tuple(sig(e) for e in x)
    return ('?', type(x).__name__)


def hflat(x):
    """Harness flatten (depth first), independent of the library."""
    if isinstance(x, (list, tuple)):
        if not x:
            return np.zeros(0)
        return np.concatenate([hflat(e) for e in x])
    return np.ravel(np.asarray(x, dtype=float))


def hunflat(flat, ref, pos=0):
    if isinstance(ref, list):
        out = []
        for r in ref:
            o, pos = hunflat(flat, r, pos)
            out.append(o)
        return out, pos
    a = np.asarray(ref)
    if a.ndim == 0:
        return flat[pos], pos + 1
    n = a.size
    return np.reshape(flat[pos:pos + n], a.shape), pos + n


def random_layout(rng, mode, allow_empty=True):
    """mode 'default': flat list of scalars / 1-D arrays (library flatten+unflatten);
    'nd': flat list incl. 2-D/3-D arrays (flatten overridden, library unflatten);
    'nested': nested lists (both overridden)."""
    def leaf():
        r = rng.random()
        if r < 0.15:
            return ('py',)
        if r < 0.30:
            return ('np',)
        if r < 0.38:
            return ('a0',)
        if allow_empty and r < 0.44:
            return ('arr', (0,)) if mode == 'default' or rng.random() < 0.5 else ('arr', (int(rng.integers(1, 3)), 0))
        if mode != 'default' and r < 0.72:
            nd = int(rng.integers(2, 4))
            return ('arr', tuple(int(v) for v in rng.integers(1, 4, nd)))
        return ('arr', (int(rng.integers(1, 7)),))

    def node(depth):
        n = int(rng.integers(1, 5))
        out = []
        for _ in range(n):
            if mode == 'nested' and depth < 3 and rng.random() < 0.35:
                out.append(node(depth + 1))
            else:
                out.append(leaf())
        return out
    for _ in range(20):
        spec = node(0)
        if spec_size(spec) > 0 or rng.random() < 0.03:
            return spec
    return [('arr', (2,))]


def spec_json(spec):
    if isinstance(spec, list):
        return [spec_json(s) for s in spec]
    return list(spec[:1]) + ([list(spec[1])] if spec[0] == 'arr' else [])


# ------------------------------------------------------------------------------------------------
# shared run monitor (one per solve() call sequence of one top-level model)

class RunLog:
    POST_STOP_ABORT = 6

    def __init__(self):
        self.times = []            # accepted times of the current segment (first entry = t0)
        self.stop_requested = False
        self.post_stop = 0         # callbacks seen after a stop request
        self.post_stop_kinds = []
        self.sig_evals = 0
        self.sig_bad = []          # first few mismatches
        self.callbacks = {}
        self.step = 0              # accepted steps in the current segment
        self.budget = 10 ** 9
        self.budget_hit = False
        self.stalled = None        # (t_prev, t_new) if an accepted time did not increase
        self.proposals = []        # per step: list of raw proposals (one per sub-model)
        self._cur_props = []
        self.aborted = False
        self.in_coupled_post = False

    def begin_segment(self, t0, budget):
        self.times = [t0]
        self.stop_requested = False
        self.post_stop = 0
        self.post_stop_kinds = []
        self.step = 0
        self.budget = budget
        self.budget_hit = False
        self.stalled = None
        self.proposals = []
        self._cur_props = []
        self.aborted = False

    def cb(self, model, kind, *objs):
        self.callbacks[kind] = self.callbacks.get(kind, 0) + 1
        if self.stop_requested and not (kind == 'postProcess' and self.in_coupled_post):
            self.post_stop += 1
            if len(self.post_stop_kinds) < 6:
                self.post_stop_kinds.append(kind)
            if self.post_stop >= self.POST_STOP_ABORT:
                self.aborted = True
                raise StopRun('callbacks continue after stop')
        exp = model.esig
        for o in objs:
            self.sig_evals += 1
            s = sig(o)
            if s != exp and len(self.sig_bad) < 3:
                self.sig_bad.append({'model': model.name, 'callback': kind, 'mode': model.mode, 'expected': repr(exp),
                                     'observed': repr(s), 'step': self.step})
            elif s != exp:
                self.sig_bad.append(None)

    def accepted(self, model, time):
        """Called from postProcess of the clock-carrying model (single model or sub-model 0)."""
        time = float(time)
        prev = self.times[-1]
        self.times.append(time)
        self.step += 1
        self.proposals.append(self._cur_props)
        self._cur_props = []
        if not (time > prev) and self.stalled is None:
            self.stalled = (prev, time)


def make_classes():
    from kawin.GenericModel import GenericModel, Coupler

    class ScriptModel(GenericModel):
        def __init__(self, name, log, cfg, t0, clock=True):
            super().__init__()
            self.name = name
            self.log = log
            self.mode = cfg['mode']
            self.deriv = cfg['deriv']
            self.clock = clock
            self.script = cfg['script']          # list of proposals, cycled
            self.stop_at = None                  # accepted step index (1-based, per segment) or None; set per segment
            self.relayout = cfg.get('relayout')  # None or {'at': k, 'spec':..., 'x': flat, 'c': flat}
            self.t = t0
            self._install(cfg['spec'], np.array(cfg['x0'], dtype=float), np.array(cfg['c'], dtype=float), t0)
            self.ncall = 0
            self.post_times = []

        def _install(self, spec, xflat, cflat, t):
            self.spec = spec
            self.esig = spec_sig(spec)
            self.c = cflat
            self.x, _ = build(spec, xflat)
            self.ref_t = t
            self.ref_x = xflat.copy()
            self.ref_steps = 0

        # ---- required interface
        def getCurrentX(self):
            return self.t, self.x

        def getdXdt(self, t, x):
            self.log.cb(self, 'getdXdt', x)
            if self.deriv == 'const':
                d, _ = build(self.spec, self.c)
            else:
                d, _ = build(self.spec, -self.c * hflat(x))
            return d

        def getDt(self, dXdt):
            self.log.cb(self, 'getDt', dXdt)
            p = self.script[self.ncall % len(self.script)]
            self.ncall += 1
            self.log._cur_props.append(p)
            return p

        def correctdXdt(self, dt, x, dXdt):
            self.log.cb(self, 'correctdXdt', x, dXdt)

        def preProcess(self):
            self.log.cb(self, 'preProcess')

        def postProcess(self, time, x):
            log = self.log
            log.cb(self, 'postProcess', x)
            if self.clock:
                log.accepted(self, time)
            self.post_times.append(float(time))
            self.t = time
            self.x, _ = build(self.spec, hflat(x))
            self.ref_steps += 1
            stop = False
            if self.stop_at is not None and log.step >= self.stop_at:
                stop = True
            if self.clock:
                if log.stalled is not None:
                    stop = True
                if log.step >= log.budget:
                    log.budget_hit = True
                    stop = True
            out = x
            if self.relayout is not None and self.ref_steps == self.relayout['at'] and not stop:
                rl = self.relayout
                self.relayout = None
                self.pre_relayout = (self.spec, self.c, self.ref_t, self.ref_x, self.ref_steps, float(time), hflat(x).copy())
                self._install(rl['spec'], np.array(rl['x'], dtype=float), np.array(rl['c'], dtype=float), float(time))
                out = self.x
                self.x, _ = build(self.spec, self.ref_x)
            if stop:
                log.stop_requested = True
            return out, stop

        # ---- flatten overrides by mode
        def flattenX(self, X):
            if self.mode == 'default':
                return super().flattenX(X)
            if self.mode == 'nd':
                return np.concatenate([np.ravel(np.asarray(e, dtype=float)) for e in X])
            return hflat(X)

        def unflattenX(self, X_flat, X_ref):
            if self.mode in ('default', 'nd'):
                return super().unflattenX(X_flat, X_ref)
            return hunflat(X_flat, X_ref)[0]

        def printHeader(self):
            self.log.callbacks['printHeader'] = self.log.callbacks.get('printHeader', 0) + 1

        def printStatus(self, iteration, modelTime, simTimeElapsed):
            self.log.callbacks['printStatus'] = self.log.callbacks.get('printStatus', 0) + 1

    class ScriptCoupler(Coupler):
        def __init__(self, models, log, t0):
            super().__init__(models)
            self.log = log
            self.name = 'coupler'
            self.mode = 'coupler'
            self.esig = None
            if t0 != 0.0:
                self.time = np.array([t0])

        def _cb(self, kind):
            log = self.log
            log.callbacks[kind] = log.callbacks.get(kind, 0) + 1
            if log.stop_requested:
                log.post_stop += 1
                if len(log.post_stop_kinds) < 6:
                    log.post_stop_kinds.append(kind)
                if log.post_stop >= log.POST_STOP_ABORT:
                    log.aborted = True
                    raise StopRun('callbacks continue after stop')

        def coupledXdt(self, t, x, dXdt):
            self._cb('coupledXdt')

        def couplePreProcess(self):
            self._cb('couplePreProcess')

        def couplePostProcess(self):
            # same step as the stop request: not a callback "after" it
            self.log.callbacks['couplePostProcess'] = self.log.callbacks.get('couplePostProcess', 0) + 1

        def postProcess(self, time, x):
            # sub-models of the same step all see postProcess even if an earlier one asked to stop
            self.log.in_coupled_post = True
            try:
                return super().postProcess(time, x)
            finally:
                self.log.in_coupled_post = False

        def printHeader(self):
            pass

        def printStatus(self, iteration, modelTime, simTimeElapsed):
            pass

    return ScriptModel, ScriptCoupler
