"""Shared harness for the kawin runtime monitors.

A check module (checks/cNN.py) provides

    PROPERTY, LEVEL, RULE           identification / evidence text
    REQUIRED_MONITORS               monitor ids that must have been evaluated (>0) for a 'held'
    REACH                           [(file suffix, qualname)] kawin functions that must have been
                                    entered (sys.monitoring reach counters), else inconclusive
    MIN_NONTRIVIAL = {tier: n}      fewer distinct non-trivial cases => inconclusive
    CASE_TIMEOUT                    wall-clock watchdog per case (seconds); firing => inconclusive
    plan(tier, seed) -> [case]      cheap, JSON-serialisable case descriptions
    run_case(case, R)               runs the real code, feeds the monitors through R (CaseResult)

Verdicts are three-valued: exit 0 held, exit 1 violated (VIOLATION line), exit 2 inconclusive.
"""
import hashlib
import json
import os
import sys
import time
import traceback

import numpy as np

VERIF = os.path.dirname(os.path.dirname(os.path.abspath(__file__)))
REPO = os.environ.get('KAWIN_VERIF_REPO', '/repo')

MAX_VIOL_PER_MONITOR = 3


def jsonable(o, depth=0):
    """Best-effort conversion to JSON types (arrays truncated)."""
    if depth > 6:
        return str(o)
    if o is None or isinstance(o, (bool, str)):
        return o
    if isinstance(o, np.bool_):
        return bool(o)
    if isinstance(o, (int, np.integer)):
        return int(o)
    if isinstance(o, (float, np.floating)):
        f = float(o)
        if f != f or f in (float('inf'), float('-inf')):
            return repr(f)
        return f
    if isinstance(o, complex):
        return repr(o)
    if isinstance(o, np.ndarray):
        if o.size > 24:
            return {'shape': list(o.shape), 'head': jsonable(o.ravel()[:12].tolist(), depth + 1),
                    'min': jsonable(np.nanmin(o)) if o.size and o.dtype.kind in 'fiu' else None,
                    'max': jsonable(np.nanmax(o)) if o.size and o.dtype.kind in 'fiu' else None}
        return jsonable(o.tolist(), depth + 1)
    if isinstance(o, dict):
        return {str(k): jsonable(v, depth + 1) for k, v in o.items()}
    if isinstance(o, (list, tuple, set)):
        l = list(o)
        if len(l) > 40:
            return [jsonable(v, depth + 1) for v in l[:40]] + ['... %d more' % (len(l) - 40)]
        return [jsonable(v, depth + 1) for v in l]
    return repr(o)


def case_rng(seed, prop, idx, extra=0):
    ss = np.random.SeedSequence([int(seed) & 0xFFFFFFFF, int(prop[1:]), int(idx), int(extra)])
    return np.random.default_rng(ss)


def case_hash(obj):
    return hashlib.sha1(json.dumps(jsonable(obj), sort_keys=True).encode()).hexdigest()[:12]


def kawin_frame(tb):
    """Innermost traceback frame that lies in the repository's kawin package -> (relfile, func)."""
    found = None
    for fs in traceback.extract_tb(tb):
        fn = fs.filename.replace('\\', '/')
        if '/kawin/' in fn and '/verif/' not in fn:
            found = (fn.split('/kawin/', 1)[1], fs.name, fs.lineno)
    return found


def innermost_is_harness(tb):
    fr = traceback.extract_tb(tb)
    if not fr:
        return True
    fn = fr[-1].filename
    return fn.startswith(VERIF)


class CaseResult:
    def __init__(self, case):
        self.case = case
        self.monitors = {}
        self.violations = []
        self._vcount = {}
        self.observed = {}
        self.worst_ = {}
        self.nontrivial = False
        self.key = None
        self.extra_keys = []
        self.inconclusive = None
        self.info = {}

    # --- monitors -------------------------------------------------------------------------------
    def check(self, monitor, ok, mech=None, **detail):
        """Record one evaluation of `monitor`; a false `ok` is a violation.
        mech: structural facts that identify the failing mechanism (used by the known-findings
        classifier); detail: observed/expected values for the replay file."""
        self.monitors[monitor] = self.monitors.get(monitor, 0) + 1
        if ok:
            return True
        vk = (monitor, json.dumps(jsonable(mech or {}), sort_keys=True))
        n = self._vcount.get(vk, 0) + 1
        self._vcount[vk] = n
        tot = self._vcount.get(monitor, 0) + 1
        self._vcount[monitor] = tot
        if n <= MAX_VIOL_PER_MONITOR and tot <= 40:
            self.violations.append({'monitor': monitor, 'mech': jsonable(mech or {}),
                                    'detail': jsonable(detail)})
        return False

    def count(self, monitor, n=1):
        """n evaluations of a monitor that all held (bulk form)."""
        self.monitors[monitor] = self.monitors.get(monitor, 0) + int(n)

    def exception(self, monitor, exc, mech=None, **detail):
        """Exception escaping from kawin code while the input was admissible."""
        fr = kawin_frame(exc.__traceback__)
        m = dict(mech or {})
        m['exc'] = type(exc).__name__
        m['func'] = fr[1] if fr else None
        m['file'] = fr[0] if fr else None
        detail = dict(detail)
        detail['message'] = str(exc)[:300]
        detail['line'] = fr[2] if fr else None
        detail['trace'] = traceback.format_exception(type(exc), exc, exc.__traceback__)[-6:]
        return self.check(monitor, False, m, **detail)

    def observe(self, name, n=1):
        self.observed[name] = self.observed.get(name, 0) + n

    def worst(self, name, value):
        try:
            v = float(value)
        except Exception:
            return
        if v != v:
            return
        if name not in self.worst_ or v > self.worst_[name]:
            self.worst_[name] = v

    def set_nontrivial(self, flag, key=None):
        self.nontrivial = bool(flag)
        self.key = key

    def add_nontrivial(self, key):
        """A case that bundles several independent sub-cases reports each non-trivial one by its own key."""
        self.extra_keys.append(str(key))

    def to_json(self):
        return {'idx': self.case.get('idx'), 'monitors': self.monitors, 'violations': self.violations,
                'observed': jsonable(self.observed), 'worst': jsonable(self.worst_),
                'nontrivial': self.nontrivial,
                'key': self.key if self.key is not None else case_hash({k: v for k, v in self.case.items() if k != 'idx'}),
                'extra_keys': self.extra_keys, 'inconclusive': self.inconclusive, 'info': jsonable(self.info)}


class StopRun(Exception):
    """Raised by harness observers to end a run at a logical step cap."""


# ------------------------------------------------------------------------------------------------
# known findings

def load_known_findings():
    p = os.path.join(VERIF, 'known_findings.json')
    if not os.path.exists(p):
        return []
    with open(p) as f:
        return json.load(f).get('findings', [])


def match_finding(prop, viol, findings):
    for kf in findings:
        if kf.get('status') != 'open' or kf.get('property') != prop:
            continue
        mons = kf.get('monitor')
        mons = mons if isinstance(mons, list) else [mons]
        if viol['monitor'] not in mons:
            continue
        ok = True
        for k, want in (kf.get('match') or {}).items():
            have = viol['mech'].get(k)
            if isinstance(want, list):
                if have not in want:
                    ok = False
                    break
            elif have != want:
                ok = False
                break
        if ok:
            return kf
    return None
