"""C07 - size-class transport is conservative and bounded.

Observed code: PopulationBalanceModel.getdXdtEuler / correctdXdtEuler / getDTEuler / getDissolutionIndex of
/repo/kawin, called (1) directly on freshly built public objects with random admissible inputs and (2) as
GrainGrowthModel.solve() calls them (the four bound methods of the model's `pbm` instance are wrapped on the
instance; the wrapped originals run unchanged).  The oracle is an independent face-by-face scalar reference in
plain Python loops (`_ref_*` below); nothing of kawin is copied into it.

Notation: n classes, boundaries b_0..b_n, populations N_0..N_{n-1} >= 0, growth rate G_j at boundary (face) j,
face flux Phi_j (number per time, positive = towards larger radii).  Reference (the statement's own words: growth
moves particles only to the adjacent larger class, dissolution only to the adjacent smaller one):
    G_j > 0: Phi_j = G_j N_{j-1} / (b_j - b_{j-1})   (j >= 1; nothing enters through face 0)
    G_j < 0: Phi_j = G_j N_j / (b_{j+1} - b_j)       (j <= n-1; nothing enters through face n)
    dN_i/dt = Phi_i - Phi_{i+1} + J [i == k],  k = class with b_k <= Rn < b_{k+1}.

Monitors (`gg_` prefix = same oracle on the calls made by GrainGrowthModel):
 (a) ref_dxdt     returned dN/dt of getdXdtEuler equals the reference, per class |res_i| <= 1e-12 (|Phi_i|+|Phi_{i+1}|+J)
     ref_flux     the anchored state `_netFlux` after getdXdtEuler equals the reference face fluxes (same tolerance)
     ref_correct  returned dN/dt of correctdXdtEuler equals the reference with every face flux limited to
                  N_donor/dt (own loop), same tolerance
 (b) total        fsum(dN/dt) = J + Phi_0 - Phi_n (reference end fluxes), |res| <= 1e-12 (2 sum|Phi_j| + J)
     end_signs    observed `_netFlux[0] <= 0 <= _netFlux[n]` after getdXdtEuler and after correctdXdtEuler
 (c) nuc_local    metamorphic, two calls differing only in J: f(J,Rn) - f(0,Rn) is J in the class containing Rn and
                  zero elsewhere (|diff_k - J| <= 1e-12 (|f0_k| + J); other classes exactly at rounding level of
                  their own fluxes)
     nuc_total    fsum(f(J,Rn) - f(0,Rn)) = J for every Rn, also outside the grid
     nuc_same_class   getdXdtEuler and correctdXdtEuler (each reduced by its reference transport part) leave J in
                  exactly one class, the same for both, for every Rn
     nuc_above_last   for Rn >= b_n that class is the last one
     correct_noop_equal  when no reference face flux exceeds its donor, the corrected rate equals the uncorrected one
     nuc_extends_grid Rn >= b_n, >= 10 nuclei per step: every step of the explicit update sequence extends the grid
 (d) face_bound   after correctdXdtEuler(dt, ...): for every face of the observed `_netFlux`,
                  |Phi_j| dt <= N_donor (1 + 1e-12), donor = class the flux leaves (sign of Phi_j)
                  (all flux tolerances carry an absolute allowance of 1e-300 /s: populations in the subnormal range,
                  e.g. log-normal tails of 1e-314, lose relative accuracy by gradual underflow)
     nonneg       every class i with dt max(|G_i|,|G_{i+1}|) <= ratio (b_{i+1}-b_i) (ratio = the model's own maxRatio,
                  only when ratio <= 0.5) keeps N_i + dt dN_i/dt >= -1e-12 N_i
 (e) dt_limit     getDTEuler returns ratio (b_1-b_0) / max|G_i| over the lower faces i >= dissolutionIndex of classes
                  with N_i > 0 (own loop; 1e-12 relative), and exactly the passed-in value when there is no such face
                  or the maximum is 0
 (f) diss_index   sum_{i<idx} N_i R_i^3 <= fraction * sum_i N_i R_i^3 (1 + 1e-12) for the returned index
     no_exception the four calls do not raise on admissible input

Decisions where the statement is silent (not asserted, only counted):
 * Rn below b_0: the statement names no containing class.  Only nuc_total / total are asserted and that
   getdXdtEuler and correctdXdtEuler agree on the receiving class (nuc_same_class); the class itself is recorded
   (observed: the last class, index -1 wrap-around).
 * Rn >= b_n (upper bound exactly, slightly above, 1.5x, 3x, 40x, random): no class contains it either, but nuclei
   must not enter a class that lies entirely below the nucleation radius while a higher class exists, and the
   documented grid extension (adjustSizeClassesEuler adds classes once the last class fills) relies on them
   entering the last class.  Decision of the coordinator after a seeded change was missed: the receiving class
   must be the last one, in both routines (nuc_local, ref_dxdt, ref_correct, nuc_above_last), and a short
   getdXdtEuler -> correctdXdtEuler -> UpdatePBMEuler -> adjustSizeClassesEuler sequence must extend the grid
   (nuc_extends_grid).
 * Rn exactly on an interior boundary b_k: which of the classes k-1, k "contains" it is a convention; either one
   is accepted (exactly one class must receive J).  Rn == b_0 belongs to class 0.
 * getDTEuler: the docstring says the passed-in step "will be returned if it's smaller" than the constraint; the
   code returns the constraint also when it is larger than the passed-in step.  The statement only says what the
   limit equals, so neither reading of the min() is asserted: a return value equal to the limit is accepted
   (event `dt_limit_above_passed_in` counts how often it exceeds the passed-in step) and so would be the
   passed-in step when that is the smaller one (event `dt_limit_returned_smaller_passed_in`, never seen).
 * getDissolutionIndex with minIndex > 0 returns max(index, minIndex) as documented; when the returned index
   equals minIndex and the bound (f) does not hold, that is the documented clamp (counted, excluded).
   Maximality of the index is not part of the statement (counted as `diss_index_not_maximal`).
 * nonneg uses the per-class reading of DESIGN C07(d) (both faces of the class obey the limit), not the run-wide
   limit, and only when the psd/growth handed to correctdXdtEuler are those of the preceding getdXdtEuler call
   (RK4's final update combines start-of-step populations with last-stage fluxes: counted as
   `correct_inconsistent_pair`, face_bound still asserted there).
 * step-limit ratios above 0.5 cannot guarantee non-negativity (a class may lose ratio*N through each face);
   nonneg is skipped for them (counted), dt_limit is still asserted.
 * inputs with negative populations (RK4 intermediate stages in the grain-growth path), non-finite growth rates
   (1/R law on a grid starting at 0) or dt <= 0 are outside the statement: counted as rejected.
"""
import math
import types

import numpy as np

from vlib import core

PROPERTY = 'C07'
LEVEL = 'exploration'
RULE = ('direct cases: a bundle of random inputs (grid 1-200 classes incl. cMin=0 and extended grids; distribution '
        'empty/single/sparse/log-normal/1e-3..1e25 range/sub-unit/uniform; growth field physical A(1/Rc-1/R)/R, '
        'alternating, with zeros, one-signed, all zero, linear sign change, spiky; J in {0, 1e-3..1e30}; Rn inside/'
        'on a boundary/b_0/b_n/below/above (slightly, 1.5x, 3x, 40x, random); dt = limit, limit*1e-6..1e6, 1e-6..1e6 s; ratio default/0.05-0.5/0.5/'
        '0.5-1) pushed through getDissolutionIndex, getDTEuler, getdXdtEuler(J=0), getdXdtEuler(J), correctdXdtEuler; '
        'grain-growth cases: GrainGrowthModel.solve (Euler and RK4, with/without Zener pinning) with the four PBM '
        'methods wrapped. An input is non-trivial when >= 2 classes are populated and the growth field changes sign '
        'or J > 0; a case is non-trivial when >= 25 % of its inputs (direct) / recorded getdXdtEuler calls (grain '
        'growth) are; distinct by (kind, block, seed).')
REQUIRED_MONITORS = ['ref_dxdt', 'ref_flux', 'ref_correct', 'total', 'end_signs', 'nuc_local', 'nuc_total',
                     'nuc_same_class', 'nuc_above_last', 'correct_noop_equal', 'nuc_extends_grid',
                     'face_bound', 'nonneg', 'dt_limit', 'diss_index',
                     'gg_ref_dxdt', 'gg_ref_correct', 'gg_total', 'gg_face_bound', 'gg_nonneg', 'gg_dt_limit',
                     'gg_diss_index']
REACH = ['precipitation/PopulationBalance.py:PopulationBalanceModel.getdXdtEuler',
         'precipitation/PopulationBalance.py:PopulationBalanceModel.correctdXdtEuler',
         'precipitation/PopulationBalance.py:PopulationBalanceModel.getDTEuler',
         'precipitation/PopulationBalance.py:PopulationBalanceModel.getDissolutionIndex',
         'precipitation/PopulationBalance.py:PopulationBalanceModel.adjustSizeClassesEuler',
         'precipitation/coupling/GrainGrowth.py:GrainGrowthModel.getdXdt',
         'precipitation/coupling/GrainGrowth.py:GrainGrowthModel.correctdXdt',
         'precipitation/coupling/GrainGrowth.py:GrainGrowthModel.getDt']
MIN_NONTRIVIAL = {'quick': 50, 'thorough': 500}
CASE_TIMEOUT = 600
MAX_INCONCLUSIVE_FRACTION = 0.0
ASSUMPTIONS = ['"for all inputs" is sampled; the evidence file lists how many inputs of each class were drawn',
               'the face fluxes after correction are observed through the anchored attribute _netFlux',
               'the reference is plain IEEE double arithmetic; tolerances are 1e-12 relative to the fluxes involved']

TOL = 1e-12
TINY = 1e-300        # absolute allowance (fluxes, 1/s) where gradual underflow destroys relative accuracy
SLACK_RATIO = 0.45      # up to this ratio the per-class "obeys the limit" test may carry a 1e-9 slack
SLACK = 1e-9

PLAN = {'quick': {'direct_cases': 160, 'inputs': 250, 'gg_cases': 48, 'gg_runs': 6},
        'thorough': {'direct_cases': 3000, 'inputs': 500, 'gg_cases': 800, 'gg_runs': 8}}


def plan(tier, seed):
    p = PLAN[tier]
    cases = []
    for i in range(p['direct_cases']):
        cases.append({'kind': 'direct', 'block': i, 'inputs': p['inputs'], 'weight': 1.0})
    for i in range(p['gg_cases']):
        cases.append({'kind': 'graingrowth', 'block': i, 'runs': p['gg_runs'], 'weight': 2.0})
    return cases


# =================================================================================================
# independent scalar reference (plain Python floats and loops)

def _ref_fluxes(b, G, N):
    n = len(N)
    phi = [0.0] * (n + 1)
    for j in range(n + 1):
        g = G[j]
        if g > 0.0:
            if j >= 1:
                phi[j] = g * N[j - 1] / (b[j] - b[j - 1])
        elif g < 0.0:
            if j <= n - 1:
                phi[j] = g * N[j] / (b[j + 1] - b[j])
    return phi


def _ref_limit(phi, N, dt):
    n = len(N)
    out = list(phi)
    for j in range(n + 1):
        f = out[j]
        if f > 0.0:
            cap = N[j - 1] / dt
            if f > cap:
                out[j] = cap
        elif f < 0.0:
            cap = N[j] / dt
            if -f > cap:
                out[j] = -cap
    return out


def _ref_class(b, Rn):
    for k in range(len(b) - 1):
        if b[k] <= Rn < b[k + 1]:
            return k
    return None


def _rn_allowed(b, Rn):
    k = _ref_class(b, Rn)
    if k is None:
        if Rn >= b[-1]:
            # at/above the upper end: the only class that does not lie entirely below a class nearer to Rn is the
            # last one (this is what lets adjustSizeClassesEuler extend the grid on nucleation)
            return 'above', (len(b) - 2,)
        return 'below', None
    if Rn == b[k] and k >= 1:
        return 'boundary', (k - 1, k)
    return 'inside', (k,)


def _ref_dtlimit(b, G, N, di, ratio, passed):
    m = None
    for i in range(max(di, 0), len(N)):
        if N[i] > 0.0:
            a = abs(G[i])
            if m is None or a > m:
                m = a
    if m is None or m == 0.0:
        return passed, False
    return ratio * (b[1] - b[0]) / m, True


# =================================================================================================
# monitors

def _mech(lab, func, **kw):
    m = {'func': func, 'path': lab['path'], 'growth': lab.get('growth'), 'dist': lab.get('dist')}
    if 'solver' in lab:
        m['solver'] = lab['solver']
    m.update(kw)
    return m


def _nuc_residual(res, tols, J, allowed):
    """res: per-class residual that should be J in exactly one class (one of `allowed`, any class when allowed is
    None) and 0 elsewhere; tols[i]: rounding allowance of class i for the value 0.
    Returns (ok_local or None, local decidable, ok_total, total decidable, receivers,
    |total residual| as a fraction of its tolerance)."""
    recv = [i for i in range(len(res)) if abs(res[i]) > tols[i]]
    tot = math.fsum(res)
    tsum = math.fsum(tols)
    ok_total = abs(tot - J) <= tsum + TOL * J
    dec_total = J > 100.0 * tsum
    if allowed is None:
        return None, False, ok_total, dec_total, recv, abs(tot - J) / (tsum + TOL * J)
    ok = False
    for a in allowed:
        if abs(res[a] - J) <= tols[a] + TOL * J and all(i == a for i in recv):
            ok = True
    dec_local = all(J > 100.0 * tols[a] for a in allowed)
    return ok, dec_local, ok_total, dec_total, recv, abs(tot - J) / (tsum + TOL * J)


def check_getdxdt(R, pfx, lab, b, G, N, J, Rn, out, nf):
    """(a), (b) for one getdXdtEuler call. out: returned array; nf: observed _netFlux or None."""
    n = len(N)
    func = 'getdXdtEuler'
    if out is None or np.ndim(out) != 1 or len(out) != n:
        R.check(pfx + 'ref_dxdt', False, _mech(lab, func, what='shape'), n=n, got=np.shape(out))
        return None
    o = [float(v) for v in out]
    phi = _ref_fluxes(b, G, N)
    rnkind, allowed = _rn_allowed(b, Rn)
    res = [o[i] - (phi[i] - phi[i + 1]) for i in range(n)]
    tols = [TOL * (abs(phi[i]) + abs(phi[i + 1])) + TINY for i in range(n)]
    sumabs = math.fsum(abs(p) for p in phi)
    jlab = 'pos' if J > 0 else 'zero'
    if J == 0.0:
        bad = [i for i in range(n) if not abs(res[i]) <= tols[i]]
        for i in range(n):
            s = abs(phi[i]) + abs(phi[i + 1])
            if s > 0:
                R.worst(pfx + 'ref_dxdt_rel', abs(res[i]) / s)
        R.check(pfx + 'ref_dxdt', not bad, _mech(lab, func, J=jlab, rn=rnkind),
                bounds=b, growth=G, psd=N, J=J, Rn=Rn, returned=o, reference=[phi[i] - phi[i + 1] for i in range(n)],
                bad_classes=bad[:10])
    elif rnkind in ('inside', 'above'):
        k = allowed[0]
        bad = []
        for i in range(n):
            want = J if i == k else 0.0
            t = tols[i] + (TOL * J if i == k else 0.0)
            if not abs(res[i] - want) <= t:
                bad.append(i)
            s = abs(phi[i]) + abs(phi[i + 1]) + (J if i == k else 0.0)
            if s > 0:
                R.worst(pfx + 'ref_dxdt_rel', abs(res[i] - want) / s)
        R.check(pfx + 'ref_dxdt', not bad, _mech(lab, func, J=jlab, rn=rnkind),
                bounds=b, growth=G, psd=N, J=J, Rn=Rn, k=k, returned=o, residual_vs_fluxes=res, bad_classes=bad[:10])
    # (b) total with the reference end fluxes
    lhs = math.fsum(o)
    rhs = J + phi[0] - phi[n]
    tol = TOL * (2 * sumabs + J) + TINY
    if 2 * sumabs + J > 0:
        R.worst(pfx + 'total_rel', abs(lhs - rhs) / (2 * sumabs + J))
    R.check(pfx + 'total', abs(lhs - rhs) <= tol, _mech(lab, func, J=jlab, rn=rnkind),
            bounds=b, growth=G, psd=N, J=J, Rn=Rn, sum_returned=lhs, J_plus_ends=rhs, phi0=phi[0], phin=phi[n])
    # anchored state
    if nf is not None and np.ndim(nf) == 1 and len(nf) == n + 1:
        f = [float(v) for v in nf]
        bad = [j for j in range(n + 1) if not abs(f[j] - phi[j]) <= TOL * abs(phi[j]) + TINY]
        R.check(pfx + 'ref_flux', not bad, _mech(lab, func), bounds=b, growth=G, psd=N, observed=f, reference=phi,
                bad_faces=bad[:10])
        R.check(pfx + 'end_signs', f[0] <= 0.0 <= f[n], _mech(lab, func, after='getdXdtEuler'),
                phi0=f[0], phin=f[n], growth0=G[0], growthn=G[n])
    else:
        R.observe('netflux_unavailable')
    return phi


def check_nucleation(R, pfx, lab, b, G, N, J, Rn, d0, dJ, phi):
    """(c) metamorphic pair: same call with J = 0 and J > 0."""
    n = len(N)
    rnkind, allowed = _rn_allowed(b, Rn)
    a0 = [float(v) for v in d0]
    aJ = [float(v) for v in dJ]
    diff = [aJ[i] - a0[i] for i in range(n)]
    tols = [TOL * (abs(phi[i]) + abs(phi[i + 1])) + TINY for i in range(n)]
    # rounding of (d + J) - d is relative to |d| + J in the receiving class
    tolsJ = [tols[i] + TOL * abs(a0[i]) for i in range(n)]
    okl, decl, okt, dect, recv, tres = _nuc_residual(diff, tolsJ, J, allowed)
    if dect:
        R.worst(pfx + 'nuc_total_fraction_of_tolerance', tres)
    if okt and not dect:
        R.observe('nuc_total_undecidable')      # J below 100x the rounding level of the exchange fluxes
    else:
        R.check(pfx + 'nuc_total', okt, _mech(lab, 'getdXdtEuler', rn=rnkind, rn_detail=lab.get('rn')),
                bounds=b, Rn=Rn, J=J, sum_difference=math.fsum(diff), receivers=recv[:10])
    if allowed is None:     # Rn below the grid: receiving class only recorded
        if len(recv) == 1:
            R.observe('below_recv_last' if recv[0] == n - 1 else ('below_recv_first' if recv[0] == 0 else 'below_recv_other'))
        else:
            R.observe('below_recv_%d_classes' % min(len(recv), 2))
        return
    if rnkind == 'above' and recv == [n - 1]:
        R.observe('above_recv_last')
    if rnkind == 'boundary' and len(recv) == 1:
        R.observe('boundary_recv_upper' if recv[0] == allowed[1] else 'boundary_recv_lower')
    if okl and not decl:
        R.observe('nuc_local_undecidable')
        return
    R.check(pfx + 'nuc_local', okl, _mech(lab, 'getdXdtEuler', rn=rnkind, rn_detail=lab.get('rn')),
            bounds=b, Rn=Rn, J=J, allowed=list(allowed), receivers=recv[:10],
            difference_at_receivers=[diff[i] for i in recv[:10]], growth=G, psd=N)


def check_correct(R, pfx, lab, b, G, N, J, Rn, dt, ratio, out, nf, consistent, phi):
    """(d) + reference comparison for one correctdXdtEuler call.
    phi: reference (unlimited) face fluxes belonging to the _netFlux state that was corrected, or None."""
    n = len(N)
    func = 'correctdXdtEuler'
    if out is None or np.ndim(out) != 1 or len(out) != n:
        R.check(pfx + 'ref_correct', False, _mech(lab, func, what='shape'), n=n, got=np.shape(out))
        return
    o = [float(v) for v in out]
    rnkind, allowed = _rn_allowed(b, Rn)
    jlab = 'pos' if J > 0 else 'zero'
    if phi is not None:
        lim = _ref_limit(phi, N, dt)
        res = [o[i] - (lim[i] - lim[i + 1]) for i in range(n)]
        tols = [TOL * (abs(lim[i]) + abs(lim[i + 1])) + TINY for i in range(n)]
        if J == 0.0:
            bad = [i for i in range(n) if not abs(res[i]) <= tols[i]]
            ok = not bad
        else:
            tolsJ = [tols[i] + TOL * abs(o[i]) for i in range(n)]
            okl, decl, okt, dect, recv, _ = _nuc_residual(res, tolsJ, J, allowed)
            ok = okt and (okl is None or okl)
            bad = recv
        for i in range(n):
            s = abs(lim[i]) + abs(lim[i + 1])
            if s > 0 and (J == 0.0 or (allowed is not None and i not in allowed)):
                R.worst(pfx + 'ref_correct_rel', abs(res[i]) / s)
        R.check(pfx + 'ref_correct', ok, _mech(lab, func, J=jlab, rn=rnkind),
                bounds=b, growth=G, psd=N, J=J, Rn=Rn, dt=dt, returned=o, limited_reference_fluxes=lim,
                residual=res, classes=bad[:10])
    # observed face fluxes after correction
    if nf is not None and np.ndim(nf) == 1 and len(nf) == n + 1:
        f = [float(v) for v in nf]
        worst = 0.0
        badface = None
        for j in range(n + 1):
            if f[j] > 0.0:
                donor = N[j - 1] if j >= 1 else None
            elif f[j] < 0.0:
                donor = N[j] if j <= n - 1 else None
            else:
                if f[j] != f[j]:
                    badface = (j, 'nan')
                continue
            if donor is None:
                badface = (j, 'enters_through_end')
                continue
            moved = abs(f[j]) * dt
            if not moved <= donor * (1 + TOL) + dt * TINY:
                badface = (j, 'below' if f[j] < 0 else 'above')
            if donor > 1e-280:
                worst = max(worst, moved / donor - 1.0)
        R.worst(pfx + 'face_bound_excess', worst)
        R.check(pfx + 'face_bound', badface is None,
                _mech(lab, func, side=badface[1] if badface else None, consistent=bool(consistent)),
                bounds=b, growth=G, psd=N, dt=dt, observed_fluxes=f, face=badface)
        R.check(pfx + 'end_signs', f[0] <= 0.0 <= f[n], _mech(lab, func, after='correctdXdtEuler'),
                phi0=f[0], phin=f[n])
        # returned rate is the difference of the observed face fluxes (+ J)
    else:
        R.observe('netflux_unavailable')
    # non-negativity of the classes that obey the step limit at both of their faces
    if not consistent:
        R.observe('correct_inconsistent_pair')
        neg = sum(1 for i in range(n) if N[i] + dt * o[i] < -TOL * N[i] - dt * TINY)
        if neg:
            R.observe('negative_classes_inconsistent_pair', neg)
        return
    if ratio is None or not (0.0 < ratio <= 0.5):
        R.observe('nonneg_skipped_ratio_above_half')
        return
    slack = SLACK if ratio <= SLACK_RATIO else 0.0
    nobey = 0
    bad = []
    nneg_out = 0
    for i in range(n):
        gmax = max(abs(G[i]), abs(G[i + 1]))
        new = N[i] + dt * o[i]
        if dt * gmax <= ratio * (b[i + 1] - b[i]) * (1 + slack):
            nobey += 1
            if not new >= -TOL * N[i] - dt * TINY:
                bad.append(i)
            if N[i] > 1e-280:
                R.worst(pfx + 'nonneg_deficit_rel', max(0.0, -new / N[i]))
        elif new < -TOL * N[i] - dt * TINY:
            nneg_out += 1
    if nneg_out:
        R.observe('negative_class_outside_limit', nneg_out)   # legal: class does not obey the limit
    if nobey:
        R.observe('classes_obeying_limit', nobey)
        if bad:
            R.check(pfx + 'nonneg', False, _mech(lab, func, J=jlab), bounds=b, growth=G, psd=N, dt=dt, ratio=ratio,
                    returned=o, classes=bad[:10], new=[N[i] + dt * o[i] for i in bad[:10]])
            R.count(pfx + 'nonneg', nobey - 1)
        else:
            R.count(pfx + 'nonneg', nobey)


def check_nuc_agreement(R, pfx, lab, b, N, J, Rn, phi, dJ, dt, dc):
    """Where do the nuclei go before (getdXdtEuler) and after (correctdXdtEuler) the correction?  Both rates are
    reduced by their reference transport part; what is left must be J in one and the same class."""
    n = len(N)
    rnkind, allowed = _rn_allowed(b, Rn)
    g = [float(v) for v in dJ]
    c = [float(v) for v in dc]
    lim = _ref_limit(phi, N, dt)
    res_g = [g[i] - (phi[i] - phi[i + 1]) for i in range(n)]
    res_c = [c[i] - (lim[i] - lim[i + 1]) for i in range(n)]
    tol_g = [TOL * (abs(phi[i]) + abs(phi[i + 1]) + abs(g[i])) + TINY for i in range(n)]
    tol_c = [TOL * (abs(lim[i]) + abs(lim[i + 1]) + abs(c[i])) + TINY for i in range(n)]
    if not J > 100.0 * max(max(tol_g), max(tol_c)):
        R.observe('nuc_agreement_undecidable')   # J below 100x the rounding level of some class's exchange fluxes
        return
    rg = [i for i in range(n) if abs(res_g[i]) > tol_g[i]]
    rc = [i for i in range(n) if abs(res_c[i]) > tol_c[i]]
    one_g = len(rg) == 1 and abs(res_g[rg[0]] - J) <= tol_g[rg[0]] + TOL * J
    one_c = len(rc) == 1 and abs(res_c[rc[0]] - J) <= tol_c[rc[0]] + TOL * J
    mech = _mech(lab, 'getdXdtEuler/correctdXdtEuler', rn=rnkind, rn_detail=lab.get('rn'))
    R.check(pfx + 'nuc_same_class', one_g and one_c and rg == rc, mech, bounds=b, Rn=Rn, J=J, dt=dt,
            receivers_getdXdtEuler=rg[:10], receivers_correctdXdtEuler=rc[:10], psd=N)
    if rnkind == 'above':
        bad = [f for f, r in (('getdXdtEuler', rg), ('correctdXdtEuler', rc)) if r != [n - 1]]
        R.check(pfx + 'nuc_above_last', not bad,
                _mech(lab, '+'.join(bad) if bad else 'getdXdtEuler/correctdXdtEuler', rn=rnkind, rn_detail=lab.get('rn')),
                bounds=b, Rn=Rn, J=J, last_class=n - 1, receivers_getdXdtEuler=rg[:10], receivers_correctdXdtEuler=rc[:10])
    elif rnkind == 'below':
        for f, r in (('get', rg), ('correct', rc)):
            if len(r) == 1:
                R.observe('below_%s_recv_%s' % (f, 'last' if r[0] == n - 1 else ('first' if r[0] == 0 else 'other')))


def check_noop(R, pfx, lab, b, G, N, J, Rn, phi, d, dt, dc):
    """Nothing to correct (no reference face flux exceeds its donor): the corrected rate equals the uncorrected one."""
    n = len(N)
    if _ref_limit(phi, N, dt) != phi:
        return
    g = [float(v) for v in d]
    c = [float(v) for v in dc]
    bad = [i for i in range(n) if not abs(c[i] - g[i]) <= TOL * (abs(phi[i]) + abs(phi[i + 1]) + abs(g[i])) + TINY]
    rnkind, _ = _rn_allowed(b, Rn)
    R.check(pfx + 'correct_noop_equal', not bad, _mech(lab, 'correctdXdtEuler', rn=rnkind, J='pos' if J > 0 else 'zero'),
            bounds=b, growth=G, psd=N, J=J, Rn=Rn, dt=dt, classes=bad[:10], uncorrected=[g[i] for i in bad[:10]],
            corrected=[c[i] for i in bad[:10]])


def run_extension_sequence(R, rng):
    """Nucleation at/above the upper end of the grid, a few explicit steps with the corrected rate followed by
    UpdatePBMEuler + adjustSizeClassesEuler: the nuclei fill the last class, so the grid must be extended."""
    from kawin.precipitation import PopulationBalanceModel
    bins = int(rng.integers(4, 120))
    cmin = _logu(rng, -10, -8)
    cmax = cmin * float(rng.uniform(10, 100))
    pbm = PopulationBalanceModel(cmin, cmax, bins=bins, minBins=max(2, bins // 2), maxBins=100 * bins)
    top = float(pbm.PSDbounds[-1])
    Rn = [top, float(np.nextafter(top, np.inf)), top * (1 + 1e-7), 1.5 * top, 3.0 * top, 40.0 * top][int(rng.integers(0, 6))]
    populated = rng.random() < 0.5
    with_growth = rng.random() < 0.5
    lab = {'pfx': '', 'path': 'extension', 'dist': 'lognormal' if populated else 'empty',
           'growth': 'physical' if with_growth else 'allzero', 'rn': 'above'}
    psd = np.zeros(bins)
    if populated:
        c = pbm.PSDsize
        psd = _logu(rng, 3, 15) * np.exp(-0.5 * ((c - c[bins // 3]) / (0.15 * (c[-1] - c[0]))) ** 2)
        psd[-max(1, bins // 4):] = 0.0          # upper quarter empty: only nucleation can fill the last class
    pbm.PSD = np.array(psd)
    t = 0.0
    for step in range(3):
        b = np.array(pbm.PSDbounds, dtype=float)
        n = int(pbm.bins)
        N = np.array(pbm.PSD, dtype=float)
        if Rn < b[-1]:
            R.observe('extension_grid_reached_rn')
            break
        if with_growth:
            rc = float(rng.uniform(b[0], b[-1]))
            G = 1e-9 * (0.5 * (b[0] + b[-1])) ** 2 * (1.0 / rc - 1.0 / b) / b
        else:
            G = np.zeros(n + 1)
        ok, dt = _call(R, lab, 'getDTEuler', pbm.getDTEuler, 1.0, G.copy(), 0)
        if not ok:
            return
        dt = float(dt)
        J = 10.0 / dt * _logu(rng, 0, 6)                # at least 10 nuclei per step
        ok, d = _call(R, lab, 'getdXdtEuler', pbm.getdXdtEuler, G.copy(), J, Rn, N.copy())
        if not ok:
            return
        ok, dc = _call(R, lab, 'correctdXdtEuler', pbm.correctdXdtEuler, dt, G.copy(), J, Rn, N.copy())
        if not ok:
            return
        newN = N + dt * np.array(dc, dtype=float)
        oldbins, oldtop = n, float(b[-1])
        t += dt
        try:
            pbm.UpdatePBMEuler(t, newN.copy())
            pbm.adjustSizeClassesEuler()
        except Exception:
            R.observe('extension_aborted_in_grid_update')   # grid bookkeeping is C08's subject
            return
        grown = int(pbm.bins) > oldbins and float(pbm.PSDbounds[-1]) > oldtop
        R.check('nuc_extends_grid', grown, _mech(lab, 'correctdXdtEuler+adjustSizeClassesEuler'),
                bounds_before=b, Rn=Rn, J=J, dt=dt, psd_before=N, new_population=newN, bins_before=oldbins,
                bins_after=int(pbm.bins), upper_before=oldtop, upper_after=float(pbm.PSDbounds[-1]), step=step)
        if not grown:
            return


def check_dtlimit(R, pfx, lab, b, G, N, di, ratio, passed, got):
    want, limited = _ref_dtlimit(b, G, N, di, ratio, passed)
    try:
        g = float(got)
    except Exception:
        R.check(pfx + 'dt_limit', False, _mech(lab, 'getDTEuler', what='type'), got=repr(got))
        return None
    if limited:
        ok = abs(g - want) <= TOL * abs(want)
        if not ok and passed < want and g == passed:
            # the documented alternative ("currDT ... will be returned if it's smaller"); the code on the unchanged
            # tree never takes it, the statement does not exclude it
            ok = True
            R.observe('dt_limit_returned_smaller_passed_in')
        else:
            R.worst(pfx + 'dt_limit_rel', abs(g - want) / abs(want))
        if g > passed:
            R.observe('dt_limit_above_passed_in')
    else:
        ok = (g == passed)
        R.observe('dt_limit_passthrough')
    R.check(pfx + 'dt_limit', ok, _mech(lab, 'getDTEuler', branch='limited' if limited else 'passthrough'),
            bounds01=[b[0], b[1]], growth=G, psd=N, dissolutionIndex=di, ratio=ratio, passed_in=passed,
            returned=g, reference=want)
    return g


def check_dissindex(R, pfx, lab, b, N, frac, minIndex, got):
    n = len(N)
    try:
        idx = int(got)
        okint = (idx == got)
    except Exception:
        idx, okint = None, False
    if not okint or idx < 0:
        R.check(pfx + 'diss_index', False, _mech(lab, 'getDissolutionIndex', what='not an index'), got=repr(got))
        return 0
    m3 = [N[i] * (0.5 * (b[i] + b[i + 1])) ** 3 for i in range(n)]
    total = math.fsum(m3)
    below = math.fsum(m3[:idx])
    bound = frac * total
    ok = below <= bound * (1 + TOL)
    if not ok and minIndex > 0 and idx == minIndex:
        R.observe('diss_clamped_by_minIndex')
        return idx
    if total > 0:
        R.worst(pfx + 'diss_index_excess_rel', max(0.0, below - bound) / total)
    if ok and idx + 1 <= n and idx >= minIndex:
        # largest admissible index? (not asserted)
        if math.fsum(m3[:idx + 1]) <= bound * (1 - 1e-9) and idx < n - 1:
            R.observe('diss_index_not_maximal')
    R.check(pfx + 'diss_index', ok, _mech(lab, 'getDissolutionIndex', minIndex='zero' if minIndex == 0 else 'pos'),
            bounds=b, psd=N, fraction=frac, minIndex=minIndex, returned=idx, third_moment_below=below,
            fraction_times_total=bound)
    return idx


# =================================================================================================
# workload generators (direct path)

def _logu(rng, lo, hi):
    return float(10.0 ** rng.uniform(lo, hi))


def gen_grid(rng):
    from kawin.precipitation import PopulationBalanceModel
    u = rng.random()
    if u < 0.12:
        n = 1
    elif u < 0.20:
        n = 2
    elif u < 0.28:
        n = 3
    elif u < 0.36:
        n = 200
    else:
        n = int(min(200, max(1, round(_logu(rng, 0.5, 2.31)))))
    if rng.random() < 0.15:
        cmin = 0.0
        cmax = _logu(rng, -10, -5)
        glab = 'from0'
    else:
        cmin = _logu(rng, -11, -6)
        cmax = cmin * _logu(rng, 0.3, 3.0)      # below 10*cMin the constructor widens the grid (documented)
        glab = 'pos'
    pbm = PopulationBalanceModel(cmin, cmax, bins=n, minBins=max(2, n // 2), maxBins=max(4, 2 * n))
    if n < 190 and rng.random() < 0.1:
        pbm.addSizeClasses(int(rng.integers(1, 6)))
        glab += '+ext'
    if rng.random() < 0.3:
        # pre-history on the same object: the transport functions are evaluated once on the first grid and the
        # grid is then rebuilt with the SAME number of classes (re-mesh, backup/re-mesh/revert, reset), so that
        # anything the object remembered about the first grid (class widths, buffers) is stale when the monitored
        # call is made. The oracle only reads the bounds in force at the monitored call.
        nb = int(pbm.bins)
        try:
            pbm.PSD = np.array(rng.random(nb) * 1e10)
            g0 = rng.standard_normal(nb + 1) * 1e-10
            pbm.getDTEuler(1.0, g0.copy(), 0)
            pbm.getdXdtEuler(g0.copy(), 0.0, float(pbm.PSDbounds[0]), np.array(pbm.PSD))
            how = ['remesh', 'backup_remesh_revert', 'remesh_reset'][int(rng.integers(0, 3))]
            lo, hi = float(pbm.PSDbounds[0]), float(pbm.PSDbounds[-1])
            f = float(rng.uniform(1.5, 6.0)) if rng.random() < 0.5 else float(rng.uniform(0.2, 0.7))
            if how == 'remesh':
                pbm.changeSizeClasses(lo, lo + f * (hi - lo), bins=nb)
            elif how == 'backup_remesh_revert':
                pbm.changeSizeClasses(lo, lo + f * (hi - lo), bins=nb)
                pbm.createBackup()
                pbm.changeSizeClasses(lo, hi, bins=nb)
                pbm.revert()
            else:
                pbm.changeSizeClasses(lo, lo + f * (hi - lo), bins=nb)
                pbm.getdXdtEuler(g0.copy(), 0.0, float(pbm.PSDbounds[0]), np.array(pbm.PSD))
                pbm.reset()
            glab += '+hist'
        except Exception:
            glab += '+hist_failed'             # grid bookkeeping itself is C08's subject; the grid is used as it is
    return pbm, glab


DISTS = ['empty', 'single', 'sparse', 'lognormal', 'hugerange', 'subunit', 'uniform', 'lognormal_cut']


def gen_dist(rng, n, centres):
    kind = DISTS[int(rng.integers(0, len(DISTS)))]
    N = np.zeros(n)
    if kind == 'single':
        N[int(rng.integers(0, n))] = _logu(rng, -3, 25)
    elif kind == 'sparse':
        m = int(rng.integers(1, min(n, 6) + 1))
        idx = rng.choice(n, size=m, replace=False)
        N[idx] = 10.0 ** rng.uniform(-3, 25, size=m)
    elif kind in ('lognormal', 'lognormal_cut'):
        c = np.maximum(centres, 1e-300)
        mu = math.log(float(c[int(rng.integers(0, n))]))
        s = rng.uniform(0.05, 0.8)
        N = _logu(rng, 3, 24) * np.exp(-0.5 * ((np.log(c) - mu) / s) ** 2)
        if kind == 'lognormal_cut':
            N[N < 1.0] = 0.0
    elif kind == 'hugerange':
        N = 10.0 ** rng.uniform(-3, 25, size=n)
        N[rng.random(n) < 0.2] = 0.0
    elif kind == 'subunit':
        N = rng.uniform(0, 1, size=n)
        N[rng.random(n) < 0.3] = 0.0
    elif kind == 'uniform':
        N[:] = _logu(rng, -3, 25)
    return kind, N


GROWTHS = ['physical', 'physical', 'physical_zeros', 'alternating', 'alt_zeros', 'positive', 'negative', 'allzero',
           'linear_sign', 'spiky']


def gen_growth(rng, b):
    n = len(b) - 1
    kind = GROWTHS[int(rng.integers(0, len(GROWTHS)))]
    if kind.startswith('physical') and b[0] <= 0.0:
        kind = 'linear_sign'                      # 1/R law is singular on a grid that starts at 0
    g0 = _logu(rng, -14, -3)
    if kind.startswith('physical'):
        rref = 0.5 * (b[0] + b[-1])
        u = rng.random()
        if u < 0.7:
            rc = rng.uniform(b[0], b[-1])
        elif u < 0.85:
            rc = b[0] * rng.uniform(0.1, 0.99)
        else:
            rc = b[-1] * rng.uniform(1.01, 5.0)
        A = g0 * rref * rref
        G = A * (1.0 / rc - 1.0 / b) / b
        if kind == 'physical_zeros':
            G[rng.random(n + 1) < 0.3] = 0.0
    elif kind in ('alternating', 'alt_zeros'):
        G = g0 * 10.0 ** rng.uniform(-3, 0, size=n + 1) * rng.choice([-1.0, 1.0], size=n + 1)
        if kind == 'alt_zeros':
            G[rng.random(n + 1) < 0.3] = 0.0
    elif kind == 'positive':
        G = g0 * 10.0 ** rng.uniform(-3, 0, size=n + 1)
    elif kind == 'negative':
        G = -g0 * 10.0 ** rng.uniform(-3, 0, size=n + 1)
    elif kind == 'allzero':
        G = np.zeros(n + 1)
    elif kind == 'linear_sign':
        x0 = rng.uniform(b[0], b[-1])
        G = g0 * (b - x0) / (b[-1] - b[0]) * (1.0 if rng.random() < 0.5 else -1.0)
    else:  # spiky
        G = 10.0 ** rng.uniform(-20, -2, size=n + 1) * rng.choice([-1.0, 1.0], size=n + 1)
    return kind, np.asarray(G, dtype=float)


def gen_rn(rng, b):
    n = len(b) - 1
    u = rng.random()
    top = b[n]
    if u < 0.38:
        k = int(rng.integers(0, n))
        r = b[k] + (b[k + 1] - b[k]) * rng.uniform(0.01, 0.99)
        if b[k] < r < b[k + 1]:
            return 'inside', float(r)
        return 'b0', float(b[0])
    if u < 0.50 and n >= 2:
        return 'boundary', float(b[int(rng.integers(1, n))])
    if u < 0.56:
        return 'b0', float(b[0])
    if u < 0.62:
        return 'bn', float(top)
    if u < 0.74:
        v = rng.random()
        if v < 0.5 and b[0] > 0:
            return 'below', float(b[0] * rng.uniform(0.0, 0.999))
        if v < 0.75:
            return 'below', 0.0 if b[0] > 0 else -1e-10
        return 'below', -float(_logu(rng, -11, -7))
    if u < 0.80:
        return 'above', float(top * rng.uniform(1.001, 10.0))
    if u < 0.85:
        return 'above_slight', float(np.nextafter(top, np.inf)) if rng.random() < 0.5 else float(top * (1 + 1e-7))
    if u < 0.90:
        return 'above_1.5x', float(1.5 * top)
    if u < 0.95:
        return 'above_3x', float(3.0 * top)
    return 'above_40x', float(40.0 * top)


def _call(R, lab, name, fn, *args, **kw):
    try:
        return True, fn(*args, **kw)
    except Exception as e:  # the statement covers all these inputs: the call must succeed
        R.exception(lab['pfx'] + 'no_exception', e, _mech(lab, name, grid=lab.get('grid'), rn=lab.get('rn')),
                    args=list(args))
        return False, None


def run_direct(case, R):
    rng = core.case_rng(case['seed'], PROPERTY, case['idx'])
    nt = 0
    ninputs = int(case['inputs'])
    for it in range(ninputs):
        pbm, glab = gen_grid(rng)
        bnp = np.array(pbm.PSDbounds, dtype=float)
        n = int(pbm.bins)
        b = bnp.tolist()
        if len(b) != n + 1 or len(pbm.PSD) != n or any(not b[i] < b[i + 1] for i in range(n)):
            R.observe('rejected_grid')
            continue
        dkind, Nnp = gen_dist(rng, n, np.array(pbm.PSDsize, dtype=float))
        gkind, Gnp = gen_growth(rng, bnp)
        rkind, Rn = gen_rn(rng, b)
        J = 0.0 if rng.random() < 0.25 else _logu(rng, -3, 30)
        if not (np.all(np.isfinite(Gnp)) and np.all(np.isfinite(Nnp)) and np.all(Nnp >= 0)):
            R.observe('rejected_nonfinite')
            continue
        N = Nnp.tolist()
        G = Gnp.tolist()
        lab = {'pfx': '', 'path': 'direct', 'grid': ('n%d' % n if n <= 3 else 'n>3') + ':' + glab, 'dist': dkind,
               'growth': gkind, 'rn': rkind}
        R.observe('grid_' + ('n%d' % n if n <= 3 else ('n200' if n == 200 else 'n4-199')))
        R.observe('dist_' + dkind)
        if '+hist' in glab:
            R.observe('grid_history_' + glab.split('+hist')[1].lstrip('_') if glab.endswith('failed') else 'grid_history_same_count_rebuild')
        R.observe('growth_' + gkind)
        R.observe('rn_' + rkind)
        populated = sum(1 for v in N if v > 0)
        signchange = any(g > 0 for g in G) and any(g < 0 for g in G)
        if populated >= 2 and (signchange or J > 0):
            nt += 1

        # ---- dissolution index (reads the object's own population)
        pbm.PSD = Nnp.copy()
        frac = [1e-6, 1e-3, 1e-2, 0.1, 0.5, 1.0, 0.0, float(rng.uniform(0, 1))][int(rng.integers(0, 8))]
        minIndex = 0 if rng.random() < 0.7 else int(rng.integers(0, n))
        ok, di = _call(R, lab, 'getDissolutionIndex', pbm.getDissolutionIndex, frac, minIndex)
        if ok:
            di = check_dissindex(R, '', lab, b, N, frac, minIndex, di)
        else:
            di = 0
        if rng.random() < 0.15:
            di = int(rng.integers(0, n + 1))         # any start index, incl. n (no face left)

        # ---- step limit
        passed = _logu(rng, -3, 6)
        u = rng.random()
        if u < 0.4:
            ratio, rargs = 0.4, ()
        elif u < 0.75:
            ratio = float(rng.uniform(0.05, 0.5)); rargs = (ratio,)
        elif u < 0.85:
            ratio = 0.5; rargs = (ratio,)
        else:
            ratio = float(rng.uniform(0.5, 1.0)); rargs = (ratio,)
        ok, dtlim = _call(R, lab, 'getDTEuler', pbm.getDTEuler, passed, Gnp.copy(), di, *rargs)
        if ok:
            dtlim = check_dtlimit(R, '', lab, b, G, N, di, ratio, passed, dtlim)
        own_ratio = getattr(pbm, 'maxRatio', None)
        if own_ratio is None or float(own_ratio) != ratio:
            R.observe('own_ratio_differs')
            own_ratio = None
        else:
            own_ratio = float(own_ratio)

        # ---- rate of change without and with nucleation
        Gin, Nin = Gnp.copy(), Nnp.copy()
        ok, d0 = _call(R, lab, 'getdXdtEuler', pbm.getdXdtEuler, Gin, 0.0, Rn, Nin)
        if not ok:
            continue
        nf0 = getattr(pbm, '_netFlux', None)
        nf0 = None if nf0 is None else np.array(nf0, dtype=float)
        d0 = np.array(d0, dtype=float)
        phi = check_getdxdt(R, '', lab, b, G, N, 0.0, Rn, d0, nf0)
        if phi is None:
            continue
        if not (np.array_equal(Gin, Gnp) and np.array_equal(Nin, Nnp)):
            R.observe('inputs_modified_by_getdXdtEuler')
            Gin, Nin = Gnp.copy(), Nnp.copy()
        if J > 0:
            ok, dJ = _call(R, lab, 'getdXdtEuler', pbm.getdXdtEuler, Gin, J, Rn, Nin)
            if not ok:
                continue
            dJ = np.array(dJ, dtype=float)
            nfJ = getattr(pbm, '_netFlux', None)
            check_getdxdt(R, '', lab, b, G, N, J, Rn, dJ, None if nfJ is None else np.array(nfJ, dtype=float))
            check_nucleation(R, '', lab, b, G, N, J, Rn, d0, dJ, phi)

        # ---- correction with dt
        v = rng.random()
        gmax = max(abs(g) for g in G)
        if v < 0.25 and dtlim is not None and dtlim > 0 and math.isfinite(dtlim):
            dt, dtk = float(dtlim), 'limit'
        elif v < 0.75 and gmax > 0:
            dt, dtk = float(0.4 * (b[1] - b[0]) / gmax * _logu(rng, -6, 6)), 'scaled'
        else:
            dt, dtk = _logu(rng, -6, 6), 'abs'
        if not (dt > 0 and math.isfinite(dt)):
            R.observe('rejected_dt')
            continue
        R.observe('dt_' + dtk)
        R.info['dt_log10_min'] = min(R.info.get('dt_log10_min', 99.0), math.log10(dt))
        R.info['dt_log10_max'] = max(R.info.get('dt_log10_max', -99.0), math.log10(dt))
        ok, dc = _call(R, lab, 'correctdXdtEuler', pbm.correctdXdtEuler, dt, Gin, J, Rn, Nin)
        if not ok:
            continue
        nfc = getattr(pbm, '_netFlux', None)
        dc = np.array(dc, dtype=float)
        check_correct(R, '', lab, b, G, N, J, Rn, dt, own_ratio, dc,
                      None if nfc is None else np.array(nfc, dtype=float), True, phi)
        check_noop(R, '', lab, b, G, N, J, Rn, phi, dJ if J > 0 else d0, dt, dc)
        if J > 0:
            check_nuc_agreement(R, '', lab, b, N, J, Rn, phi, dJ, dt, dc)
    for it in range(max(4, ninputs // 25)):
        run_extension_sequence(R, rng)
    R.observe('inputs', ninputs)
    R.observe('nontrivial_inputs', nt)
    R.set_nontrivial(nt >= 0.25 * ninputs, 'direct:%d:%d' % (case['block'], case['seed']))


# =================================================================================================
# grain-growth path: the four PBM methods wrapped on the model's own pbm instance

class _Spy:
    def __init__(self, R, gg, lab):
        self.R, self.gg, self.lab = R, gg, lab
        self.last = None          # (G, N, phi_ref) of the latest getdXdtEuler call on admissible input
        self.state_admissible = False
        self.calls = 0
        self.nt_calls = 0
        pbm = gg.pbm
        self.orig = {k: getattr(pbm, k) for k in ('getdXdtEuler', 'correctdXdtEuler', 'getDTEuler', 'getDissolutionIndex')}
        pbm.getdXdtEuler = self.getdXdtEuler
        pbm.correctdXdtEuler = self.correctdXdtEuler
        pbm.getDTEuler = self.getDTEuler
        pbm.getDissolutionIndex = self.getDissolutionIndex

    def _run(self, name, *a, **k):
        try:
            return self.orig[name](*a, **k)
        except Exception as e:
            self.R.exception('gg_no_exception', e, _mech(self.lab, name))
            raise

    def _admissible(self, G, N):
        return bool(np.all(np.isfinite(G)) and np.all(np.isfinite(N)) and np.all(N >= 0))

    def getdXdtEuler(self, flux, nucRate, nucRadius, psd):
        pbm = self.gg.pbm
        G = np.array(flux, dtype=float); N = np.array(psd, dtype=float)
        b = np.array(pbm.PSDbounds, dtype=float).tolist()
        out = self._run('getdXdtEuler', flux, nucRate, nucRadius, psd)
        self.last = None
        self.state_admissible = False
        if not self._admissible(G, N) or len(N) != len(b) - 1 or len(G) != len(b):
            # RK4 intermediate stages can hold negative classes (classes outside the step limit): outside the statement
            self.R.observe('gg_rejected_stage_negative_or_nonfinite')
            return out
        self.state_admissible = True
        nf = getattr(pbm, '_netFlux', None)
        phi = check_getdxdt(self.R, 'gg_', self.lab, b, G.tolist(), N.tolist(), float(nucRate), float(nucRadius),
                            np.array(out, dtype=float), None if nf is None else np.array(nf, dtype=float))
        self.last = (G, N, phi)
        self.calls += 1
        if np.count_nonzero(N > 0) >= 2 and np.any(G > 0) and np.any(G < 0):
            self.nt_calls += 1
        if np.any(G == 0):
            self.R.observe('gg_growth_with_zeros')
        return out

    def correctdXdtEuler(self, dt, flux, nucRate, nucRadius, psd):
        pbm = self.gg.pbm
        G = np.array(flux, dtype=float); N = np.array(psd, dtype=float)
        b = np.array(pbm.PSDbounds, dtype=float).tolist()
        out = self._run('correctdXdtEuler', dt, flux, nucRate, nucRadius, psd)
        if not self._admissible(G, N) or not (dt > 0) or len(N) != len(b) - 1 or len(G) != len(b):
            self.R.observe('gg_rejected_correct_input')
            return out
        if not self.state_admissible:
            # the face fluxes being corrected were computed from an inadmissible (negative) stage population
            self.R.observe('gg_rejected_correct_after_inadmissible_stage')
            nf = getattr(pbm, '_netFlux', None)
            if nf is not None and len(nf) and (nf[0] > 0 or nf[-1] < 0):
                self.R.observe('gg_info_inflow_through_grid_end_after_negative_stage')   # information only
            return out
        consistent = self.last is not None and self.last[2] is not None and \
            np.array_equal(self.last[0], G) and np.array_equal(self.last[1], N)
        phi = self.last[2] if consistent else None
        nf = getattr(pbm, '_netFlux', None)
        ratio = getattr(pbm, 'maxRatio', None)
        check_correct(self.R, 'gg_', self.lab, b, G.tolist(), N.tolist(), float(nucRate), float(nucRadius), float(dt),
                      None if ratio is None else float(ratio), np.array(out, dtype=float),
                      None if nf is None else np.array(nf, dtype=float), consistent, phi)
        return out

    def getDTEuler(self, currDT, growth, dissolutionIndex, *a, **k):
        pbm = self.gg.pbm
        G = np.array(growth, dtype=float); N = np.array(pbm.PSD, dtype=float)
        b = np.array(pbm.PSDbounds, dtype=float).tolist()
        out = self._run('getDTEuler', currDT, growth, dissolutionIndex, *a, **k)
        if not self._admissible(G, N) or a or k:
            self.R.observe('gg_rejected_dt_input')
            return out
        check_dtlimit(self.R, 'gg_', self.lab, b, G.tolist(), N.tolist(), int(dissolutionIndex), 0.4, float(currDT), out)
        return out

    def getDissolutionIndex(self, maxDissolution, minIndex=0):
        pbm = self.gg.pbm
        N = np.array(pbm.PSD, dtype=float)
        b = np.array(pbm.PSDbounds, dtype=float).tolist()
        out = self._run('getDissolutionIndex', maxDissolution, minIndex)
        if not (np.all(np.isfinite(N)) and np.all(N >= 0)):
            self.R.observe('gg_rejected_diss_input')
            return out
        check_dissindex(self.R, 'gg_', self.lab, b, N.tolist(), float(maxDissolution), int(minIndex), out)
        return out


class _StepCap:
    def __init__(self, cap):
        self.cap, self.n = cap, 0

    def updateCoupledModel(self, model):
        self.n += 1
        if self.n >= self.cap:
            raise core.StopRun()


def run_graingrowth(case, R):
    from kawin.precipitation.coupling.GrainGrowth import GrainGrowthModel
    from kawin.solver.Solver import SolverType
    rng = core.case_rng(case['seed'], PROPERTY, case['idx'])
    calls = ntc = 0
    for run in range(int(case['runs'])):
        cmin = _logu(rng, -8, -6)
        cmax = cmin * _logu(rng, 1.0, 2.5)
        bins = int([6, 12, 25, 50, 100, 150, 200][int(rng.integers(0, 7))])
        solver = 'euler' if rng.random() < 0.5 else 'rk4'
        zener = rng.random() < 0.35
        lab = {'pfx': 'gg_', 'path': 'graingrowth', 'solver': solver, 'growth': 'gg_zener' if zener else 'gg_law',
               'dist': 'gg'}
        gg = GrainGrowthModel(cmin, cmax, bins=bins, minBins=max(2, bins // 2), maxBins=2 * bins,
                              solverType=SolverType.EXPLICITEULER if solver == 'euler' else SolverType.RK4)
        gg.setGrainBoundaryMobility(_logu(rng, -16, -12))
        gg.setGrainBoundaryEnergy(float(rng.uniform(0.2, 1.0)))
        spy = _Spy(R, gg, lab)
        mu = math.log(cmin) + rng.uniform(0.25, 0.75) * (math.log(cmax) - math.log(cmin))
        s = rng.uniform(0.1, 0.5)
        try:
            if rng.random() < 0.5:
                gg.LoadDistributionFunction(lambda r: np.exp(-0.5 * ((np.log(r) - mu) / s) ** 2) / r)
                lab['dist'] = 'gg_function'
            else:
                gg.LoadDistribution(np.exp(rng.normal(mu, s, size=int(_logu(rng, 1.5, 4)))))
                lab['dist'] = 'gg_data'
            if zener:
                rmean = float(gg.Rm(gg.pbm.PSD))
                z = _logu(rng, -1.3, 0.3) / rmean
                r = 1e-9
                f = z * (4.0 / 3.0) * r
                fake = types.SimpleNamespace(phases=['P'], pData=types.SimpleNamespace(
                    n=0, Ravg=np.array([[r]]), volFrac=np.array([[f]])))
                gg.computeZenerRadius(fake)
            gg.addCouplingModel(_StepCap(int(rng.integers(15, 60))))
            simtime = _logu(rng, -1, 7)
            gg.solve(simtime, solverType=SolverType.EXPLICITEULER if solver == 'euler' else SolverType.RK4,
                     minDtFrac=_logu(rng, -10, -4))
            R.observe('gg_runs_completed')
        except core.StopRun:
            R.observe('gg_runs_step_capped')
        except Exception as e:
            # anything but the four monitored routines is outside this property (grid adaptation -> C08 etc.)
            fr = core.kawin_frame(e.__traceback__)
            R.observe('gg_run_aborted_%s_in_%s' % (type(e).__name__, fr[1] if fr else 'harness'))
            if fr is None:
                raise
        R.observe('gg_solver_' + solver)
        calls += spy.calls
        ntc += spy.nt_calls
    R.observe('gg_getdxdt_calls', calls)
    R.set_nontrivial(calls > 0 and ntc >= 0.25 * calls, 'graingrowth:%d:%d' % (case['block'], case['seed']))


def run_case(case, R):
    if case['kind'] == 'direct':
        run_direct(case, R)
    else:
        run_graingrowth(case, R)


MANIFEST = {
    'text': 'Random admissible (grid, distribution, growth field, nucleation, step) inputs are pushed through the real '
            'getDissolutionIndex/getDTEuler/getdXdtEuler/correctdXdtEuler and the same four calls are observed inside '
            'GrainGrowthModel.solve; every returned rate, face flux, step limit and index is compared with an independent '
            'face-by-face scalar reference (conservation with end-face fluxes, upwind donors, nucleation locality, per-face '
            'donor bound, non-negativity of classes obeying the limit). Sampled, not exhaustive.',
    'note': 'trusted: numpy, the scalar reference in checks/c07.py; face fluxes after correction are read from the anchored '
            'attribute _netFlux; nuclei below the grid: receiving class only recorded (both routines must agree); nuclei at/above the '
            'upper bound must enter the last class; on a class boundary either neighbour is accepted',
    'technique': 'reference-model and metamorphic monitors on the inputs/outputs of the public population-balance methods',
}
