"""C17 - homogenized mobilities respect the classical bounds and address phases by name.

All monitors observe the real functions of kawin/diffusion/HomogenizationParameters.py (the five
averaging rules called directly; the post-processing modes only through the public entry points
computeHomogenizationFunction / HomogenizationModel._getFluxes with the public HashTable cache).

Part 1 - averaging rules on synthetic (phases x elements) mobilities and simplex fraction vectors
  bounds        all mobilities defined: min <= each of the four bound rules <= max (per element)
  ordering      Wiener-lower <= HS-lower <= HS-upper <= Wiener-upper
  perm          every rule (incl. labyrinth) is unchanged when the phases are listed in another order
  single        one phase present (p = 1, or one-hot fractions with other phases listed) -> that
                phase's mobility, all five rules
  labyrinth     labyrinth(1) == Wiener-upper; labyrinth(n in [1,2]) <= Wiener-upper
  undefined     mobility matrices with undefined (-1) entries: finite, >= 0 and permutation invariant
  Tolerance 1e-9 relative (TOL) everywhere except labyrinth(1) == Wiener-upper (same arithmetic: 1e-12).
  Floating-point justification: the Hashin-Shtrikman rules evaluate gamma0 + Ak/(1 - Ak/(3 gamma0)); the
  absolute error is a few ulp of the reference gamma0 whatever the size of the result, so the relative
  error grows with (largest mobility of the column)/(result).  The generator bounds that conditioning:
  defined matrices have an in-column mobility ratio <= 1e4 and fractions 0 or >= 1e-12 (an exact rational
  reference, fractions.Fraction, of the same formulas gave a worst relative rounding error of 1.4e-12 in
  random and 3.2e-12 in adversarial inputs of that class; it is 1e-10 at ratio 1e6 and 4e-5 at 1e12);
  matrices with undefined entries (which act as phases of ~zero / ~infinite mobility) have ratio <= 100 and
  fractions 0 or >= 1e-2 (adversarial worst 2.2e-12; with ratio 1e4 and fractions 1e-3 it reaches 2.5e-9).
  Numerical conditioning is not part of the statement, so wider classes are not generated.  Margins are
  recorded with R.worst.

Part 2 - post-processing modes ('none', 'predefined', 'majority', 'exclude') by phase NAME
  byname        metamorphic by-name oracle: my own model (byname_variants below, keyed on the NAMES of
                the stable phases of the point) transforms a pristine copy of the per-phase data; the
                expected answer is the real code run with post-processing OFF on a cache pre-loaded with
                the transformed data; the observed answer is the real code run with the mode ON on a
                cache pre-loaded with the pristine data.  Same arithmetic on both sides: 1e-12 relative
                (NaN == NaN, inf == inf).  An exception on an admissible input is a violation.
  repeat        the same call repeated on the same cache gives the bit-identical answer
  cache_intact  the bit image of every cached entry is identical before/after a call
  history       random operation histories (mode/argument/rule changes) on ONE cache: every answer
                equals the by-name expectation computed from pristine data
  Sources: 'stub' (duck-typed thermodynamics carrying only phase/element lists, cache pre-loaded with
  synthetic per-phase data - stable phases listed in any order, 1-4 stable of 1-5 database phases),
  'real' (Fe-Cr-Ni, Fe-Cr, Ni-Cr-Al, Ni-Cr from kawin.tests.datasets; per-phase data obtained from
  computeMobility, then the same procedure; plus the uncached path hashTable=None, tolerance 1e-9,
  only when computeMobility before and after is bit-identical), 'model' (HomogenizationModel._getFluxes
  with setMobilityPostProcessFunction, cache = model.hashTable).

Decisions where the statement is silent (not asserted):
  * bounds/ordering/single/labyrinth only for fully defined matrices ("any set of defined phase
    mobilities"); with undefined entries only finite / >= 0 / permutation invariant, and only for
    element columns that have at least one phase with positive fraction and a defined mobility (a column
    with no defined support returns the sentinel itself - counted as 'undefined_no_support').
  * 'predefined' with the named phase not stable at the point: the function documents "assumes alpha is
    continuously stable", so an exception there is only counted ('predefined_absent_exception'); if the
    call returns, the answer must be the by-name one (nothing filled - never another phase's row).
  * 'exclude': the by-name model zeroes the fractions of the named phases; since the doc-string also
    speaks of "mobility set to 0", the variant "named rows removed" is accepted as well (they differ only
    for the Hashin-Shtrikman extremes).  Names absent at the point are ignored.
  * duplicate composition sets of one phase (miscibility gap): every row carrying the name is admissible
    as the 'predefined'/'majority' source; 'exclude' zeroes all of them.
  * exact ties of the largest fraction ('majority'): every tied row is admissible.
  * 'model' source: 'exclude' is only combined with the sum rules (Wiener upper/lower, labyrinth), for which
    "fraction zeroed" and "row removed" coincide exactly, so one expected flux array exists.
  * the history monitor judges only points whose isolated evaluation (fresh cache) gave the by-name answer, so it
    reports history dependence alone; its mechanism carries 'edited_before' (an editing mode was applied to this
    cache earlier in the history).
  * chemical potentials, equilibrium failures of the backend (counted as 'rejected') and phase names
    that GeneralThermodynamics itself renames (ordered/disordered pairs) are outside this property.
"""
import numpy as np

PROPERTY = 'C17'
LEVEL = 'exploration'
RULE = ('synthetic: per input p in 1..4 phases, e in 1..3 elements, log-uniform mobilities 1e-30..1e-6 with in-column '
        'ratio <= 1e4 (<= 100 with undefined entries), Dirichlet fractions with zeros/tiny/one-hot, 0-50 % undefined entries (rows or single entries); '
        'by-name (stub): 1-5 database phases, 1-4 stable phases listed in random/db/alphabetical order, random operation '
        'histories over modes x arguments x five rules; real: random (x,T) in Fe-Cr-Ni / Fe-Cr / Ni-Cr-Al / Ni-Cr with the '
        'phase list in every order; model: HomogenizationModel over a linear profile. A case is non-trivial when it holds '
        'an input/point with >= 2 phases of positive fraction and distinct mobilities (by-name cases additionally need a '
        'post-processing call that changes the data); distinct by case description (seed, kind, number)')
REQUIRED_MONITORS = ['bounds', 'ordering', 'perm', 'single', 'labyrinth', 'undefined',
                     'byname', 'repeat', 'cache_intact', 'history']
_HP = 'diffusion/HomogenizationParameters.py:'
REACH = [_HP + 'wienerUpper', _HP + 'wienerLower', _HP + 'labyrinth', _HP + '_hashinShtrikmanGeneral',
         _HP + 'hashinShtrikmanUpper', _HP + 'hashinShtrikmanLower',
         _HP + '_postProcessPredefinedMatrixPhase', _HP + '_postProcessMajorityPhase', _HP + '_postProcessExcludePhases',
         _HP + 'computeHomogenizationFunction', _HP + 'HomogenizationParameters.setPostProcessFunction',
         _HP + 'HomogenizationParameters.setLabyrinthFactor',
         'diffusion/DiffusionParameters.py:_computeSingleMobility',
         'diffusion/DiffusionParameters.py:HashTable.retrieveFromHashTable',
         'diffusion/DiffusionParameters.py:HashTable.addToHashTable',
         'diffusion/DiffusionParameters.py:computeMobility',
         'diffusion/Homogenization.py:HomogenizationModel._getFluxes',
         'diffusion/Homogenization.py:HomogenizationModel.setMobilityPostProcessFunction']
MIN_NONTRIVIAL = {'quick': 1000, 'thorough': 20000}
CASE_TIMEOUT = 300
MAX_INCONCLUSIVE_FRACTION = 0.0
ASSUMPTIONS = ['mobility ratio inside one element column <= 1e4 (<= 100 and fractions >= 1e-2 where entries are undefined): conditioning of the Hashin-Shtrikman formula is not part of the statement',
               'undefined mobility is encoded as -1 (the encoding produced by _computeSingleMobility)',
               "by-name semantics: 'predefined' fills undefined entries from the row of the named phase, 'majority' from the row with the "
               "largest fraction, 'exclude' zeroes the fractions of (or removes) the rows of the named phases",
               'the expected value of a post-processed point is the real code with post-processing off on by-name transformed data']

TOL = 1e-9        # relative, DESIGN C17
TOL_SAME = 1e-12  # same arithmetic on both sides
UNDEFINED_SPREADS = (0.0, 0.3, 1.0)   # decades around the base value for matrices with undefined entries
UNDEFINED_FLOOR = 1e-2                # smallest positive fraction for matrices with undefined entries
N_SYN = 200       # synthetic inputs per case
N_SCEN = 4        # by-name scenarios per case
N_REAL = 8        # real points per case

COUNTS = {'quick': {'synthetic': 600, 'byname': 600, 'real': 96, 'model': 48},
          'thorough': {'synthetic': 12000, 'byname': 12000, 'real': 2000, 'model': 800}}

RULES = ['wiener upper', 'wiener lower', 'hashin upper', 'hashin lower', 'lab']
WIENER_LIKE = ['wiener upper', 'wiener lower', 'lab']
PHASE_POOL = ['ALPHA', 'BETA', 'GAMMA', 'DELTA', 'EPSILON', 'ZETA']
ELEMENT_POOL = ['AA', 'BB', 'CC', 'DD']

SYSTEMS = {
    'fecrni': ('FECRNI_DB', ['FE', 'CR', 'NI'], ['FCC_A1', 'BCC_A2', 'SIGMA']),
    'fecrni2': ('FECRNI_DB', ['FE', 'CR', 'NI'], ['FCC_A1', 'BCC_A2']),
    'fecr': ('FECRNI_DB', ['FE', 'CR'], ['BCC_A2', 'FCC_A1', 'SIGMA']),
    'nicral': ('NICRAL_TDB', ['NI', 'CR', 'AL'], ['FCC_A1', 'BCC_A2']),
    'nicr': ('NICRAL_TDB', ['NI', 'CR'], ['FCC_A1', 'BCC_A2']),
}


def plan(tier, seed):
    cases = []
    for kind in ('synthetic', 'byname', 'real', 'model'):
        for k in range(COUNTS[tier][kind]):
            c = {'kind': kind, 'k': k}
            if kind in ('real', 'model'):
                c['weight'] = 3.0
            cases.append(c)
    return cases


# ================================================================================================
# helpers

def _K():
    # the package re-exports a class of the same name, so "import ... as" would return the class
    import importlib
    return importlib.import_module('kawin.diffusion.HomogenizationParameters')


def _rule_funcs():
    HP = _K()
    return {'wu': HP.wienerUpper, 'wl': HP.wienerLower, 'hu': HP.hashinShtrikmanUpper,
            'hl': HP.hashinShtrikmanLower, 'lab': HP.labyrinth}


def _rel(a, b):
    """largest relative difference of two arrays (0 where both are the same inf / both NaN)."""
    a = np.asarray(a, dtype=float)
    b = np.asarray(b, dtype=float)
    if a.shape != b.shape:
        return float('inf')
    out = 0.0
    for u, v in zip(a.ravel(), b.ravel()):
        if u == v or (u != u and v != v):
            continue
        if not (np.isfinite(u) and np.isfinite(v)):
            return float('inf')
        out = max(out, abs(u - v) / max(abs(u), abs(v)))
    return out


def _bits(a, b):
    a = np.asarray(a)
    b = np.asarray(b)
    return a.shape == b.shape and a.dtype == b.dtype and a.tobytes() == b.tobytes()


# ================================================================================================
# part 1: averaging rules

def _draw_fractions(rng, p, floor):
    f = rng.dirichlet(np.ones(p) * rng.choice([0.2, 1.0, 5.0]))
    f = np.maximum(f, floor)
    kind = 'dirichlet'
    if p > 1:
        u = rng.random()
        if u < 0.12:
            f = np.zeros(p)
            f[rng.integers(p)] = 1.0
            kind = 'onehot'
        elif u < 0.40:
            z = rng.random(p) < 0.4
            if z.all():
                z[rng.integers(p)] = False
            f[z] = 0.0
            kind = 'zeros'
        elif u < 0.50 and floor < 1e-6:
            z = rng.random(p) < 0.4
            if z.all():
                z[rng.integers(p)] = False
            f[z] = rng.choice([1e-12, 1e-9, 1e-6])
            kind = 'tiny'
    return f / f.sum(), kind


def _draw_mobility(rng, p, e, spreads=(0.0, 0.3, 1.0, 2.0)):
    """log-uniform mobilities, +-spread decades around a base value (largest in-column ratio 10^(2 spread))"""
    spread = float(rng.choice(spreads))
    base = rng.uniform(-28.0, -8.0)
    m = 10.0 ** (base + rng.uniform(-spread, spread, (p, e)))
    if p > 1 and rng.random() < 0.1:
        m[rng.integers(p)] = m[rng.integers(p)]      # two phases with the same mobility
    return m


def _run_synthetic(case, R, rng):
    F = _rule_funcs()
    nt = 0
    for it in range(N_SYN):
        p = int(rng.integers(1, 5))
        e = int(rng.integers(1, 4))
        und = rng.choice(['none', 'none', 'rows', 'entries'])
        # undefined entries act as phases of (nearly) zero / infinite mobility, so the Hashin-Shtrikman result can be
        # far below its reference gamma0 and the cancellation is worse: ratio <= 100 and fractions >= 1e-2 there
        m = _draw_mobility(rng, p, e) if und == 'none' else _draw_mobility(rng, p, e, UNDEFINED_SPREADS)
        f, fkind = _draw_fractions(rng, p, 1e-12 if und == 'none' else UNDEFINED_FLOOR)
        mask = np.zeros((p, e), dtype=bool)
        if und == 'rows':
            mask[rng.random(p) < rng.uniform(0, 0.5), :] = True
        elif und == 'entries':
            mask = rng.random((p, e)) < rng.uniform(0, 0.5)
        perm = rng.permutation(p)
        n_lab = float(rng.choice([1.0, 2.0, rng.uniform(1.0, 2.0)]))
        if not mask.any():
            _check_defined(R, F, m, f, perm, n_lab, fkind)
            if np.count_nonzero(f > 0) >= 2 and any(len(set(m[f > 0, j])) > 1 for j in range(e)):
                nt += 1
        else:
            mm = np.where(mask, -1.0, m)
            _check_undefined(R, F, mm, f, perm, n_lab, und)
    R.observe('synthetic_inputs', N_SYN)
    R.observe('synthetic_nontrivial_inputs', nt)
    R.set_nontrivial(nt > 0)


def _rule(R, F, k, m, f, n_lab, monitor, **mech):
    """one guarded call of an averaging rule: the statement implies it returns an (e,) array"""
    try:
        v = np.asarray(F[k](m, f, labyrinth_factor=n_lab), dtype=float)
        if v.shape != (m.shape[1],):
            raise ValueError('rule returned shape %r for mobility %r' % (v.shape, m.shape))
        return v
    except Exception as exc:
        R.exception(monitor, exc, dict(mech, rule=k, kind='exception'), mobility=m, fractions=f, n_lab=n_lab)
        return None


def _check_defined(R, F, m, f, perm, n_lab, fkind):
    p, e = m.shape
    m0, f0 = m.copy(), f.copy()
    out = {k: _rule(R, F, k, m, f, n_lab, 'bounds') for k in ('wu', 'wl', 'hu', 'hl', 'lab')}
    lab1 = _rule(R, F, 'lab', m, f, 1, 'labyrinth')
    if lab1 is None or any(v is None for v in out.values()):
        return
    lo, hi = m.min(axis=0), m.max(axis=0)
    shape = {'n_listed': 'one' if p == 1 else 'many', 'fraction_kind': fkind}
    for k in ('wu', 'wl', 'hu', 'hl'):
        v = out[k]
        ok = v.shape == (e,) and bool(np.all(v >= lo * (1 - TOL)) and np.all(v <= hi * (1 + TOL)))
        if ok:
            R.worst('bounds_excess_rel', max(np.max((lo - v) / lo), np.max((v - hi) / hi)))
        R.check('bounds', ok, {'rule': k}, mobility=m, fractions=f, value=v, lo=lo, hi=hi, **shape)
    for a, b in (('wl', 'hl'), ('hl', 'hu'), ('hu', 'wu')):
        ok = bool(np.all(out[a] <= out[b] * (1 + TOL)))
        if ok:
            R.worst('ordering_excess_rel', np.max((out[a] - out[b]) / out[b]))
        R.check('ordering', ok, {'pair': a + '<=' + b}, mobility=m, fractions=f, lower=out[a], upper=out[b], **shape)
    if p > 1:
        mp, fp = m[perm], f[perm]
        for k in ('wu', 'wl', 'hu', 'hl', 'lab'):
            v2 = _rule(R, F, k, mp, fp, n_lab, 'perm', undefined=False)
            if v2 is None:
                continue
            d = _rel(out[k], v2)
            if d <= TOL:
                R.worst('perm_rel', d)
            R.check('perm', d <= TOL, {'rule': k, 'undefined': False}, mobility=m, fractions=f, perm=perm,
                    value=out[k], permuted=v2, **shape)
    present = np.flatnonzero(f > 0)
    if len(present) == 1:
        target = m[present[0]]
        for k in ('wu', 'wl', 'hu', 'hl', 'lab'):
            d = _rel(out[k], target)
            if d <= TOL:
                R.worst('single_rel', d)
            R.check('single', d <= TOL, {'rule': k, 'listed': 'one' if p == 1 else 'many'},
                    mobility=m, fractions=f, value=out[k], expected=target)
    d = _rel(lab1, out['wu'])
    R.check('labyrinth', d <= TOL_SAME, {'relation': 'lab(1)==wiener upper'}, mobility=m, fractions=f,
            lab=lab1, wiener_upper=out['wu'])
    ok = bool(np.all(out['lab'] <= out['wu'] * (1 + TOL)))
    R.check('labyrinth', ok, {'relation': 'lab(n)<=wiener upper'}, mobility=m, fractions=f, n=n_lab,
            lab=out['lab'], wiener_upper=out['wu'])
    if not (_bits(m, m0) and _bits(f, f0)):
        R.observe('rule_modified_its_arguments')


def _check_undefined(R, F, m, f, perm, n_lab, und):
    p, e = m.shape
    support = np.array([np.any((m[:, j] != -1) & (f > 0)) for j in range(e)])
    R.observe('undefined_no_support', int(np.count_nonzero(~support)))
    if not support.any():
        return
    for k in ('wu', 'wl', 'hu', 'hl', 'lab'):
        v = _rule(R, F, k, m, f, n_lab, 'undefined', what='call')
        if v is None:
            continue
        vs = v[support]
        ok = v.shape == (e,) and bool(np.all(np.isfinite(vs)) and np.all(vs >= 0))
        R.check('undefined', ok, {'rule': k, 'what': 'finite and >= 0', 'kind': und}, mobility=m, fractions=f, value=v,
                support=support)
        if p > 1 and ok:
            v2 = _rule(R, F, k, m[perm], f[perm], n_lab, 'undefined', what='call')
            if v2 is None:
                continue
            d = _rel(vs, v2[support])
            if d <= TOL:
                R.worst('perm_undefined_rel', d)
            R.check('undefined', d <= TOL, {'rule': k, 'what': 'permutation invariant', 'kind': und},
                    mobility=m, fractions=f, perm=perm, value=v, permuted=v2, support=support)


# ================================================================================================
# part 2: by-name oracle

def byname_variants(mode, arg, names, mob, fr):
    """Own reference model of the post-processing modes, keyed on the NAMES of the rows.
    Returns the list of admissible (names, mobility, fractions) after post-processing."""
    names = [str(n) for n in names]
    mob = np.array(mob, dtype=float)
    fr = np.array(fr, dtype=float)

    def filled(r):
        m = mob.copy()
        for j in range(m.shape[1]):
            m[mob[:, j] == -1, j] = mob[r, j]
        return (names, m, fr.copy())

    if mode == 'none':
        return [(names, mob, fr)]
    if mode == 'predefined':
        rows = [i for i, n in enumerate(names) if n == arg]
        return [filled(r) for r in rows] if rows else [(names, mob, fr)]
    if mode == 'majority':
        rows = set(np.flatnonzero(fr == fr.max()).tolist())
        if len(set(names)) < len(names):
            tot = {n: sum(fr[i] for i, q in enumerate(names) if q == n) for n in set(names)}
            best = max(tot.values())
            rows |= {i for i, n in enumerate(names) if tot[n] == best}
        return [filled(r) for r in sorted(rows)]
    if mode == 'exclude':
        hit = np.array([n in list(arg) for n in names], dtype=bool)
        f = fr.copy()
        f[hit] = 0
        out = [(names, mob, f)]
        if hit.any() and not hit.all():
            out.append(([n for n, h in zip(names, hit) if not h], mob[~hit], fr[~hit]))
        return out
    raise ValueError(mode)


def _changes_data(mode, arg, names, mob, fr):
    v = byname_variants(mode, arg, names, mob, fr)[0]
    return not (_bits(v[1], np.asarray(mob, dtype=float)) and _bits(v[2], np.asarray(fr, dtype=float)))


def _position_facts(mode, arg, db_phases, names):
    """structural facts for the known-findings classifier: does the row of every named phase among the
    stable phases coincide with its index in the database phase list?"""
    names = [str(n) for n in names]
    if mode == 'predefined':
        named = [arg]
    elif mode == 'exclude':
        named = list(arg)
    else:
        return {'named_present': True, 'position_consistent': True}
    present = [n for n in named if n in names]
    consistent = all((n in names) and names.index(n) == db_phases.index(n) and names.count(n) == 1 for n in named)
    return {'named_present': len(present) == len(named), 'position_consistent': bool(consistent)}


class StubTherm:
    """duck-typed thermodynamics: phase and element lists only; any backend query is a harness error"""

    def __init__(self, elements, phases):
        self.elements = list(elements) + ['VA']
        self.numElements = len(elements)
        self.phases = list(phases)
        self.mobCallables = {p: None for p in phases}
        self.mobility_correction = {}

    def getEq(self, *a, **k):
        raise RuntimeError('harness: cache miss in stub thermodynamics')

    def clearCache(self):
        pass


class Point:
    def __init__(self, x, T, names, mob, fr, mu):
        self.x = np.array(x, dtype=float)
        self.T = float(T)
        self.names = np.array([str(n) for n in names])
        self.mob = np.array(mob, dtype=np.float64)
        self.fr = np.array(fr, dtype=np.float64)
        self.mu = np.array(mu, dtype=np.float64)

    def data(self, names=None, mob=None, fr=None):
        from kawin.diffusion.DiffusionParameters import MobilityData
        return MobilityData(mobility=np.array(self.mob if mob is None else mob, dtype=np.float64),
                            phases=np.array(self.names if names is None else names),
                            phase_fractions=np.array(self.fr if fr is None else fr, dtype=np.float64),
                            chemical_potentials=self.mu.copy())


def _table(points, datas):
    """a fresh public HashTable pre-loaded (addToHashTable) with one MobilityData per point"""
    from kawin.diffusion.DiffusionParameters import HashTable
    ht = HashTable()
    for pt, d in zip(points, datas):
        ht.addToHashTable(pt.x, pt.T, d)
    if len(ht.cachedData) != len(points):
        raise RuntimeError('harness: cache keys of the points collide')
    return ht


def _image(ht):
    img = {}
    for k, d in ht.cachedData.items():
        img[k] = tuple((np.asarray(a).dtype.str, np.asarray(a).shape, np.asarray(a).tobytes())
                       for a in (d.mobility, d.phases, d.phase_fractions, d.chemical_potentials))
    return img


def _params(rule, n_lab, mode, arg, via_setters):
    HP = _K().HomogenizationParameters
    if via_setters:
        hp = HP()
        hp.setHomogenizationFunction(rule)
        hp.setLabyrinthFactor(n_lab)
        hp.setPostProcessFunction(mode, arg)
    else:
        hp = HP(rule, n_lab, 0.05, mode, arg)
    return hp


def _call(therm, points, hp, ht):
    """computeHomogenizationFunction for a list of points -> (N, e) array"""
    HP = _K()
    binary = therm.numElements == 2
    if len(points) == 1:
        x = float(points[0].x[0]) if binary else list(points[0].x)
        T = points[0].T
    else:
        x = np.array([pt.x[0] for pt in points]) if binary else np.array([pt.x for pt in points])
        T = np.array([pt.T for pt in points])
    avg, mu = HP.computeHomogenizationFunction(therm, x, T, hp, ht)
    return np.array(avg, dtype=float).reshape(len(points), len(therm.elements) - 1)


def _expected(therm, pt, rule, n_lab, mode, arg):
    """admissible answers for one point: real code, post-processing off, by-name transformed data"""
    outs = []
    hp = _params(rule, n_lab, 'none', None, False)
    for names, mob, fr in byname_variants(mode, arg, pt.names, pt.mob, pt.fr):
        if outs and mode == 'exclude' and rule in WIENER_LIKE:
            continue     # zero fraction and removed row coincide exactly for the sum rules
        ht = _table([pt], [pt.data(names, mob, fr)])
        outs.append(_call(therm, [pt], hp, ht)[0])
    return outs


def _matches(val, exps, tol):
    return min(_rel(val, e) for e in exps)


def _argkey(mode, arg):
    return None if arg is None else (list(arg) if isinstance(arg, (list, tuple)) else arg)


def _eval_point(R, therm, db_phases, pt, op, source):
    """isolated by-name check + repeat + cache image for one point and one operation.
    Returns (expected answers, isolated call returned the by-name answer?) - the history monitor only
    judges points whose isolated evaluation was right, so that it reports history dependence alone."""
    mode, arg, rule, n_lab, setters = op
    facts = _position_facts(mode, arg, db_phases, pt.names)
    mech = {'mode': mode, 'source': source, 'n_stable': 'single' if len(pt.names) == 1 else 'multi'}
    mech.update(facts)
    try:
        exps = _expected(therm, pt, rule, n_lab, mode, arg)
    except Exception:
        R.observe('reference_call_failed')      # the rule itself fails with post-processing off: part 1 reports it
        return [], False
    ht = _table([pt], [pt.data()])
    before = _image(ht)
    hp = _params(rule, n_lab, mode, arg, setters)
    R.observe('%s_calls_%s' % (source, mode))
    if not facts['position_consistent']:
        R.observe('%s_calls_position_inconsistent' % source)
    try:
        val = _call(therm, [pt], hp, ht)[0]
    except Exception as exc:
        if mode == 'predefined' and not facts['named_present']:
            R.observe('predefined_absent_exception')
            return exps, False
        R.exception('byname', exc, dict(mech, kind='exception'), rule=rule, arg=_argkey(mode, arg),
                    db_phases=db_phases, stable=list(pt.names), mobility=pt.mob, fractions=pt.fr)
        return exps, False
    d = _matches(val, exps, TOL_SAME)
    if d <= TOL_SAME:
        R.worst('byname_rel', d)
    good = R.check('byname', d <= TOL_SAME, dict(mech, kind='value'), rule=rule, arg=_argkey(mode, arg), db_phases=db_phases,
                   stable=list(pt.names), mobility=pt.mob, fractions=pt.fr, value=val, expected=exps, n_lab=n_lab)
    after = _image(ht)
    R.check('cache_intact', before == after, {'mode': mode, 'source': source},
            rule=rule, arg=_argkey(mode, arg), stable=list(pt.names), mobility=pt.mob, fractions=pt.fr,
            cached_mobility=list(ht.cachedData.values())[0].mobility,
            cached_fractions=list(ht.cachedData.values())[0].phase_fractions)
    try:
        val2 = _call(therm, [pt], hp, ht)[0]
        R.check('repeat', _bits(val, val2), {'mode': mode, 'source': source}, rule=rule, first=val, second=val2)
    except Exception as exc:
        R.exception('repeat', exc, {'mode': mode, 'source': source}, rule=rule)
    return exps, bool(good)


EDITING = ('predefined', 'majority', 'exclude')


def _history_step(R, therm, points, exps_per_point, iso_ok, op, prev_modes, ht, source):
    """prev_modes: modes of the operations already applied to this cache (structural fact for the classifier:
    a history violation with edited_before=False cannot come from post-processing editing cached rows)"""
    mode, arg, rule, n_lab, setters = op
    mech = {'mode': mode, 'prev_mode': prev_modes[-1] if prev_modes else 'start',
            'edited_before': any(q in EDITING for q in prev_modes), 'source': source}
    hp = _params(rule, n_lab, mode, arg, setters)
    before = _image(ht)
    try:
        vals = _call(therm, points, hp, ht)
    except Exception as exc:
        if all(iso_ok):
            R.exception('history', exc, mech, rule=rule, arg=_argkey(mode, arg))
        else:
            R.observe('history_call_skipped_isolated_failed')
        return
    for i, pt in enumerate(points):
        if not iso_ok[i]:
            continue
        d = _matches(vals[i], exps_per_point[i], TOL_SAME)
        R.check('history', d <= TOL_SAME, mech, rule=rule, arg=_argkey(mode, arg), stable=list(pt.names),
                mobility=pt.mob, fractions=pt.fr, value=vals[i], expected=exps_per_point[i])
    R.check('cache_intact', before == _image(ht), {'mode': mode, 'source': source + '-history'}, rule=rule,
            arg=_argkey(mode, arg))


def _draw_op(rng, db_phases, modes=('none', 'predefined', 'majority', 'exclude'), weights=(0.1, 0.35, 0.2, 0.35)):
    mode = str(rng.choice(modes, p=weights))
    arg = None
    if mode == 'predefined':
        arg = str(rng.choice(db_phases))
    elif mode == 'exclude':
        k = int(rng.integers(0, len(db_phases) + 1))
        arg = [str(s) for s in rng.permutation(db_phases)[:k]]
    rule = str(rng.choice(RULES))
    n_lab = float(rng.choice([1.0, 2.0, rng.uniform(1.0, 2.0)]))
    return (mode, arg, rule, n_lab, bool(rng.random() < 0.5))


def _nontrivial_point(pt):
    pos = pt.fr > 0
    return np.count_nonzero(pos) >= 2 and any(len(set(pt.mob[pos, j])) > 1 for j in range(pt.mob.shape[1]))


def _run_byname(case, R, rng):
    nt = 0
    for s in range(N_SCEN):
        n_db = int(rng.integers(1, 6))
        db = [str(n) for n in rng.permutation(PHASE_POOL)[:n_db]]
        ne = int(rng.integers(2, 4))
        els = [str(n) for n in rng.permutation(ELEMENT_POOL)[:ne]]
        therm = StubTherm(els, db)
        npts = int(rng.integers(2, 7))
        points = []
        grid = rng.permutation(900)[:npts * (ne - 1)].reshape(npts, ne - 1)
        for i in range(npts):
            x = (grid[i] + 50) / 1000.0 / (ne - 1)
            T = float(rng.integers(600, 1600)) + float(rng.choice([0.0, 0.15, 0.5]))
            ns = int(rng.integers(1, min(4, n_db) + 1))
            sub = [str(n) for n in rng.permutation(db)[:ns]]
            order = rng.choice(['random', 'db', 'sorted'])
            if order == 'db':
                sub = [n for n in db if n in sub]
            elif order == 'sorted':
                sub = sorted(sub)
            mob = _draw_mobility(rng, ns, ne)
            und = rng.choice(['none', 'rows', 'rows', 'entries'])
            if und == 'rows':
                mob[rng.random(ns) < 0.5, :] = -1.0
            elif und == 'entries':
                mob[rng.random((ns, ne)) < 0.4] = -1.0
            fr = np.maximum(rng.dirichlet(np.ones(ns) * rng.choice([0.3, 1.0, 5.0])), 1e-3)
            fr = fr / fr.sum()
            points.append(Point(x, T, sub, mob, fr, rng.normal(size=ne) * 1e4))
        ops = [_draw_op(rng, db) for _ in range(int(rng.integers(4, 9)))]
        ht_hist = _table(points, [pt.data() for pt in points])
        prev = []
        discriminating = False
        for op in ops:
            exps, ok = [], []
            for pt in points:
                e_, o_ = _eval_point(R, therm, db, pt, op, 'stub')
                exps.append(e_)
                ok.append(o_)
                if _nontrivial_point(pt) and _changes_data(op[0], op[1], pt.names, pt.mob, pt.fr):
                    discriminating = True
            _history_step(R, therm, points, exps, ok, op, prev, ht_hist, 'stub')
            prev.append(op[0])
        R.observe('stub_scenarios')
        R.observe('stub_points', npts)
        nt += int(discriminating)
    R.set_nontrivial(nt > 0)


# ------------------------------------------------------------------------------------------------
# real databases

_THERM = {}


def _get_therm(system, order):
    key = (system, tuple(order))
    if key not in _THERM:
        import kawin.tests.datasets as D
        from kawin.thermo import GeneralThermodynamics
        dbname, els, phases = SYSTEMS[system]
        ph = [phases[i] for i in order]
        _THERM[key] = (GeneralThermodynamics(getattr(D, dbname), list(els), list(ph)), ph)
    return _THERM[key]


def _draw_system(rng):
    system = str(rng.choice(list(SYSTEMS)))
    nph = len(SYSTEMS[system][2])
    order = [int(i) for i in rng.permutation(nph)]
    return system, order


def _real_point(R, rng, therm, nel):
    """one random (x, T) with the per-phase data observed from the real computeMobility"""
    from kawin.diffusion.DiffusionParameters import computeMobility, HashTable
    x = rng.dirichlet(np.ones(nel)) * 0.94 + 0.02
    x = np.round(x[1:], 3)
    T = float(rng.integers(850, 1500))
    ht = HashTable()
    try:
        md = computeMobility(therm, x if nel > 2 else float(x[0]), T, ht)
    except Exception:
        R.observe('rejected')
        return None, None
    pt = Point(x, T, md.phases[0], md.mobility[0], md.phase_fractions[0], md.chemical_potentials[0])
    if not (np.all(np.isfinite(pt.fr)) and np.all(pt.fr > 0) and len(ht.cachedData) == 1):
        R.observe('rejected')
        return None, None
    return pt, ht


def _real_ops(rng, db):
    ops = [('none', None)]
    ops += [('predefined', p) for p in db]
    ops += [('majority', None)]
    ops += [('exclude', [p]) for p in db]
    ops += [('exclude', [])]
    if len(db) > 2:
        ops += [('exclude', [str(s) for s in rng.permutation(db)[:2]])]
    out = []
    for i in rng.permutation(len(ops)):
        mode, arg = ops[int(i)]
        out.append((mode, arg, str(rng.choice(RULES)), float(rng.choice([1.0, 2.0, rng.uniform(1.0, 2.0)])),
                    bool(rng.random() < 0.5)))
    return out


def _run_real(case, R, rng):
    from kawin.diffusion.DiffusionParameters import computeMobility
    system, order = _draw_system(rng)
    therm, db = _get_therm(system, order)
    nel = therm.numElements
    R.info['system'] = system
    R.info['phases'] = db
    nt = 0
    seen = {}
    for i in range(N_REAL):
        pt, ht_hist = _real_point(R, rng, therm, nel)
        if pt is None:
            continue
        key = '+'.join(pt.names)
        seen[key] = seen.get(key, 0) + 1
        if len(set(pt.names)) < len(pt.names):
            R.observe('real_points_duplicate_phase')
        prev = []
        for op in _real_ops(rng, db):
            exps, ok = _eval_point(R, therm, db, pt, op, 'real')
            _history_step(R, therm, [pt], [exps], [ok], op, prev, ht_hist, 'real')
            prev.append(op[0])
        # uncached path (hashTable=None): fresh equilibrium inside the call
        _nocache(R, rng, therm, db, pt, nel)
        R.observe('real_points')
        if _nontrivial_point(pt):
            nt += 1
    R.info['stable_sets'] = seen
    R.set_nontrivial(nt > 0)


def _nocache(R, rng, therm, db, pt, nel):
    from kawin.diffusion.DiffusionParameters import computeMobility
    xarg = pt.x if nel > 2 else float(pt.x[0])

    def same_as_pristine():
        try:
            md = computeMobility(therm, xarg, pt.T)
        except Exception:
            return False
        return (list(md.phases[0]) == list(pt.names) and _bits(md.mobility[0], pt.mob)
                and _bits(np.asarray(md.phase_fractions[0], dtype=np.float64), pt.fr))
    for op in _real_ops(rng, db)[:4]:
        mode, arg, rule, n_lab, setters = op
        facts = _position_facts(mode, arg, db, pt.names)
        mech = {'mode': mode, 'source': 'real-nocache', 'n_stable': 'single' if len(pt.names) == 1 else 'multi'}
        mech.update(facts)
        if not same_as_pristine():
            R.observe('nocache_equilibrium_not_reproducible')
            return
        hp = _params(rule, n_lab, mode, arg, setters)
        try:
            val = _call(therm, [pt], hp, None)[0]
        except Exception as exc:
            if mode == 'predefined' and not facts['named_present']:
                R.observe('predefined_absent_exception')
                continue
            from vlib.core import kawin_frame
            fr = kawin_frame(exc.__traceback__)
            if fr is None or fr[0] != 'diffusion/HomogenizationParameters.py':
                R.observe('rejected')        # the backend equilibrium failed inside the call: outside this property
                continue
            R.exception('byname', exc, dict(mech, kind='exception'), rule=rule, arg=_argkey(mode, arg), db_phases=db,
                        stable=list(pt.names), x=pt.x, T=pt.T)
            continue
        if not same_as_pristine():
            R.observe('nocache_equilibrium_not_reproducible')
            return
        try:
            exps = _expected(therm, pt, rule, n_lab, mode, arg)
        except Exception:
            R.observe('reference_call_failed')
            continue
        d = _matches(val, exps, TOL)
        if d <= TOL:
            R.worst('byname_nocache_rel', d)
        R.check('byname', d <= TOL, dict(mech, kind='value'), rule=rule, arg=_argkey(mode, arg), db_phases=db,
                stable=list(pt.names), x=pt.x, T=pt.T, value=val, expected=exps)


# ------------------------------------------------------------------------------------------------
# HomogenizationModel

def _make_model(system, db, therm, prof, T, N):
    from kawin.diffusion import HomogenizationModel
    from kawin.diffusion.DiffusionParameters import CompositionProfile
    els = list(SYSTEMS[system][1])
    cp = CompositionProfile()
    for el, (a, b) in zip(els[1:], prof):
        cp.addLinearCompositionStep(el, a, b)
    m = HomogenizationModel([-5e-4, 5e-4], N, els, list(db), compositionProfile=cp)
    m.setTemperature(T)
    m.setThermodynamics(therm)
    m.setup()
    return m


def _model_fluxes(m):
    return np.array(m._getFluxes(m.t, [m.x]), dtype=float)


def _set_mode(m, op):
    mode, arg, rule, n_lab, _ = op
    m.setMobilityFunction(rule)
    m.setLabyrinthFactor(n_lab)
    m.setMobilityPostProcessFunction(mode, arg)


def _run_model(case, R, rng):
    from kawin.diffusion.DiffusionParameters import computeMobility, HashTable
    system = str(rng.choice(['fecrni', 'fecrni', 'fecrni2', 'nicral']))
    order = [int(i) for i in rng.permutation(len(SYSTEMS[system][2]))]
    therm, db = _get_therm(system, order)
    N = int(rng.integers(5, 9))
    T = float(rng.integers(950, 1450))
    # a linear profile through random end points (two-phase and single-phase stretches)
    a = rng.dirichlet(np.ones(3)) * 0.9 + 0.03
    b = rng.dirichlet(np.ones(3)) * 0.9 + 0.03
    prof = [(round(float(a[1]), 3), round(float(b[1]), 3)), (round(float(a[2]), 3), round(float(b[2]), 3))]
    R.info.update({'system': system, 'phases': db, 'N': N, 'T': T, 'profile': prof})
    base = _make_model(system, db, therm, prof, T, N)
    Tz = base.temperatureParameters(base.z, base.t)
    try:
        md = computeMobility(therm, base.x.T, Tz, HashTable())
    except Exception:
        R.observe('rejected')
        R.set_nontrivial(False)
        return
    points = [Point(base.x[:, i], Tz[i], md.phases[i], md.mobility[i], md.phase_fractions[i], md.chemical_potentials[i])
              for i in range(N)]
    try:
        _table(points, [pt.data() for pt in points])
    except RuntimeError:
        R.observe('rejected')
        R.set_nontrivial(False)
        return

    def fresh(datas):
        m = _make_model(system, db, therm, prof, T, N)
        m.hashTable = _table(points, datas)
        return m
    hist = fresh([pt.data() for pt in points])
    prev = []
    nops = 0
    for _ in range(int(rng.integers(3, 6))):
        op = _draw_op(rng, db, weights=(0.15, 0.35, 0.15, 0.35))
        mode, arg, rule, n_lab, _s = op
        if mode == 'exclude' and rule not in WIENER_LIKE:
            op = (mode, arg, str(rng.choice(WIENER_LIKE)), n_lab, _s)
            mode, arg, rule, n_lab, _s = op
        variants = [byname_variants(mode, arg, pt.names, pt.mob, pt.fr) for pt in points]
        if mode != 'exclude' and any(len(v) > 1 for v in variants):
            R.observe('model_op_skipped_ambiguous')
            continue
        facts = [_position_facts(mode, arg, db, pt.names) for pt in points]
        mech = {'mode': mode, 'source': 'model',
                'n_stable': 'single' if all(len(pt.names) == 1 for pt in points) else 'multi',
                'named_present': all(f['named_present'] for f in facts),
                'position_consistent': all(f['position_consistent'] for f in facts)}
        exp_model = fresh([pt.data(*v[0]) for pt, v in zip(points, variants)])
        _set_mode(exp_model, ('none', None, rule, n_lab, None))
        try:
            expected = _model_fluxes(exp_model)
        except Exception:
            R.observe('reference_call_failed')
            continue
        iso = fresh([pt.data() for pt in points])
        _set_mode(iso, op)
        before = _image(iso.hashTable)
        nops += 1
        R.observe('model_calls_%s' % mode)
        iso_ok = iso_good = False
        try:
            val = _model_fluxes(iso)
            iso_ok = True
        except Exception as exc:
            if mode == 'predefined' and not mech['named_present']:
                R.observe('predefined_absent_exception')
            else:
                R.exception('byname', exc, dict(mech, kind='exception'), rule=rule, arg=_argkey(mode, arg), db_phases=db,
                            stable=[list(pt.names) for pt in points])
        if iso_ok:
            d = _rel(val, expected)
            iso_good = R.check('byname', d <= TOL_SAME, dict(mech, kind='value'), rule=rule, arg=_argkey(mode, arg), db_phases=db,
                               stable=[list(pt.names) for pt in points], value=val, expected=expected)
            R.check('cache_intact', before == _image(iso.hashTable), {'mode': mode, 'source': 'model'}, rule=rule,
                    arg=_argkey(mode, arg))
            try:
                R.check('repeat', _bits(val, _model_fluxes(iso)), {'mode': mode, 'source': 'model'}, rule=rule)
            except Exception as exc:
                R.exception('repeat', exc, {'mode': mode, 'source': 'model'}, rule=rule)
        # the same model object through a history of mode changes
        _set_mode(hist, op)
        hmech = {'mode': mode, 'prev_mode': prev[-1] if prev else 'start',
                 'edited_before': any(q in EDITING for q in prev), 'source': 'model'}
        try:
            hval = _model_fluxes(hist)
            if iso_ok and iso_good:
                R.check('history', _rel(hval, expected) <= TOL_SAME, hmech, rule=rule, arg=_argkey(mode, arg),
                        value=hval, expected=expected)
        except Exception as exc:
            if iso_ok and iso_good:
                R.exception('history', exc, hmech, rule=rule, arg=_argkey(mode, arg))
            else:
                R.observe('history_call_skipped_isolated_failed')
        prev.append(mode)
    R.observe('model_ops', nops)
    R.set_nontrivial(nops > 0 and any(_nontrivial_point(pt) for pt in points))


# ================================================================================================

def run_case(case, R):
    from vlib.core import case_rng
    rng = case_rng(case['seed'], PROPERTY, case['idx'])
    kind = case['kind']
    if kind == 'synthetic':
        _run_synthetic(case, R, rng)
    elif kind == 'byname':
        _run_byname(case, R, rng)
    elif kind == 'real':
        _run_real(case, R, rng)
    elif kind == 'model':
        _run_model(case, R, rng)
    else:
        raise ValueError(kind)


MANIFEST = {
    'text': 'The five averaging rules are called on random (phases x elements) mobility matrices and simplex fraction vectors and the '
            'stated relations (bounds, ordering, permutation invariance, single phase, labyrinth) are asserted; the post-processing '
            "modes 'predefined', 'majority', 'exclude' are driven through computeHomogenizationFunction / HomogenizationModel with "
            'the public cache pre-loaded with synthetic or real (Fe-Cr-Ni, Fe-Cr, Ni-Cr-Al, Ni-Cr) per-phase data and compared with a '
            'by-name reference model; repeated evaluations, operation histories with mode changes and the bit image of cached '
            'entries are checked.',
    'note': 'trusted: the by-name reference model in the check (byname_variants); the expected value is the real code with '
            'post-processing off on by-name transformed data; sampled inputs, mobility ratio per column <= 1e4',
    'technique': 'reference-model / metamorphic monitor over paired executions and operation histories on one cache',
}
