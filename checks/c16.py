"""C16 - elastic strain energy is a positive, volume-proportional quadratic form.

All monitors observe the real code in kawin/precipitation/parameters/ElasticFactors.py and LebedevNodes.py
through its public API (StrainEnergy, the description objects, the module-level tensor utilities).

Two quadratures.  Every relation that involves the sphere integral is evaluated with
  quad = repo-low | repo-mid | repo-high   the repository's own node sets (setLebedevIntegration, as users get them)
  quad = gl                                a harness-supplied Gauss-Legendre(cos theta) x uniform-azimuth product rule
                                           injected through the description's public attributes midPhiGrid,
                                           midThetaGrid, midWeights, dA (exact for polynomials of degree <= 95)
The gl evaluation isolates tensor algebra / rotation handling / energy formulas from the node tables; the
repo-* evaluation is what decides the quadrature clauses for the shipped nodes.  `quad` is part of every mech,
and for repo-* quadratures `node_defect` names the classes of stored orbits whose expansion by loadPoints is not
a complete octahedral orbit (attribution only: obtained by slicing the output of the real loadPoints along the
table entries), so that a defect of the node tables is not blamed on the tensor algebra and vice versa.

Monitors (tolerances are constants; except for axis_permutation/cyclic-xyz all relations below are algebraic identities
in the nodes/weights, so the oracle tolerance is rounding level, not quadrature level; worst residuals measured on the
tree with the two proposed fixes are listed in the final report / evidence file).  Differences of energies are measured
relative to U0 = V/2 eps:C:eps (the natural scale of the quadratic form), not relative to the energy itself: with an
inaccurate quadrature the computed energy can pass through zero, where a relative comparison is ill-conditioned
(seen: E/U0 = -9e-5 with the order-53 nodes, |E(s r) - s^3 E(r)| = 7e-14 U0 = 7e-10 |E|):
  nonneg             compute() (inhomogeneous, Bohm) and strainEnergyEllipsoid (homogeneous) >= -1e-12 * U0, U0 = V/2 eps:C:eps,
                     also for elongated spheroids up to aspect ratio 100 (the default upper bound of eqAR_byGR); mech
                     carries the aspect-ratio class and `quadrature_resolved`: whether the error
                     dq = |1 - sum_n w_n abc/beta_n^3 / 4pi| of the volume normalisation on the same nodes is <= 1e-3
                     (for positive weights the homogeneous energy is U0 (1 - sum g) + sum g_n B(n), B(n) >= 0: a negative
                     value needs dq >= E_true/U0, which is >= 0.03 in the sampled space; a negative energy with a resolved
                     quadrature cannot be a quadrature effect)
  size_scaling       E(s r) = s^3 E(r)                                         1e-10 U0
  strain_scaling     E(k eps) = k^2 E(eps), k of either sign                    1e-10 U0
  rank_agree         6x6 formulas = 4th-rank formulas (homogeneous and inhomogeneous)   1e-9 U0
  inverse_agree      'quick' (Cramer) = 'numpy' 3x3 inversion: Eshelby tensor (rel) and energies (U0)   1e-10
  homog_limit        inhomogeneous formula = homogeneous formula when the precipitate stiffness is unset or set to
                     the same constants (and the same rotation)                1e-9 U0
  closed_form_sphere isotropic matrix, sphere, dilatational eigenstrain: E = 2G(1+nu)/(1-nu) eps^2 V through every
                     ellipsoid formula and through the spherical approximation (SphericalEnergyDescription)   rel 1e-9
                     (the integrand is a polynomial of degree 4 in n: every rule integrates it exactly)
  eshelby_textbook   sphere in an isotropic matrix: S_ijkl = (5nu-1)/(15(1-nu)) d_ij d_kl + (4-5nu)/(15(1-nu)) (d_ik d_jl + d_il d_jk)
                     (S1111 = (7-5nu)/(15(1-nu)), S1122, S1212; all 81 components)       abs 1e-9
  rotation_invariance isotropic matrix: energy with an arbitrary matrix rotation = energy without       1e-9 U0
  axis_permutation   isotropic matrix (precipitate unset/same/isotropic): turning the particle - semi-axes and eigenstrain
                     together - by 90 degrees relative to the matrix leaves the energy unchanged (this is how 'the energy does
                     not depend on the orientation of the matrix axes' becomes observable: setRotationMatrix is a no-op for an
                     isotropic tensor).  rot90-about-z (a<->b) is an exact symmetry of every node set used here (all are
                     built by adding k*90 deg to phi): |dE| <= 1e-9 U0.  cyclic-xyz is an exact symmetry of a Lebedev rule
                     and holds to quadrature accuracy for the product rule (aspect ratio <= 6 only): |dE| <= 1e-4 U0
                     (measured floor on the injected rule see worst 'axis_permutation_cyclic-xyz_gl'; a swapped axis changes
                     the energy by 1e-2..1e-1 U0)
  setter_order       cubic stiffness: (rotation, stiffness) and (stiffness, rotation) give the same rotated tensor
                     and the same energy; for the matrix and for the precipitate         rel 1e-12
  rotation_formula   rotateRank2Tensor / rotateRank4Tensor equal their documented formulas T'_ij = r_il r_jk T_lk,
                     T'_ijkl = r_im r_jn r_ko r_lp T_mnop, and StrainEnergy.update stores that tensor     rel 1e-12
  quad_weights       8 dA sum w = 4 pi for each order                                       rel 1e-11
  quad_monomials     each order integrates every monomial x^a y^b z^c, a+b+c <= order (53, 83, 131) exactly:
                     |Q - I| <= 1e-11 * 4 pi * max_sphere|x^a y^b z^c|
                     (1e-11: the tables store weights with 15 decimals: worst case 5810 * 5e-16 = 2.9e-12; measured
                     2.8e-13 on a correctly expanded table)
  rank_roundtrip     convert2To4rankTensor / convert4To2rankTensor / vector <-> 3x3 round-trip exactly
  moduli_roundtrip   all 15 pairs of (E, nu, G, lam, K, M): moduliToC(pair) equals the isotropic tensor of (lam, G) and
                     the moduli recovered from it equal the input pair; also through setModuli/setModuliPrecipitate   rel 1e-9
  eqar_agree         eqAR_byGR (default bracket) and eqAR_bySearch differ by at most (grid spacing of the cached search +
                     2e-3), asserted when the objective evaluated with a quadrature that resolves the whole bracket is
                     unimodal (otherwise 'eqar_true_objective_multimodal', excluded); mech records whether the objective
                     as computed with the quadrature under test is unimodal and whether it contains negative energies

  eigenstrain_ownership  the energy is a function of the object's OWN stiffness / eigenstrain / semi-axes: for two objects that
                     live at the same time (both fully specified before either is evaluated; eigenstrain eps and k eps in
                     independently drawn input forms scalar / 3-vector / 3x3) E_B = k^2 E_A (1e-10 U0) and each equals the
                     energy of the same specification evaluated in isolation before the other object existed (bitwise, same
                     arithmetic; 1e-12 U0); an object that was never given an eigenstrain has energy exactly 0 while another
                     object holds one (k = 0 of the quadratic scaling); the energy of a bystander object is unchanged
                     (1e-12 U0) by setEigenstrain calls on another object
  eigenstrain_history    re-specification on one object (random histories of 2-5 setEigenstrain calls, scalar -> vector -> tensor
                     -> vector ...): the energy equals that of a fresh object given only the last specification as an
                     explicit 3x3 tensor (1e-12 U0; mech: forms of the last two calls and whether the stored tensor
                     params.eigenstrain equals the last specification); the arrays handed to setEigenstrain are bitwise
                     unchanged after all later calls (clause 'caller array unmodified': a caller array that is rewritten
                     changes the eigenstrain the user believes to have set)

Deliberately not asserted (statement silent): the applied-stress variant (strainEnergyEllipsoidWithStress,
setAppliedStress); the cuboidal approximation; the Voigt ordering convention itself; E-M moduli pair for nu < 0
(two admissible materials share the pair: counted as 'moduli_pair_ambiguous'); eqAR when both searches end at the
upper bound or the true objective is multimodal; frame indifference for anisotropic matrices.
For aspect ratios > 6 the injected rule is a 400 x 32 product rule (axisymmetric spheroids only), so that 'gl' stays
a converged reference up to aspect ratio 100.
In all energy cases rotations are supplied BEFORE the stiffness, so that the setter-order defect is seen by
setter_order only.
Out of reach of the stated relations: a wrong dependence of the Eshelby tensor on the semi-axes that is consistent
with all symmetries and scalings above (e.g. another degree-1 homogeneous, permutation-covariant function of the
semi-axes in place of beta) - the statement gives closed forms for the sphere only.
The harness keeps a bounded number of violations per monitor and case (3 per mech, 40 per monitor); inside a case the
injected rule is evaluated first and the least resolved shipped order last, so that a failure of the tensor algebra is
never crowded out by the recorded node-table findings.
"""
import itertools
import math

import numpy as np

PROPERTY = 'C16'
LEVEL = 'exploration'
RULE = ('random parameter sets: matrix {isotropic, cubic aligned, cubic rotated} x precipitate {unset, same constants, '
        'isotropic, cubic aligned, cubic rotated} x eigenstrain {dilatational, diagonal, full symmetric with shear} x '
        'semi-axes {sphere, needle, plate, triaxial; aspect ratio 1.05-6, 30 % of the spheroids 6-100} x 4 quadratures '
        '(3 shipped orders + injected Gauss-Legendre product rule); plus node-table cases (one per order and the harness rule), modulus-pair bundles, '
        'tensor-conversion bundles, equilibrium-aspect-ratio cases and ownership/history cases (coexisting objects, '
        're-specification histories of the eigenstrain in all input forms). An energy case is non-trivial when the Zener '
        'ratio of matrix or precipitate differs from 1 by > 5 % or the aspect ratio is > 1.05; the other kinds are '
        'non-trivial when their monitors were evaluated; distinct by the hash of the drawn configuration')
REQUIRED_MONITORS = ['nonneg', 'size_scaling', 'strain_scaling', 'rank_agree', 'inverse_agree', 'homog_limit',
                     'closed_form_sphere', 'eshelby_textbook', 'rotation_invariance', 'axis_permutation', 'setter_order', 'rotation_formula',
                     'quad_weights', 'quad_monomials', 'rank_roundtrip', 'moduli_roundtrip', 'eqar_agree',
                     'eigenstrain_ownership', 'eigenstrain_history']
_EF = 'precipitation/parameters/ElasticFactors.py:'
REACH = [_EF + 'EllipsoidalEnergyDescription.sphInt', _EF + 'EllipsoidalEnergyDescription.Dijkl',
         _EF + 'EllipsoidalEnergyDescription.Sijmn', _EF + 'EllipsoidalEnergyDescription.strainEnergyBohm',
         _EF + 'EllipsoidalEnergyDescription.strainEnergyEllipsoid',
         _EF + 'EllipsoidalEnergyDescription.strainEnergyEllipsoid2ndRank',
         _EF + 'EllipsoidalEnergyDescription.strainEnergyBohm2ndRank',
         _EF + 'EllipsoidalEnergyDescription._ohm_quickInverse', _EF + 'EllipsoidalEnergyDescription._ohm_npinv',
         _EF + 'SphericalEnergyDescription._Khachaturyan', _EF + 'moduliToC', _EF + 'convert2To4rankTensor',
         _EF + 'convert4To2rankTensor', _EF + 'invert4rankTensor', _EF + 'rotateRank4Tensor', _EF + 'rotateRank2Tensor',
         _EF + 'StrainEnergy.update', _EF + 'StrainEnergy.setEigenstrain', _EF + 'StrainEnergy.eqAR_byGR', _EF + 'StrainEnergy.eqAR_bySearch',
         'precipitation/parameters/LebedevNodes.py:loadPoints']
MIN_NONTRIVIAL = {'quick': 200, 'thorough': 4000}
CASE_TIMEOUT = 600
MAX_INCONCLUSIVE_FRACTION = 0.0
ASSUMPTIONS = ['universally quantified statement is sampled (random stable stiffness pairs, eigenstrains, semi-axes, rotations)',
               'closed forms (isotropic sphere energy, isotropic-sphere Eshelby tensor, monomial integrals over the sphere) are the reference',
               'harness Gauss-Legendre x uniform-azimuth rule is checked against the same monomial oracle before it is trusted',
               'rotation formulas asserted are the ones documented in the docstrings of rotateRank2Tensor / rotateRank4Tensor']

TOL_SCALE = 1e-10
TOL_ALG = 1e-9
TOL_INV = 1e-10
TOL_ORDER = 1e-12
TOL_QUAD = 1e-11
GL_NT, GL_NPHI = 48, 96
GLX_NT, GLX_NPHI = 400, 32
DQ_RESOLVED = 1e-3
TOL_PERM = 1e-4
PERMUTATIONS = {'rot90-about-z': np.array([[0., -1, 0], [1, 0, 0], [0, 0, 1]]),
                'cyclic-xyz': np.array([[0., 0, 1], [1, 0, 0], [0, 1, 0]])}
ORDERS = {'repo-low': ('low', 53), 'repo-mid': ('mid', 83), 'repo-high': ('high', 131)}
QUADS = ['repo-low', 'repo-mid', 'repo-high', 'gl']
# evaluation order inside a case: the harness keeps a bounded number of violations per monitor and case, so the quadrature
# whose failure would be new information (injected rule = tensor algebra) comes first, the least resolved shipped order last
QUADS_EVAL = ['gl', 'repo-high', 'repo-mid', 'repo-low']
VOIGT_PAIRS = [(0, 0), (1, 1), (2, 2), (1, 2), (0, 2), (0, 1)]
ORBIT_SIZE = {'A1': 6, 'A2': 12, 'A3': 8, 'B': 24, 'C': 24, 'D': 48}


# ------------------------------------------------------------------------------------------------ plan
def plan(tier, seed):
    n = {'quick': (300, 6, 6, 24, 40), 'thorough': (6000, 40, 40, 240, 600)}[tier]
    cases = []
    for q in QUADS:
        cases.append({'kind': 'nodes', 'quad': q, 'weight': 30.0 if q == 'repo-high' else 10.0})
    for i in range(n[3]):
        cases.append({'kind': 'eqar', 'n': i, 'weight': 8.0})
    for i in range(n[1]):
        cases.append({'kind': 'moduli', 'n': i, 'weight': 1.0})
    for i in range(n[2]):
        cases.append({'kind': 'tensor', 'n': i, 'weight': 1.0})
    for i in range(n[0]):
        cases.append({'kind': 'energy', 'n': i, 'weight': 1.0})
    # appended last so that the indices (= random streams) of the kinds above stay what they were
    for i in range(n[4]):
        cases.append({'kind': 'ownership', 'n': i, 'weight': 0.5})
    return cases


# ------------------------------------------------------------------------------------------------ helpers
def _rel(a, b, floor=0.0):
    a = np.asarray(a, dtype=float)
    b = np.asarray(b, dtype=float)
    den = max(float(np.max(np.abs(a))), float(np.max(np.abs(b))), floor, 1e-300)
    d = float(np.max(np.abs(a - b)))
    if d != d:
        return float('inf')
    return d / den


def gl_rule(nt=GL_NT, nphi=GL_NPHI):
    """Gauss-Legendre in cos(theta) x uniform mid-point in phi; weights sum to 4 pi."""
    x, w = np.polynomial.legendre.leggauss(nt)
    theta = np.arccos(x)
    phi = 2 * np.pi * (np.arange(nphi) + 0.5) / nphi
    P, T = np.meshgrid(phi, theta)
    W = np.repeat(w[:, None], nphi, axis=1) * (2 * np.pi / nphi)
    return P.ravel(), T.ravel(), W.ravel()


_GL = {}


def set_quad(desc, quad, fine=False):
    """fine=True: rule that resolves spheroids up to aspect ratio 100 (axisymmetric 1/beta^3, error ~exp(-2 nt/AR))."""
    if quad == 'gl':
        key = (GLX_NT, GLX_NPHI) if fine else (GL_NT, GL_NPHI)
        if key not in _GL:
            _GL[key] = gl_rule(*key)
        p, t, w = _GL[key]
        desc.midPhiGrid, desc.midThetaGrid, desc.midWeights, desc.dA = p.copy(), t.copy(), w.copy(), 1.0 / 8
    else:
        desc.setLebedevIntegration(ORDERS[quad][0])


def random_rotation(rng):
    q = rng.normal(size=4)
    q /= np.linalg.norm(q)
    a, b, c, d = q
    return np.array([[a * a + b * b - c * c - d * d, 2 * (b * c - a * d), 2 * (b * d + a * c)],
                     [2 * (b * c + a * d), a * a - b * b + c * c - d * d, 2 * (c * d - a * b)],
                     [2 * (b * d - a * c), 2 * (c * d + a * b), a * a - b * b - c * c + d * d]])


def _loguni(rng, lo, hi):
    return float(math.exp(rng.uniform(math.log(lo), math.log(hi))))


def draw_iso(rng):
    return {'sym': 'iso', 'G': _loguni(rng, 1e10, 1.5e11), 'nu': float(rng.uniform(0.1, 0.45))}


def draw_cubic(rng, rotated):
    c44 = _loguni(rng, 1e10, 1.5e11)
    A = _loguni(rng, 0.3, 4.0)
    if abs(A - 1) < 0.06:
        A = 1.5
    Cp = c44 / A
    K = _loguni(rng, 3e10, 3e11)
    d = {'sym': 'cubic', 'c11': K + 4 * Cp / 3, 'c12': K - 2 * Cp / 3, 'c44': c44, 'A': A}
    if rotated:
        d['rot'] = random_rotation(rng).tolist()
    return d


def iso_constants(s):
    G, nu = s['G'], s['nu']
    lam = 2 * G * nu / (1 - 2 * nu)
    return lam + 2 * G, lam, G


def stiffness_constants(s):
    if s['sym'] == 'iso':
        return iso_constants(s)
    return s['c11'], s['c12'], s['c44']


def draw_config(rng):
    mclass = ['iso', 'cubic', 'cubic_rot'][int(rng.integers(3))]
    matrix = draw_iso(rng) if mclass == 'iso' else draw_cubic(rng, mclass == 'cubic_rot')
    pclass = ['unset', 'same', 'iso', 'cubic', 'cubic_rot'][int(rng.integers(5))]
    if pclass in ('unset', 'same'):
        prec = None
    elif pclass == 'iso':
        prec = draw_iso(rng)
    else:
        prec = draw_cubic(rng, pclass == 'cubic_rot')
    eclass = ['dil', 'diag', 'full'][int(rng.integers(3))]
    if eclass == 'dil':
        eig = float(rng.uniform(0.002, 0.03) * rng.choice([-1, 1]))
    elif eclass == 'diag':
        eig = rng.uniform(-0.03, 0.03, size=3).tolist()
    else:
        m = rng.uniform(-0.03, 0.03, size=(3, 3))
        eig = ((m + m.T) / 2).tolist()
    shape = ['sphere', 'needle', 'plate', 'triaxial'][int(rng.integers(4))]
    r0 = _loguni(rng, 5e-10, 5e-8)
    ar = float(rng.uniform(1.05, 6.0))
    if shape in ('needle', 'plate') and rng.random() < 0.3:
        ar = _loguni(rng, 6.0, 100.0)     # elongated spheroids, up to the default upper bound of eqAR_byGR
    if shape == 'sphere':
        radii, ar = [r0, r0, r0], 1.0
    elif shape == 'needle':
        radii = [r0, r0, ar * r0]
    elif shape == 'plate':
        radii = [ar * r0, ar * r0, r0]
    else:
        radii = [r0, r0 * float(rng.uniform(1.0, ar)), r0 * ar]
        radii = [radii[i] for i in rng.permutation(3)]
    return {'mclass': mclass, 'pclass': pclass, 'eclass': eclass, 'shape': shape, 'matrix': matrix, 'prec': prec,
            'eig': eig, 'radii': radii, 'ar': ar}


def eig_tensor(eig):
    e = np.array(eig, dtype=float)
    if e.ndim == 0:
        return float(e) * np.eye(3)
    if e.ndim == 1:
        return np.diag(e)
    return e


def set_stiffness(se, s, precipitate, how=0):
    """Set matrix/precipitate stiffness through the public setters (rotation is NOT handled here)."""
    from kawin.precipitation.parameters.ElasticFactors import elasticConstantToC
    c11, c12, c44 = stiffness_constants(s)
    if s['sym'] == 'iso' and how % 2 == 0:
        (se.setModuliPrecipitate if precipitate else se.setModuli)(G=s['G'], nu=s['nu'])
    elif how % 3 == 2:
        (se.setElasticTensorPrecipitate if precipitate else se.setElasticTensor)(elasticConstantToC(c11, c12, c44))
    else:
        (se.setElasticConsantsPrecipitate if precipitate else se.setElasticConstants)(c11, c12, c44)


def ar_class(ar):
    return '<=6' if ar <= 6 else ('6-20' if ar <= 20 else ('20-50' if ar <= 50 else '50-100'))


def build(cfg, quad, inverse='quick', how=0, extra_matrix_rotation=None):
    """StrainEnergy object for a configuration; rotations are supplied before the stiffnesses."""
    from kawin.precipitation import StrainEnergy
    se = StrainEnergy('ellipsoid')
    m, p = cfg['matrix'], cfg['prec']
    Rm = np.array(m['rot']) if 'rot' in m else None
    if extra_matrix_rotation is not None:
        Rm = extra_matrix_rotation if Rm is None else extra_matrix_rotation @ Rm
    if Rm is not None:
        se.setRotationMatrix(Rm)
    if cfg['pclass'] == 'same':
        if Rm is not None:
            se.setRotationPrecipitate(Rm)
    elif p is not None and 'rot' in p:
        se.setRotationPrecipitate(np.array(p['rot']))
    set_stiffness(se, m, False, how)
    if cfg['pclass'] == 'same':
        set_stiffness(se, m, True, how)
    elif p is not None:
        set_stiffness(se, p, True, how + 1)
    e = np.array(cfg['eig'], dtype=float)
    se.setEigenstrain(e if e.ndim else float(e))
    set_quad(se.description, quad, fine=cfg.get('ar', 1.0) > 6.0)
    se.description.setOhmInverseFunction(inverse)
    return se


def quad_dq(desc, radii):
    """|1 - sum_n w_n abc / beta_n^3 / (4 pi)| on the description's current nodes."""
    phi, theta, w = np.asarray(desc.midPhiGrid), np.asarray(desc.midThetaGrid), np.asarray(desc.midWeights)
    a, b, c = radii
    n0, n1, n2 = np.sin(theta) * np.cos(phi), np.sin(theta) * np.sin(phi), np.cos(theta)
    beta = np.sqrt((a * n0) ** 2 + (b * n1) ** 2 + (c * n2) ** 2)
    return abs(1.0 - 8 * desc.dA * float(np.sum(w * a * b * c / beta ** 3)) / (4 * np.pi)), float(np.min(w))


# ------------------------------------------------------------------------------------------------ node attribution
_OCT = None
_ATTR = {}


def _octahedral():
    global _OCT
    if _OCT is None:
        G = []
        for perm in itertools.permutations(range(3)):
            for s in itertools.product([1, -1], repeat=3):
                M = np.zeros((3, 3))
                for i, p in enumerate(perm):
                    M[i, p] = s[i]
                G.append(M)
        _OCT = G
    return _OCT


def _pset(v):
    return set(map(tuple, (np.round(v, 9) + 0.0).tolist()))


def node_attribution(quad):
    """Which classes of stored orbits are not expanded by loadPoints into a complete octahedral orbit.
    Attribution only (goes into mech); slices the real loadPoints output along the real table entries."""
    if quad == 'gl':
        return 'n/a'
    if quad in _ATTR:
        return _ATTR[quad]
    import kawin.precipitation.parameters.LebedevNodes as L
    order = ORDERS[quad][1]
    table = {53: L.q53, 83: L.q83, 131: L.q131}[order]
    phi, theta, w = L.loadPoints(order)
    v = np.array([np.sin(theta) * np.cos(phi), np.sin(theta) * np.sin(phi), np.cos(theta)]).T
    try:
        counts = [ORBIT_SIZE[e[0]] for e in table]
    except KeyError:
        counts = []
    if not counts or sum(counts) != len(w):
        _ATTR[quad] = 'layout-unknown'
        return _ATTR[quad]
    bad = set()
    k = 0
    for e, c in zip(table, counts):
        pts = v[k:k + c]
        ww = w[k:k + c]
        k += c
        orbit = set()
        for M in _octahedral():
            orbit |= _pset(pts[:1] @ M.T)
        have = _pset(pts)
        ok = (have == orbit) and len(have) == c and bool(np.all(ww == ww[0]))
        if not ok:
            lab = e[0]
            if lab == 'C':
                lab = 'C(offplane-first)' if abs(e[2][0] - np.pi / 4) > 1e-9 else 'C(diag-first)'
            bad.add(lab)
    _ATTR[quad] = '+'.join(sorted(bad)) if bad else 'none'
    return _ATTR[quad]


def qmech(quad, **kw):
    m = {'quad': quad}
    if quad != 'gl':
        m['node_defect'] = node_attribution(quad)
    m.update(kw)
    return m


# ------------------------------------------------------------------------------------------------ monomial oracle
def monomial_errors(phi, theta, w4pi, L):
    """sup-normalised quadrature error for all monomials of total degree <= L. w4pi sums to 4 pi."""
    from scipy.special import gammaln
    x = np.sin(theta) * np.cos(phi)
    y = np.sin(theta) * np.sin(phi)
    z = np.cos(theta)
    p = np.arange(L + 1)[:, None]
    X, Y, Z = x[None, :] ** p, y[None, :] ** p, z[None, :] ** p
    Q = np.empty((L + 1, L + 1, L + 1))
    for c in range(L + 1):
        Q[:, :, c] = (X * (w4pi * Z[c])[None, :]) @ Y.T
    a = np.arange(L + 1)
    g = gammaln((a + 1) / 2.0)
    A, B, C = np.meshgrid(a, a, a, indexing='ij')
    ex = 2 * np.exp(g[A] + g[B] + g[C] - gammaln((A + B + C + 3) / 2.0))
    ex[(A % 2 == 1) | (B % 2 == 1) | (C % 2 == 1)] = 0.0
    N = A + B + C

    def xlogx(k):
        return np.where(k > 0, k * np.log(np.maximum(k, 1)), 0.0)
    sup = np.exp(0.5 * (xlogx(A) + xlogx(B) + xlogx(C) - xlogx(N)))
    err = np.abs(Q - ex) / (4 * np.pi * sup)
    mask = N <= L
    err[~mask] = 0.0
    return err, N, mask, Q, ex


def case_nodes(case, R):
    from kawin.precipitation.parameters.ElasticFactors import EllipsoidalEnergyDescription
    quad = case['quad']
    desc = EllipsoidalEnergyDescription()
    set_quad(desc, quad)
    phi, theta, w = np.asarray(desc.midPhiGrid, float), np.asarray(desc.midThetaGrid, float), np.asarray(desc.midWeights, float)
    area = 8 * desc.dA * float(np.sum(w))
    L = min(2 * GL_NT - 1, GL_NPHI - 1) if quad == 'gl' else ORDERS[quad][1]
    err, N, mask, Q, ex = monomial_errors(phi, theta, 8 * desc.dA * w, L)
    worst = float(err.max())
    bad = (err > TOL_QUAD) & mask
    R.info.update({'quad': quad, 'nodes': int(len(w)), 'degree': int(L), 'monomials': int(mask.sum()), 'worst': worst,
                   'failing': int(bad.sum()), 'area_rel_err': abs(area / (4 * np.pi) - 1)})
    if quad == 'gl':
        # the harness rule must itself pass the oracle before any 'gl' evaluation is trusted
        if bad.any() or abs(area / (4 * np.pi) - 1) > TOL_QUAD:
            R.inconclusive = 'harness Gauss-Legendre rule fails its own monomial oracle (worst %.3e)' % worst
        R.observe('harness_rule_monomials_ok', int(mask.sum()))
        R.worst('gl_monomial_err', worst)
        R.set_nontrivial(True, 'nodes:gl')
        return
    attr = node_attribution(quad)
    R.info['node_defect'] = attr
    v = np.array([np.sin(theta) * np.cos(phi), np.sin(theta) * np.sin(phi), np.cos(theta)]).T
    ndup = len(w) - len(_pset(v))
    R.info['duplicated_nodes'] = ndup
    R.worst('weights_area_relerr_' + quad, abs(area / (4 * np.pi) - 1))
    R.check('quad_weights', abs(area / (4 * np.pi) - 1) <= TOL_QUAD and float(w.min()) > 0,
            qmech(quad, clause='weights_sum'), area=area, expected=4 * np.pi, min_weight=float(w.min()), nodes=len(w))
    R.worst('monomial_err_' + quad, worst)
    if bad.any():
        lowest = int(N[bad].min())
        i = np.unravel_index(int(np.argmax(err)), err.shape)
        low_idx = np.argwhere(bad & (N == lowest))[:6]
        R.count('quad_monomials', int(mask.sum()) - 1)
        R.check('quad_monomials', False, qmech(quad, clause='monomials', lowest_failing_degree=lowest),
                failing=int(bad.sum()), of=int(mask.sum()), worst_sup_normalised_error=worst,
                worst_monomial=[int(j) for j in i], worst_Q=float(Q[i]), worst_exact=float(ex[i]),
                lowest_degree_examples=[{'abc': [int(j) for j in ix], 'Q': float(Q[tuple(ix)]), 'exact': float(ex[tuple(ix)])}
                                        for ix in low_idx], duplicated_nodes=ndup)
    else:
        R.count('quad_monomials', int(mask.sum()))
    R.set_nontrivial(True, 'nodes:' + quad)


# ------------------------------------------------------------------------------------------------ energy cases
def _energies(se, r):
    d = se.description
    return {'compute': float(se.compute(r)), 'homog4': float(d.strainEnergyEllipsoid(r)),
            'homog2': float(d.strainEnergyEllipsoid2ndRank(r)), 'bohm4': float(d.strainEnergyBohm(r)),
            'bohm2': float(d.strainEnergyBohm2ndRank(r))}


def _textbook_S(nu):
    d = np.eye(3)
    a = (5 * nu - 1) / (15 * (1 - nu))
    b = (4 - 5 * nu) / (15 * (1 - nu))
    return a * np.einsum('ij,kl->ijkl', d, d) + b * (np.einsum('ik,jl->ijkl', d, d) + np.einsum('il,jk->ijkl', d, d))


def iso_sphere_checks(R, rng, quad, G, nu, how):
    """closed form and textbook Eshelby tensor for a sphere in an isotropic matrix (homogeneous inclusion)."""
    from kawin.precipitation import StrainEnergy
    eps = float(rng.uniform(0.002, 0.03) * rng.choice([-1, 1]))
    r0 = _loguni(rng, 5e-10, 5e-8)
    r = np.array([r0, r0, r0])
    V = 4 * np.pi / 3 * r0 ** 3
    exact = 2 * G * (1 + nu) / (1 - nu) * eps ** 2 * V
    cfg = {'matrix': {'sym': 'iso', 'G': G, 'nu': nu}, 'prec': None, 'pclass': 'unset', 'eig': eps}
    se = build(cfg, quad, how=how)
    E = _energies(se, r)
    for path, val in E.items():
        e = abs(val / exact - 1)
        R.worst('closed_form_relerr_%s' % quad, e)
        R.check('closed_form_sphere', e <= TOL_ALG, qmech(quad, path='ellipsoid:' + path),
                energy=val, closed_form=exact, rel_err=e, G=G, nu=nu, eps=eps, r=r0)
    d = se.description
    S = d.Sijmn(d.Dijkl(r, se.params.cMatrix_4th))
    St = _textbook_S(nu)
    e = float(np.max(np.abs(S - St)))
    R.worst('textbook_S_abserr_%s' % quad, e)
    R.check('eshelby_textbook', e <= TOL_ALG, qmech(quad), nu=nu,
            S1111_S2222_S3333=[S[0, 0, 0, 0], S[1, 1, 1, 1], S[2, 2, 2, 2]], textbook_S1111=St[0, 0, 0, 0],
            S1122_S1133_S2233=[S[0, 0, 1, 1], S[0, 0, 2, 2], S[1, 1, 2, 2]], textbook_S1122=St[0, 0, 1, 1],
            S1212_S1313_S2323=[S[0, 1, 0, 1], S[0, 2, 0, 2], S[1, 2, 1, 2]], textbook_S1212=St[0, 1, 0, 1], max_abs_err=e)
    if quad == 'gl':
        # spherical approximation (no sphere integral involved; evaluated once per case)
        for ctor in ('sphere', 'default'):
            s2 = StrainEnergy('sphere') if ctor == 'sphere' else StrainEnergy()
            set_stiffness(s2, cfg['matrix'], False, how + (1 if ctor == 'default' else 0))
            s2.setEigenstrain(eps)
            val = float(s2.compute(r))
            e = abs(val / exact - 1)
            R.worst('closed_form_relerr_spherical_approx', e)
            R.check('closed_form_sphere', e <= TOL_ALG and type(s2.description).__name__ == 'SphericalEnergyDescription',
                    {'quad': 'none', 'path': 'spherical-approximation', 'ctor': ctor}, energy=val, closed_form=exact,
                    rel_err=e, description=type(s2.description).__name__, G=G, nu=nu, eps=eps, r=r0)


def setter_order_checks(R, rng, quad, cfg, how):
    """cubic stiffness: (rotation, stiffness) vs (stiffness, rotation), matrix and precipitate."""
    from kawin.precipitation import StrainEnergy
    m = cfg['matrix']
    p = cfg['prec'] if (cfg['prec'] is not None and cfg['prec']['sym'] == 'cubic') else draw_cubic(rng, False)
    Rm = np.array(m['rot']) if 'rot' in m else random_rotation(rng)
    Rp = np.array(p['rot']) if 'rot' in p else random_rotation(rng)
    r = np.array(cfg['radii'])
    e = np.array(cfg['eig'], dtype=float)
    objs = {}
    for first in ('rotation', 'stiffness'):
        se = StrainEnergy('ellipsoid')
        if first == 'rotation':
            se.setRotationMatrix(Rm)
            se.setRotationPrecipitate(Rp)
            set_stiffness(se, m, False, how)
            set_stiffness(se, p, True, how)
        else:
            set_stiffness(se, m, False, how)
            set_stiffness(se, p, True, how)
            se.setRotationMatrix(Rm)
            se.setRotationPrecipitate(Rp)
        se.setEigenstrain(e if e.ndim else float(e))
        set_quad(se.description, quad, fine=cfg['ar'] > 6.0)
        objs[first] = se
    a, b = objs['rotation'], objs['stiffness']
    for which, ta, tb in (('matrix', a.params.cMatrix_4th, b.params.cMatrix_4th),
                          ('precipitate', a.params.cPrec_4th, b.params.cPrec_4th)):
        d = _rel(ta, tb)
        R.worst('setter_order_tensor_rel', d)
        R.check('setter_order', d <= TOL_ORDER, {'which': which, 'second': 'rotation', 'observable': 'rotated tensor'},
                rel_diff=d, rotation_first_c1111=ta[0, 0, 0, 0], stiffness_first_c1111=tb[0, 0, 0, 0])
    # energies: matrix only (precipitate unset) and pair
    Ea, Eb = float(a.compute(r)), float(b.compute(r))
    d = _rel(Ea, Eb)
    R.check('setter_order', d <= TOL_ORDER, qmech(quad, which='matrix+precipitate', second='rotation', observable='energy'),
            rotation_first=Ea, stiffness_first=Eb, rel_diff=d)
    Ea, Eb = float(a.description.strainEnergyEllipsoid(r)), float(b.description.strainEnergyEllipsoid(r))
    d = _rel(Ea, Eb)
    R.worst('setter_order_energy_rel', d)
    R.check('setter_order', d <= TOL_ORDER, qmech(quad, which='matrix', second='rotation', observable='energy'),
            rotation_first=Ea, stiffness_first=Eb, rel_diff=d)


def case_energy(case, R):
    from vlib.core import case_rng, case_hash, kawin_frame
    rng = case_rng(case['seed'], PROPERTY, case['idx'])
    cfg = draw_config(rng)
    how = int(rng.integers(6))
    r = np.array(cfg['radii'])
    eigT = eig_tensor(cfg['eig'])
    eig_shear = bool(np.any(np.abs(eigT - np.diag(np.diag(eigT))) > 0))
    coupled = cfg['mclass'] == 'cubic_rot' or cfg['pclass'] == 'cubic_rot'
    s = _loguni(rng, 0.2, 5.0)
    k = _loguni(rng, 0.2, 5.0) * float(rng.choice([-1, 1]))
    Rextra = random_rotation(rng)
    R.info['config'] = {kk: cfg[kk] for kk in ('mclass', 'pclass', 'eclass', 'shape', 'ar')}
    zener = [c.get('A', 1.0) for c in (cfg['matrix'], cfg['prec'] or {}) if c]
    nontrivial = any(abs(z - 1) > 0.05 for z in zener) or cfg['ar'] > 1.05

    def body(quad):
        sub = np.random.default_rng([int(case['seed']) & 0xFFFFFFFF, 16, int(case['idx']), QUADS.index(quad)])
        se = build(cfg, quad, how=how)
        d = se.description
        V = 4 * np.pi / 3 * float(np.prod(r))
        U0 = 0.5 * V * float(np.einsum('ij,ijkl,kl->', eigT, se.params.cMatrix_4th, eigT))
        E = _energies(se, r)
        R.observe('energy_evaluations', 5)
        # structural facts for the mechanism: do shear components take part in the contraction at all?
        S_quick = d.Sijmn(d.Dijkl(r, se.params.cMatrix_4th))
        S6 = np.array([[S_quick[i, j, k, l] for (k, l) in VOIGT_PAIRS] for (i, j) in VOIGT_PAIRS])
        s_coupled = bool(max(np.max(np.abs(S6[:3, 3:])), np.max(np.abs(S6[3:, :3]))) > 1e-12 * np.max(np.abs(S6)))
        base = {'eig_shear': eig_shear, 'coupled_stiffness': coupled, 'S_normal_shear_coupling': s_coupled,
                'shear_active': eig_shear or coupled or s_coupled}

        # --- non-negativity
        dq, wmin = quad_dq(d, r)
        R.worst('quadrature_volume_error_%s_ar%s' % (quad, ar_class(cfg['ar'])), dq)
        for name, formula in (('compute', 'inhomogeneous'), ('homog4', 'homogeneous')):
            lhs = E[name] / U0
            R.worst('neg_energy_over_U0_%s_ar%s' % (quad, ar_class(cfg['ar'])), -lhs)
            R.check('nonneg', lhs >= -1e-12 and np.isfinite(lhs),
                    qmech(quad, formula=formula, ar_class=ar_class(cfg['ar']), quadrature_resolved=bool(dq <= DQ_RESOLVED), **base),
                    energy=E[name], U0=U0, energy_over_U0=lhs, quadrature_volume_error=dq, min_weight=wmin,
                    homogeneous_bound_minus_dq_U0_respected=bool(np.isfinite(lhs) and lhs >= -dq), config=cfg)

        # --- size scaling
        Es = _energies(se, s * r)
        for name in ('compute', 'homog4'):
            e = abs(Es[name] - s ** 3 * E[name]) / (s ** 3 * U0)
            R.worst('size_scaling_rel', e)
            R.check('size_scaling', e <= TOL_SCALE, qmech(quad, formula=name, **base), s=s, E=E[name], E_scaled=Es[name],
                    rel_err=e, config=cfg)

        # --- eigenstrain scaling
        se.setEigenstrain(k * eigT)
        Ek = _energies(se, r)
        se.setEigenstrain(eigT.copy())
        for name in ('compute', 'homog4'):
            e = abs(Ek[name] - k ** 2 * E[name]) / (k ** 2 * U0)
            R.worst('strain_scaling_rel', e)
            R.check('strain_scaling', e <= TOL_SCALE, qmech(quad, formula=name, **base), k=k, E=E[name], E_scaled=Ek[name],
                    rel_err=e, config=cfg)

        # --- 6x6 vs 4th rank
        for f4, f2, formula in (('homog4', 'homog2', 'homogeneous'), ('bohm4', 'bohm2', 'inhomogeneous')):
            e = abs(E[f4] - E[f2]) / U0
            R.worst('rank_agree_rel' + ('_shear' if base['shear_active'] else '_noshear'), e)
            R.check('rank_agree', e <= TOL_ALG, qmech(quad, formula=formula, **base), rank4=E[f4], rank2=E[f2], rel_diff=e,
                    config=cfg)
        e = abs(E['compute'] - E['bohm4']) / U0
        R.check('rank_agree', e <= 1e-14, qmech(quad, formula='compute-vs-strainEnergyBohm', **base), compute=E['compute'],
                bohm4=E['bohm4'])

        # --- homogeneous limit
        if cfg['pclass'] in ('unset', 'same'):
            e = abs(E['bohm4'] - E['homog4']) / U0
            R.worst('homog_limit_rel' + ('_shear' if base['shear_active'] else '_noshear'), e)
            R.check('homog_limit', e <= TOL_ALG, qmech(quad, precipitate=cfg['pclass'], rank=4, **base),
                    inhomogeneous=E['bohm4'], homogeneous=E['homog4'], rel_diff=e, config=cfg)
            e = abs(E['bohm2'] - E['homog2']) / U0
            R.check('homog_limit', e <= TOL_ALG, qmech(quad, precipitate=cfg['pclass'], rank=2, **base),
                    inhomogeneous=E['bohm2'], homogeneous=E['homog2'], rel_diff=e, config=cfg)

        # --- numpy inverse vs quick inverse
        d.setOhmInverseFunction('numpy')
        S_np = d.Sijmn(d.Dijkl(r, se.params.cMatrix_4th))
        En = _energies(se, r)
        d.setOhmInverseFunction('quick')
        e = _rel(S_quick, S_np)
        R.worst('inverse_agree_S_rel', e)
        R.check('inverse_agree', e <= TOL_INV, qmech(quad, observable='Eshelby tensor', **base), rel_diff=e, config=cfg)
        for name in ('compute', 'homog4'):
            e = abs(E[name] - En[name]) / U0
            R.worst('inverse_agree_E_rel', e)
            R.check('inverse_agree', e <= TOL_INV, qmech(quad, observable='energy:' + name, **base), quick=E[name],
                    numpy=En[name], rel_diff=e, config=cfg)

        # --- isotropic matrix: rotation invariance, closed form, textbook tensor
        if cfg['mclass'] == 'iso':
            se_r = build(cfg, quad, how=how, extra_matrix_rotation=Rextra)
            Er = _energies(se_r, r)
            for name in ('compute', 'homog4'):
                e = abs(E[name] - Er[name]) / U0
                R.worst('rotation_invariance_rel', e)
                R.check('rotation_invariance', e <= TOL_ALG, qmech(quad, formula=name, precipitate=cfg['pclass'], **base),
                        unrotated=E[name], rotated=Er[name], rel_diff=e, rotation=Rextra, config=cfg)
            iso_sphere_checks(R, sub, quad, cfg['matrix']['G'], cfg['matrix']['nu'], how)
            # the particle (semi-axes + eigenstrain) turned by 90 degrees relative to the isotropic matrix
            if cfg['pclass'] in ('unset', 'same', 'iso'):
                for pname, P in PERMUTATIONS.items():
                    if pname == 'cyclic-xyz' and cfg['ar'] > 6.0:
                        continue      # the fine product rule only resolves spheroids whose unique axis is z
                    cfg2 = dict(cfg, radii=(np.abs(P) @ r).tolist(), eig=(P @ eigT @ P.T).tolist())
                    se_p = build(cfg2, quad, how=how)
                    Ep = _energies(se_p, np.array(cfg2['radii']))
                    tol = TOL_ALG if pname == 'rot90-about-z' else TOL_PERM
                    for name in ('compute', 'homog4'):
                        e = abs(Ep[name] - E[name]) / U0
                        R.worst('axis_permutation_%s_%s' % (pname, 'gl' if quad == 'gl' else 'repo'), e)
                        R.check('axis_permutation', e <= tol, qmech(quad, permutation=pname, formula=name, **base),
                                original=E[name], permuted=Ep[name], diff_over_U0=e, config=cfg)
        else:
            if quad in ('gl', QUADS[case['idx'] % 3]):
                setter_order_checks(R, sub, quad, cfg, how)

    for quad in QUADS_EVAL:
        try:
            body(quad)
        except Exception as exc:
            # the statement implies that the energy of an admissible configuration can be evaluated at all
            if kawin_frame(exc.__traceback__) is None:
                raise                      # harness error -> case inconclusive
            R.exception('nonneg', exc, qmech(quad, stage='energy evaluation raised'), config=cfg)

    # every case: closed form / textbook for an independent isotropic medium on one rotating repo order + gl
    if cfg['mclass'] != 'iso':
        sub = np.random.default_rng([int(case['seed']) & 0xFFFFFFFF, 16, int(case['idx']), 99])
        iso = draw_iso(sub)
        for quad in ('gl', QUADS[case['idx'] % 3]):
            iso_sphere_checks(R, sub, quad, iso['G'], iso['nu'], how)
    key = case_hash({'cfg': cfg, 'how': how})
    R.set_nontrivial(nontrivial, key)


# ------------------------------------------------------------------------------------------------ moduli
MODULI = ['E', 'nu', 'G', 'lam', 'K', 'M']


def all_moduli(G, nu):
    E = 2 * G * (1 + nu)
    lam = 2 * G * nu / (1 - 2 * nu)
    K = 2 * G * (1 + nu) / (3 * (1 - 2 * nu))
    M = 2 * G * (1 - nu) / (1 - 2 * nu)
    return {'E': E, 'nu': nu, 'G': G, 'lam': lam, 'K': K, 'M': M}


def moduli_from_C(C):
    lam, G = C[0, 1], C[3, 3]
    nu = lam / (2 * (lam + G))
    return all_moduli(G, nu)


def case_moduli(case, R):
    from vlib.core import case_rng
    from kawin.precipitation import StrainEnergy
    from kawin.precipitation.parameters.ElasticFactors import moduliToC, elasticConstantToC, convert2To4rankTensor
    rng = case_rng(case['seed'], PROPERTY, case['idx'])
    for j in range(40):
        auxetic = j % 4 == 3
        nu = float(rng.uniform(-0.5, -0.05)) if auxetic else float(rng.uniform(0.03, 0.46))
        G = _loguni(rng, 1e9, 3e11)
        mod = all_moduli(G, nu)
        Cref = elasticConstantToC(mod['lam'] + 2 * G, mod['lam'], G)
        for pair in itertools.combinations(MODULI, 2):
            if auxetic and set(pair) == {'E', 'M'}:
                R.observe('moduli_pair_ambiguous')
                continue
            kw = {m: mod[m] for m in pair}
            mech = {'pair': '-'.join(pair), 'auxetic': auxetic}
            try:
                C = moduliToC(**kw)
            except Exception as exc:
                R.exception('moduli_roundtrip', exc, mech, input=kw)
                continue
            e = _rel(C, Cref)
            back = moduli_from_C(C)
            eb = max(abs(back[m] / mod[m] - 1) for m in pair)
            R.worst('moduli_tensor_rel', e)
            R.worst('moduli_back_rel', eb)
            R.check('moduli_roundtrip', e <= TOL_ALG and eb <= TOL_ALG, mech, input=kw, rel_err_tensor=e, rel_err_back=eb,
                    c11_c12_c44=[C[0, 0], C[0, 1], C[3, 3]], expected=[Cref[0, 0], Cref[0, 1], Cref[3, 3]])
        # through the StrainEnergy setters (one random pair per material)
        pair = list(itertools.combinations(MODULI, 2))[int(rng.integers(15))]
        if not (auxetic and set(pair) == {'E', 'M'}):
            kw = {m: mod[m] for m in pair}
            se = StrainEnergy('ellipsoid')
            se.setModuli(**kw)
            se.setModuliPrecipitate(**kw)
            c4 = convert2To4rankTensor(Cref)
            e = max(_rel(se.params.cMatrix_4th, c4), _rel(se.params.cPrec_4th, c4), _rel(se.params.cMatrix_2nd, Cref))
            R.check('moduli_roundtrip', e <= TOL_ALG, {'pair': '-'.join(pair), 'auxetic': auxetic, 'via': 'setModuli'},
                    input=kw, rel_err=e)
    R.set_nontrivial(True)


# ------------------------------------------------------------------------------------------------ tensors
def case_tensor(case, R):
    from vlib.core import case_rng
    from kawin.precipitation import StrainEnergy
    from kawin.precipitation.parameters import ElasticFactors as EF
    rng = case_rng(case['seed'], PROPERTY, case['idx'])
    for j in range(25):
        Rot = random_rotation(rng)
        cub = draw_cubic(rng, False)
        c2 = EF.elasticConstantToC(cub['c11'], cub['c12'], cub['c44'])
        # general symmetric 6x6 (triclinic) and a general non-symmetric one
        g = rng.normal(size=(6, 6))
        for name, m in (('cubic', c2), ('symmetric6x6', g + g.T), ('general6x6', g)):
            c4 = EF.convert2To4rankTensor(m)
            back = EF.convert4To2rankTensor(c4)
            minor = np.array_equal(c4, np.transpose(c4, (1, 0, 2, 3))) and np.array_equal(c4, np.transpose(c4, (0, 1, 3, 2)))
            R.check('rank_roundtrip', np.array_equal(back, m) and minor, {'direction': '2->4->2', 'tensor': name},
                    max_abs_diff=float(np.max(np.abs(back - m))), minor_symmetric=minor)
        c4r = EF.rotateRank4Tensor(Rot, EF.convert2To4rankTensor(c2))
        c4r = 0.5 * (c4r + np.transpose(c4r, (1, 0, 2, 3)))
        c4r = 0.5 * (c4r + np.transpose(c4r, (0, 1, 3, 2)))   # exact minor symmetry (rotation leaves rounding noise)
        back = EF.convert2To4rankTensor(EF.convert4To2rankTensor(c4r))
        R.check('rank_roundtrip', np.array_equal(back, c4r), {'direction': '4->2->4', 'tensor': 'rotated cubic'},
                max_abs_diff=float(np.max(np.abs(back - c4r))))
        v = rng.normal(size=6)
        t = EF.convertVecTo2rankTensor(v)
        R.check('rank_roundtrip', np.array_equal(EF.convert2rankToVec(t), v) and np.array_equal(t, t.T),
                {'direction': 'vec->3x3->vec'}, v=v)
        sy = rng.normal(size=(3, 3))
        sy = sy + sy.T
        R.check('rank_roundtrip', np.array_equal(EF.convertVecTo2rankTensor(EF.convert2rankToVec(sy)), sy),
                {'direction': '3x3->vec->3x3'}, t=sy)
        # documented rotation formulas
        T4 = EF.convert2To4rankTensor(g + g.T)
        want = np.einsum('im,jn,ko,lp,mnop->ijkl', Rot, Rot, Rot, Rot, T4)
        e = _rel(EF.rotateRank4Tensor(Rot, T4), want)
        R.worst('rotation_formula_rel', e)
        R.check('rotation_formula', e <= TOL_ORDER, {'function': 'rotateRank4Tensor'}, rel_diff=e)
        T2 = rng.normal(size=(3, 3))
        want2 = np.einsum('il,jk,lk->ij', Rot, Rot, T2)
        e = _rel(EF.rotateRank2Tensor(Rot, T2), want2)
        R.check('rotation_formula', e <= TOL_ORDER, {'function': 'rotateRank2Tensor'}, rel_diff=e)
        # StrainEnergy.update stores the rotated tensors (rotation supplied first)
        se = StrainEnergy('ellipsoid')
        Rp = random_rotation(rng)
        se.setRotationMatrix(Rot)
        se.setRotationPrecipitate(Rp)
        se.setElasticConstants(cub['c11'], cub['c12'], cub['c44'])
        # 40 %: the precipitate has the SAME cubic constants as the matrix but its own orientation (a coherent variant
        # of the same crystal) - the rotated precipitate tensor must still be the precipitate's rotation of them
        same = rng.random() < 0.4
        pc = dict(cub) if same else draw_cubic(rng, False)
        R.observe('rotation_formula_same_constants_own_rotation' if same else 'rotation_formula_distinct_constants')
        se.setElasticConsantsPrecipitate(pc['c11'], pc['c12'], pc['c44'])
        c4 = EF.convert2To4rankTensor(c2)
        p4 = EF.convert2To4rankTensor(EF.elasticConstantToC(pc['c11'], pc['c12'], pc['c44']))
        wantm = np.einsum('im,jn,ko,lp,mnop->ijkl', Rot, Rot, Rot, Rot, c4)
        wantp = np.einsum('im,jn,ko,lp,mnop->ijkl', Rp, Rp, Rp, Rp, p4)
        e = max(_rel(se.params.cMatrix_4th, wantm), _rel(se.params.cPrec_4th, wantp),
                _rel(se.params.cMatrix_2nd, EF.convert4To2rankTensor(wantm)), _rel(se.params.cPrec_2nd, EF.convert4To2rankTensor(wantp)))
        R.check('rotation_formula', e <= TOL_ORDER, {'function': 'StrainEnergy.update', 'first': 'rotation', 'prec_constants': 'as_matrix' if same else 'own'}, rel_diff=e)
    R.set_nontrivial(True)


# ------------------------------------------------------------------------------------------------ equilibrium aspect ratio
def _unimodal(f):
    df = np.sign(np.diff(f))
    df = df[df != 0]
    turns = int(np.sum(df[1:] != df[:-1]))
    return turns == 0 or (turns == 1 and df[0] < 0)


def case_eqar(case, R):
    """eqAR_byGR (default bracket [1.001, 100]) vs eqAR_bySearch.
    Golden-section search is defined for unimodal objectives only, so the relation is asserted when the objective
    V*E_el(AR) + gamma*A(AR), evaluated with a quadrature that resolves the whole bracket (fine injected rule), is
    unimodal on the bracket; the mech records whether the objective as computed with the quadrature under test is
    unimodal too and whether it contains negative energies."""
    from vlib.core import case_rng, case_hash
    from kawin.precipitation import StrainEnergy, ShapeFactor
    rng = case_rng(case['seed'], PROPERTY, case['idx'])
    shape = ['plate', 'needle'][int(rng.integers(2))]
    mclass = ['iso', 'cubic'][int(rng.integers(2))]
    matrix = draw_iso(rng) if mclass == 'iso' else draw_cubic(rng, False)
    prec = None if rng.random() < 0.5 else (draw_iso(rng) if rng.random() < 0.5 else draw_cubic(rng, False))
    big, small = float(rng.uniform(0.01, 0.04)), float(rng.uniform(-0.01, 0.01))
    # misfit mainly along the short axes so that elongation lowers the elastic energy
    eig = [small, small, big] if shape == 'plate' else [big, big, small]
    if rng.random() < 0.2:
        eig = rng.uniform(-0.03, 0.03, size=3).tolist()
    Rsph = np.sort(np.array([_loguni(rng, 3e-10, 3e-8) for _ in range(int(rng.integers(1, 4)))]))
    resolution = [0.01, 0.02, 0.05][int(rng.integers(3))]
    method = ['thermo', 'eqradius'][int(rng.integers(2))]
    quad = ['repo-high', 'gl', 'repo-low', 'repo-mid'][case['idx'] % 4]
    cfg = {'mclass': mclass, 'pclass': 'unset' if prec is None else prec['sym'], 'matrix': matrix, 'prec': prec, 'eig': eig,
           'ar': 100.0}
    se = build(cfg, quad)            # quad == 'gl' -> fine rule (cfg['ar'] = 100)
    c11, c12, c44 = stiffness_constants(matrix)
    U = 0.5 * (c11 * sum(e * e for e in eig) + 2 * c12 * (eig[0] * eig[1] + eig[0] * eig[2] + eig[1] * eig[2]))
    # interfacial energy from the ratio (elastic energy density x radius / gamma) that controls the aspect ratio
    lam = _loguni(rng, 0.5, 60.0)
    gamma = U * float(Rsph[-1]) / lam
    se.setAspectRatioResolution(resolution)
    se.setInterfacialEnergyMethod(method)
    sf = ShapeFactor(shape)
    base = {'quad': quad, 'shape': shape, 'ifmethod': method}
    if quad != 'gl':
        base['node_defect'] = node_attribution(quad)
    try:
        ar_s = np.atleast_1d(se.eqAR_bySearch(Rsph.copy(), gamma, sf)).astype(float)
        ar_g = np.atleast_1d(se.eqAR_byGR(Rsph.copy(), gamma, sf)).astype(float)
    except Exception as exc:
        R.exception('eqar_agree', exc, base, Rsph=Rsph, gamma=gamma, config=cfg)
        return
    normR = sf.description.normalRadii
    inter = sf.description.thermoFactor if method == 'thermo' else sf.description.eqRadiusFactor
    grid = np.exp(np.linspace(np.log(1.001), np.log(100.0), 160))
    en = np.atleast_1d(se.compute(normR(grid.copy())))
    ref = build(cfg, 'gl')
    en_ref = np.atleast_1d(ref.compute(normR(grid.copy())))
    fi = np.atleast_1d(inter(grid.copy()))
    nt = False
    for i, rs in enumerate(Rsph):
        f = en * (4 / 3) * np.pi * rs ** 3 + gamma * fi * 4 * np.pi * rs ** 2
        f_ref = en_ref * (4 / 3) * np.pi * rs ** 3 + gamma * fi * 4 * np.pi * rs ** 2
        a_s, a_g = float(ar_s[i]), float(ar_g[i])
        R.info.setdefault('eqAR', []).append([a_s, a_g])
        if not _unimodal(f_ref):
            R.observe('eqar_true_objective_multimodal')
            continue
        if min(a_s, a_g) > 99:
            R.observe('eqar_at_upper_bound')
            continue
        mech = dict(base, computed_objective_unimodal=bool(_unimodal(f)), negative_energy_in_bracket=bool(np.min(en) < 0))
        diff = abs(a_s - a_g)
        if diff <= resolution + 2e-3:
            R.worst('eqar_diff_over_resolution', diff / (resolution + 2e-3))
        R.check('eqar_agree', diff <= resolution + 2e-3, mech, bySearch=a_s, byGR=a_g, diff=diff, resolution=resolution,
                Rsph=rs, gamma=gamma, true_minimum_on_grid=float(grid[int(np.argmin(f_ref))]),
                lowest_energy_in_bracket=float(np.min(en)), AR_of_lowest_energy=float(grid[int(np.argmin(en))]), config=cfg)
        nt = nt or (1.02 < a_s < 99)
    R.set_nontrivial(nt, case_hash({'cfg': cfg, 'gamma': gamma, 'R': Rsph.tolist(), 'shape': shape}))


# ------------------------------------------------------------------------------------------------ ownership / history
FORMS = {'dil': ['scalar', 'vector', 'tensor'], 'diag': ['vector', 'tensor'], 'full': ['tensor']}


def _draw_eig(rng, eclass):
    if eclass == 'dil':
        return float(rng.uniform(0.002, 0.03) * rng.choice([-1, 1])) * np.eye(3)
    if eclass == 'diag':
        return np.diag(rng.uniform(-0.03, 0.03, size=3))
    m = rng.uniform(-0.03, 0.03, size=(3, 3))
    return (m + m.T) / 2


def _as_form(T, form):
    """the caller-side object for an eigenstrain tensor T in a given input form (fresh arrays every time)"""
    if form == 'scalar':
        return float(T[0, 0])
    if form == 'vector':
        return np.array([T[0, 0], T[1, 1], T[2, 2]])
    return np.array(T, dtype=float)


def _new_object(shape, matrix, prec, how):
    from kawin.precipitation import StrainEnergy
    se = StrainEnergy('sphere' if shape == 'sphere' else 'ellipsoid')
    set_stiffness(se, matrix, False, how)
    if prec is not None:
        set_stiffness(se, prec, True, how + 1)
    if shape == 'ellipsoid-gl':
        set_quad(se.description, 'gl')
    return se            # 'ellipsoid-default': exactly what a user gets (order 131), nothing injected


def case_ownership(case, R):
    from vlib.core import case_rng, case_hash
    rng = case_rng(case['seed'], PROPERTY, case['idx'])
    summary = []
    for trial in range(3):
        shape = ['ellipsoid-default', 'ellipsoid-gl', 'sphere'][int(rng.integers(3))]
        matrix = draw_iso(rng) if (shape == 'sphere' or rng.random() < 0.4) else draw_cubic(rng, False)
        prec = None if (shape == 'sphere' or rng.random() < 0.5) else (draw_iso(rng) if rng.random() < 0.5 else draw_cubic(rng, False))
        how = int(rng.integers(6))
        eclass = 'dil' if shape == 'sphere' else ['dil', 'diag', 'diag', 'full'][int(rng.integers(4))]
        r0 = _loguni(rng, 5e-10, 5e-8)
        r = np.array([r0, r0, r0]) if shape == 'sphere' else r0 * np.array([1.0, float(rng.uniform(1, 3)), float(rng.uniform(1, 4))])
        V = 4 * np.pi / 3 * float(np.prod(r))
        c11, c12, c44 = stiffness_constants(matrix)

        def U0_of(T):
            tr = T[0, 0] + T[1, 1] + T[2, 2]
            return 0.5 * V * (c12 * tr * tr + (c11 - c12) * float(np.sum(np.diag(T) ** 2))
                              + 2 * c44 * 2 * float(T[0, 1] ** 2 + T[0, 2] ** 2 + T[1, 2] ** 2))
        TA = _draw_eig(rng, eclass)
        k = _loguni(rng, 0.3, 4.0) * float(rng.choice([-1, 1]))
        if abs(abs(k) - 1) < 0.1:
            k = 2.0
        TB = k * TA
        fA = FORMS[eclass][int(rng.integers(len(FORMS[eclass])))]
        fB = FORMS[eclass][int(rng.integers(len(FORMS[eclass])))]
        U0 = U0_of(TA)
        base = {'shape': shape, 'form_A': fA, 'form_B': fB}
        summary.append([shape, eclass, fA, fB, round(k, 3)])

        # --- isolated references: one object at a time, evaluated before the next one is created
        iso_obj = _new_object(shape, matrix, prec, how)
        iso_obj.setEigenstrain(_as_form(TA, fA))
        EA_iso = float(iso_obj.compute(r))
        del iso_obj
        iso_obj = _new_object(shape, matrix, prec, how)
        iso_obj.setEigenstrain(_as_form(TB, fB))
        EB_iso = float(iso_obj.compute(r))
        del iso_obj

        # --- two objects alive at the same time, plus one that never gets an eigenstrain
        A = _new_object(shape, matrix, prec, how)
        B = _new_object(shape, matrix, prec, how)
        Z = _new_object(shape, matrix, prec, how)
        # a further live object that always holds a per-axis (3-vector) eigenstrain, so that every clause below is decided
        # by objects of this case alone (replay of the single case reproduces it, whatever ran before in the worker)
        W = _new_object(shape, matrix, prec, how)
        TW = _draw_eig(rng, 'dil' if shape == 'sphere' else 'diag')
        W.setEigenstrain(_as_form(TW, 'vector'))
        inA, inB = _as_form(TA, fA), _as_form(TB, fB)
        keepA, keepB = np.array(inA, dtype=float).copy(), np.array(inB, dtype=float).copy()
        if rng.random() < 0.5:
            A.setEigenstrain(inA)
            B.setEigenstrain(inB)
        else:
            B.setEigenstrain(inB)
            A.setEigenstrain(inA)
        order = 'A-then-B' if rng.random() < 0.5 else 'B-then-A'
        if order == 'A-then-B':
            EA, EB = float(A.compute(r)), float(B.compute(r))
        else:
            EB, EA = float(B.compute(r)), float(A.compute(r))
        EZ = float(Z.compute(r))
        e = abs(EB - k * k * EA) / (k * k * U0)
        R.worst('ownership_scaling_across_objects', e)
        R.check('eigenstrain_ownership', e <= TOL_SCALE, dict(base, clause='quadratic scaling across coexisting objects'),
                E_A=EA, E_B=EB, k=k, ratio=EB / EA if EA else None, expected_ratio=k * k, eps_A=TA, eps_B=TB,
                stored_A=A.params.eigenstrain, stored_B=B.params.eigenstrain)
        for nm, Eco, Eiso, sc in (('A', EA, EA_iso, U0), ('B', EB, EB_iso, k * k * U0)):
            e = abs(Eco - Eiso) / sc
            R.worst('ownership_coexisting_vs_isolated', e)
            R.check('eigenstrain_ownership', e <= TOL_ORDER, dict(base, clause='coexisting object = same specification in isolation', object=nm),
                    coexisting=Eco, isolated=Eiso, diff_over_U0=e)
        R.check('eigenstrain_ownership', EZ == 0.0, dict(base, clause='object without eigenstrain has zero energy'),
                energy=EZ, stored_eigenstrain=Z.params.eigenstrain, other_objects_eigenstrains=[TA, TB, TW])
        EW = float(W.compute(r))
        Wf = _new_object(shape, matrix, prec, how)
        Wf.setEigenstrain(np.array(TW, dtype=float))
        e = abs(EW - float(Wf.compute(r))) / U0_of(TW)
        R.check('eigenstrain_ownership', e <= TOL_ORDER, dict(base, clause='coexisting object = same specification in isolation', object='W(vector)'),
                coexisting=EW, as_tensor_on_fresh_object=float(Wf.compute(r)), diff_over_U0=e, stored_W=W.params.eigenstrain, eps_W=TW)

        # --- history on one object H, with A as bystander
        if shape != 'sphere':
            H = _new_object(shape, matrix, prec, how)
            nsteps = int(rng.integers(2, 6))
            handed = []
            forms = []
            last = None
            for sidx in range(nsteps):
                ec = ['dil', 'diag', 'full'][int(rng.integers(3))]
                fm = FORMS[ec][int(rng.integers(len(FORMS[ec])))]
                T = _draw_eig(rng, ec)
                arg = _as_form(T, fm)
                if isinstance(arg, np.ndarray):
                    handed.append((fm, sidx, arg, arg.copy()))
                H.setEigenstrain(arg)
                forms.append(fm)
                last = T
            EH = float(H.compute(r))
            F = _new_object(shape, matrix, prec, how)
            F.setEigenstrain(np.array(last, dtype=float))
            EF_ = float(F.compute(r))
            U0l = U0_of(last)
            stored_ok = bool(np.array_equal(np.asarray(H.params.eigenstrain, dtype=float), last))
            e = abs(EH - EF_) / U0l
            R.worst('history_vs_fresh', e)
            R.check('eigenstrain_history', e <= TOL_ORDER,
                    {'shape': shape, 'clause': 'energy = fresh object with the last specification', 'last_form': forms[-1],
                     'previous_form': forms[-2], 'stored_tensor_matches_last_specification': stored_ok},
                    history=forms, after_history=EH, fresh=EF_, diff_over_U0=e, stored=H.params.eigenstrain, last_specification=last)
            for fm, sidx, arr, orig in handed:
                R.check('eigenstrain_history', np.array_equal(arr, orig),
                        {'shape': shape, 'clause': 'caller array unmodified', 'form': fm,
                         'next_form': forms[sidx + 1] if sidx + 1 < len(forms) else 'none'},
                        handed_in=orig, now=arr, history=forms, step=sidx)
            # bystander: A was not touched by any of the calls on H / F
            EA2 = float(A.compute(r))
            e = abs(EA2 - EA) / U0
            R.check('eigenstrain_ownership', e <= TOL_ORDER, dict(base, clause='bystander energy unchanged by calls on another object',
                                                                   other_history_first_form=forms[0]),
                    before=EA, after=EA2, diff_over_U0=e, stored_A=A.params.eigenstrain, eps_A=TA)
        for nm, arr, orig in (('A', inA, keepA), ('B', inB, keepB)):
            if isinstance(arr, np.ndarray):
                R.check('eigenstrain_history', np.array_equal(arr, orig),
                        {'shape': shape, 'clause': 'caller array unmodified', 'form': fA if nm == 'A' else fB, 'next_form': 'none'},
                        handed_in=orig, now=arr)
    R.info['trials'] = summary
    R.set_nontrivial(True, case_hash({'trials': summary, 'n': case['n']}))


# ------------------------------------------------------------------------------------------------ dispatch
def run_case(case, R):
    kind = case['kind']
    if kind == 'nodes':
        return case_nodes(case, R)
    if kind == 'energy':
        return case_energy(case, R)
    if kind == 'moduli':
        return case_moduli(case, R)
    if kind == 'tensor':
        return case_tensor(case, R)
    if kind == 'eqar':
        return case_eqar(case, R)
    if kind == 'ownership':
        return case_ownership(case, R)
    raise ValueError(kind)


MANIFEST = {
    'text': 'Random mechanically stable stiffness pairs (isotropic, cubic aligned, cubic rotated), eigenstrains (dilatational, '
            'diagonal, with shear), semi-axes and rotations are run through the real StrainEnergy / EllipsoidalEnergyDescription '
            'code; positivity, cubic size scaling, quadratic eigenstrain scaling, 6x6 = 4th rank, Cramer = LAPACK inversion, '
            'inhomogeneous = homogeneous for equal stiffness, the isotropic-sphere closed form (ellipsoid formulas and spherical '
            'approximation), the textbook isotropic-sphere Eshelby tensor, invariance under rotation of an isotropic matrix '
            '(also as a 90-degree turn of the particle against the matrix), '
            'independence of the setter order, exactness of each shipped quadrature order on all monomials up to its degree, '
            'tensor-rank and modulus-pair round trips and agreement of the two equilibrium-aspect-ratio searches are asserted. '
            'Every relation that involves the sphere integral is evaluated with the shipped node sets and with an injected '
            'Gauss-Legendre product rule.',
    'note': 'trusted: closed forms in the check, numpy Gauss-Legendre nodes (self-checked on monomials up to degree 95), scipy gammaln; '
            'sampled, not exhaustive; applied-stress variant and cuboidal approximation not covered',
    'technique': 'metamorphic / closed-form reference monitors on paired executions of the real code, with quadrature injection '
                 'through public attributes to separate node-table defects from tensor-algebra defects',
}
