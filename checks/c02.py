"""C02 - reported precipitate statistics are moments of the size distribution.

Deciding monitors (vlib/precip_monitors.py:C02Monitor), evaluated at every accepted step of real runs:
  c02.density / c02.Ravg / c02.volFrac / c02.empty
        recorded number density, mean radius, volume fraction = zeroth moment, first/zeroth ratio,
        scaled third moment (independent volume factor) of the distribution exactly as the mass balance
        saw it (relative 1e-12 / 1e-11); below the documented minimum density radius and fraction are 0
  c02.removal
        the user-visible distribution after the step differs from that distribution only by the documented
        removals: class < 1 particle/m^3, class centre below the minimum radius, class at/below the
        stability index; after a grid change the reference is the distribution right after the grid
        operation (captured by instance-level wrappers of the PBM's public grid methods)
  c02.extend_prefix / c02.remesh_m3
        grid extension keeps the old classes bit-identical and adds empty ones; re-meshing preserves the
        third moment (1e-9) when the new grid covers the populated range
  c02.transport / c02.density_step
        on the un-truncated integrator output: -(N_first + N_last) - tol <= sum(N_new) - sum(N_old) <= J dt (1+1e-9) + tol,
        J the nucleation rate used by the final update (nothing enters except nucleation, nothing leaves except
        through the end faces); the reported density obeys the same upper bound relative to the user-visible
        distribution of the previous step, so with J = 0 it never increases.
Transiently negative classes in the raw output are counted as events (C07 states when they are legal).
Decision recorded: loss through the *largest* class face is allowed in the lower bound although the statement
only names the smallest class - the library extends the grid as soon as the last class holds one particle, so
that flux is bounded by one particle per m^3 and asserting its absence would be stricter than the code's documented design.
"""
import numpy as np

from vlib import core, precip_gen

PROPERTY = 'C02'
LEVEL = 'exploration'
RULE = ('random precipitation configurations as for C01 (vlib/precip_gen.py); non-trivial = peak total precipitate fraction > 1e-6 and '
        '>= 50 observed steps; distinct by configuration hash; grid extensions and re-meshes seen are counted in observed_events')
REQUIRED_MONITORS = ['c02.density', 'c02.Ravg', 'c02.volFrac', 'c02.removal', 'c02.transport', 'c02.density_step', 'c02.extend_prefix']
REACH = ['precipitation/KWNEuler.py:PrecipitateModel._calcMassBalance', 'precipitation/PopulationBalance.py:PopulationBalanceModel.UpdatePBMEuler',
         'precipitation/KWNEuler.py:PrecipitateModel._updateParticleSizeDistribution',
         'precipitation/PopulationBalance.py:PopulationBalanceModel.getdXdtEuler',
         'precipitation/PopulationBalance.py:PopulationBalanceModel.addSizeClasses']
MIN_NONTRIVIAL = {'quick': 8, 'thorough': 80}
CASE_TIMEOUT = 900
CASE_TIMEOUT_THOROUGH = 1800
MAX_INCONCLUSIVE_FRACTION = 0.05
N_SAMPLES = 3
ASSUMPTIONS = ['RK4: the nucleation rate of the final update is read from the model\'s current slice at integrator return',
               'sampled configurations only']
MANIFEST = {
    'text': 'Every accepted step of sampled real precipitation runs is checked: recorded aggregates against independently computed moments '
            'of the distribution the mass balance used, the user-visible distribution against the documented removals (also across grid '
            'extension and re-meshing), and the number balance of the raw integrator output against nucleation and end-face losses.',
    'note': 'trusted: numpy; the grid-operation wrappers only copy state before/after the public calls',
    'technique': 'per-step invariant monitor (moments / documented-removal / number-balance oracles) on hooked state',
}
N_CASES = {'quick': 32, 'thorough': 320}


def plan(tier, seed):
    cases = []
    for i in range(N_CASES[tier]):
        rng = core.case_rng(seed, PROPERTY, i)
        forced = {0: 'alzr', 1: 'nialcr', 2: 'almgsi', 3: 'nialcr', 4: 'alzr', 5: 'cuti'}.get(i % 8)   # cuti: binary, two precipitate phases
        cfg = precip_gen.gen_config(rng, system=forced, tier=tier, allow_noniso=(i % 6 == 0), grid_class='in_range')
        if i % 4 == 1:          # small grids so that extension / re-meshing happens often
            cfg['pbm'].update({'cMax': 3e-9, 'bins': 30, 'minBins': 24, 'maxBins': 48, 'adaptive': True})
        cases.append({'cfg': cfg, 'weight': precip_gen.cfg_weight(cfg)})
    # parameters changed through public setters between two solve() calls (interfacial energy of boundary-site phases, molar
    # volumes): the scale between third moment and volume fraction follows the parameters in force
    # (added after seeded change C02-c: the scale was cached at the first setup)
    for j in range(4 if tier == 'quick' else 24):
        rng = core.case_rng(seed, PROPERTY, 7000 + j)
        system = ['alzr', 'nialcr', 'almgsi', 'nialcr'][j % 4]
        cfg = precip_gen.gen_config(rng, system=system, tier=tier, allow_noniso=False, grid_class='in_range',
                                    sites=(['grain boundaries', 'grain edges', 'grain corners'] if j % 2 == 0 else None))
        dur = sum(cfg['segments'])
        cfg['segments'] = [0.5 * dur, 0.3 * dur, 0.2 * dur]
        ph = cfg['phases']
        cfg['stage_changes'] = {'1': [{'what': 'gamma', 'phase': ph[0], 'factor': float(rng.uniform(1.05, 1.3))}],
                                '2': [{'what': str(rng.choice(['VmBeta', 'VmAlpha'])), 'phase': ph[-1], 'factor': float(rng.uniform(0.85, 1.15))}]}
        cfg['max_steps'] = min(cfg['max_steps'], 500)
        cfg['cap_per_segment'] = True
        cases.append({'cfg': cfg, 'weight': precip_gen.cfg_weight(cfg) * 2})
    # age, then dissolve completely above the solvus (added after seeded change C02-b: stale statistics of an emptied phase)
    for j in range(3 if tier == 'quick' else 24):
        rng = core.case_rng(seed, PROPERTY, 5000 + j)
        cfg = precip_gen.gen_dissolution_config(rng, ['nialcr', 'alzr', 'nialcr', 'almgsi'][j % 4], tier)
        cases.append({'cfg': cfg, 'weight': 4e4 * cfg['max_steps'] / 100})
    return cases


def run_case(case, R):
    from vlib.precip_run import TrajectoryRun
    from vlib.precip_monitors import C02Monitor, C01Monitor
    cfg = case['cfg']
    mon = C02Monitor()
    aux = C01Monitor()      # only for the peak fraction (its checks are renamed away below)
    run = TrajectoryRun(cfg, _Only(R, 'c02.'), [mon, aux], max_steps=cfg['max_steps']).execute()
    if run.rejected or R.inconclusive:
        return
    if run.error is not None:
        R.observe('runs_ended_by_exception')
        R.info['error'] = '%s: %s' % (type(run.error).__name__, str(run.error)[:200])
    if cfg.get('dissolution'):
        pdn = run.model.pData
        emptied = bool(np.any((np.max(pdn.precipitateDensity, axis=0) > 1) & (pdn.precipitateDensity[-1] < run.model.constraints.minNucleateDensity)))
        R.observe('runs_with_complete_dissolution', int(emptied))
        R.info['dissolved_completely'] = emptied
    R.info.update({'steps': run.steps, 'peak_fv': aux.peak_fv, 'remesh': mon.remesh_events, 'extend': mon.extend_events,
                   'system': cfg['system'], 'iterator': cfg['iterator'], 'segments': len(cfg['segments'])})
    R.set_nontrivial(aux.peak_fv > 1e-6 and run.steps >= 50)


class _Only:
    """Forwards to the case result but drops monitors of other properties."""

    def __init__(self, R, prefix):
        self.__dict__['_R'] = R
        self.__dict__['_p'] = prefix

    def check(self, monitor, ok, mech=None, **detail):
        if monitor.startswith(self._p):
            return self._R.check(monitor, ok, mech, **detail)
        return ok

    def exception(self, monitor, exc, mech=None, **detail):
        if monitor.startswith(self._p):
            return self._R.exception(monitor, exc, mech, **detail)
        return False

    def worst(self, name, value):
        if name.startswith(self._p.replace('.', '_')):
            self._R.worst(name, value)

    def __getattr__(self, k):
        return getattr(self._R, k)

    def __setattr__(self, k, v):
        setattr(self._R, k, v)
