"""C04 - diffusion conserves every component and honours boundary conditions.

Runtime monitors on executions of the real SinglePhaseModel / HomogenizationModel (kawin/diffusion), driven
through the public GenericModel.solve.  Two documented seams plus one instance-level recorder are used, nothing in
the repository is edited:

  * step observer      model.addCouplingModel(obj): obj.updateCoupledModel(model) runs at the end of postProcess
                       of every accepted step -> the state (t, x) the user can see after the step;
  * monitoring iterator solve(solverType=<callable>) wrapping the built-in ExplicitEulerIterator / RK4Iterator
                       -> the state the step starts from, the step size actually used and the raw integrator
                       output before postProcess clips it;
  * an instance-level wrapper around model._getFluxes records the face fluxes of every stage (Euler 1, RK4 4);
    on Euler runs the public getFluxes() is evaluated at the state the step starts from as well.

Monitors
  conservation   per accepted step and independent component e (a component whose integrator output left
                 [minComposition, 1-minComposition] at some node on that step was clamped by postProcess: such
                 'clip steps' are counted and that component is excluded for that step - the clamp is the documented
                 deviation):
                     fsum_i x[e,i](n+1) - fsum_i x[e,i](n)  =  (J_L - J_R) * dt / dz ,   |err| <= 1e-13 * N
                 J_L / J_R: for a flux condition the constant the *user* supplied (taken from the case
                 description, not from the model); for a fixed-composition side the flux through the face adjacent
                 to the boundary node (face 1 / face N-1), Euler: from the public getFluxes() at the start state
                 (falls back to the recorded stage flux when the two are not bit-identical, event
                 public_flux_differs), RK4: recorded stage fluxes weighted 1:2:2:1.  dz = (zR-zL)/(N-1) and dt (value
                 returned by the iterator) are the harness's own.  Sums are exact (math.fsum), so the residual is
                 only the rounding of kawin's own update  x + (-(J[i+1]-J[i])/dz)*dt : per node <= eps/2*|x| +
                 ~3 eps*|J|dt/dz <= ~4e-16, i.e. <= ~4e-16*N worst case over the mesh; the constant 1e-13*N is
                 >= 250x that bound (measured worst over seeds 0,1,2,3,7: 1.3e-16*N, i.e. ~800x margin; see
                 worst_residuals in the evidence) and >= 1e3x below the smallest seeded effect (clamp to n*min instead
                 of min: >= 1e-8; wrong-side flux 1e-4..1e-2; per-call shift N*n*minComposition >= 1.6e-7).
  fixed_node     a node with a fixed-composition condition is bit-identical to its value after setup() after every
                 step of a call ('step'), and at the first step of call k+1 bit-identical to the end of call k
                 ('call boundary'; reference is re-based after a report so that one defect is reported once); after
                 the first setup it lies within n_elements*minComposition of the value the user asked for (the
                 documented setup shift).
  bounds         every independent-component node is finite and inside [minComposition, 1-minComposition] after
                 setup and after every step.
  call_boundary  the profile (hence every mesh total, compared with exact sums) at the first step of solve call k+1
                 equals the profile at the end of call k: nothing may change between calls (per-call drift).

Admissibility (rejects are counted, never judged): a homogenization run is admissible only while at every node at least
one stable phase has mobility data (kawin marks missing data with -1; the Ni-Cr(-Al) test database has no BCC
mobilities, so a node that becomes pure BCC makes every averaging rule return NaN/denormal garbage).  The composition
windows keep the workload away from that region; if a state nevertheless turns non-finite the filter
(computeMobility on the states of that step) decides between rejected_no_mobility_data and a 'bounds' violation.

Deliberately NOT asserted (statement silent): the dependent component 1-sum(x) >= minComposition (only counted:
dependent_below_min); faithfulness/duplication of the recorded history (only counted: history_extra_entries); that
getFluxes() equals the flux used by the step; stage times (C06); that solve() succeeds (an exception escaping kawin
is counted as solve_exception and the case is not non-trivial - C03 owns that).  Conservation on clip steps.
"""
import math

import numpy as np

PROPERTY = 'C04'
LEVEL = 'exploration'
RULE = ('random diffusion configurations: model {single phase, homogenization x 5 averaging rules} x system {Ni-Cr, '
        'Ni-Cr-Al, Fe-Cr-Ni} x mesh 8-60 nodes (length 1e-5..2e-3 m, run time scaled from the model\'s own first '
        'step so that >=20 steps are planned) x initial profile per element {step, linear, bounded, single node, '
        'function, data, smooth tail (exp/gauss/erfc) decaying through or levelling off inside (min, (n+2)*min), data arrays and plateaus with trace values in that interval} x minComposition 1e-8..1e-3 x temperature {constant, time array, f(z,t) field} x boundary condition per element and '
        'side {closed (default or zero flux set explicitly), non-zero flux, fixed composition incl. value exactly 0 (perfect sink) alone/with all other boundary values zero/mixed with non-zero ones, draining flux on an empty node} x {Euler, RK4} x cache {on, off request, 3-5 digits} x 1-4 '
        'consecutive solve calls; balanced decks per dimension, pairings random in the seed. A case is non-trivial '
        'when >=10 steps were accepted, max|x_final-x_initial| > 1e-6 and the identity was evaluated on >=5 steps (not clamped); distinct by '
        'configuration hash')
REQUIRED_MONITORS = ['conservation', 'fixed_node', 'bounds', 'call_boundary']
REACH = ['diffusion/Diffusion.py:DiffusionModel.setup', 'diffusion/Diffusion.py:DiffusionModel.getdXdt',
         'diffusion/Diffusion.py:DiffusionModel.postProcess',
         'diffusion/SinglePhase.py:SinglePhaseModel._getFluxes',
         'diffusion/Homogenization.py:HomogenizationModel._getFluxes',
         'diffusion/DiffusionParameters.py:BoundaryConditions.applyBoundaryConditionsToFluxes',
         'diffusion/DiffusionParameters.py:BoundaryConditions.applyBoundaryConditionsToInitialProfile',
         'diffusion/DiffusionParameters.py:CompositionProfile.buildProfile',
         'diffusion/HomogenizationParameters.py:wienerUpper', 'diffusion/HomogenizationParameters.py:wienerLower',
         'diffusion/HomogenizationParameters.py:hashinShtrikmanUpper',
         'diffusion/HomogenizationParameters.py:hashinShtrikmanLower',
         'diffusion/HomogenizationParameters.py:labyrinth',
         'solver/Iterators.py:ExplicitEulerIterator', 'solver/Iterators.py:RK4Iterator',
         'solver/Solver.py:DESolver.solve']
NCASES = {'quick': 160, 'thorough': 1280}
MIN_NONTRIVIAL = {'quick': 100, 'thorough': 900}
CASE_TIMEOUT = 900
MAX_INCONCLUSIVE_FRACTION = 0.0
ASSUMPTIONS = ['the universally quantified statement is sampled: random configurations, 20-150 steps each',
               'cell width = node spacing (zR-zL)/(N-1); left flux positive into the mesh, right flux positive out of it '
               '(dx/dt = -(J[i+1]-J[i])/dz)',
               'a component whose integrator output left [min, 1-min] at a node on a step is excluded from the conservation '
               'identity for that step (documented clamp), counted as clip step',
               'homogenization runs are admissible only where some stable phase has mobility data at every node',
               '"keeps that composition" is read as: bit-identical to the node value after setup(), which lies within '
               'n_elements*minComposition of the requested value']

TOL_PER_NODE = 1e-13

SYSTEMS = {
    'NiCr': {'elements': ['NI', 'CR'], 'db': 'NICRAL_TDB',
             'win': {'single': {'CR': (0.03, 0.40)}, 'homog': {'CR': (0.05, 0.55)}}},
    'NiCrAl': {'elements': ['NI', 'CR', 'AL'], 'db': 'NICRAL_TDB',
               'win': {'single': {'CR': (0.03, 0.35), 'AL': (0.02, 0.14)},
                       'homog': {'CR': (0.03, 0.45), 'AL': (0.02, 0.20)}}},
    'FeCrNi': {'elements': ['FE', 'CR', 'NI'], 'db': 'FECRNI_DB',
               'win': {'single': {'CR': (0.05, 0.40), 'NI': (0.03, 0.30)},
                       'homog': {'CR': (0.05, 0.45), 'NI': (0.03, 0.35)}}},
}
HFUNCS = ['wiener upper', 'wiener lower', 'hashin upper', 'hashin lower', 'lab']
PROFILE_KINDS = ['step', 'linear', 'bounded', 'single', 'function', 'data', 'tail', 'trace_data', 'trace_plateau']


# ================================================================================================
# plan

def _r(v, nd=6):
    return float(np.round(float(v), nd))


def _g(v):
    return float('%.6g' % float(v))


def _draw_profile(rng, kind, lo, hi, minc=1e-8, nel=3):
    """Build steps (JSON) of one element; positions are relative coordinates u in [0, 1]."""
    u = lambda a, b: _r(rng.uniform(a, b))
    if kind == 'linear':
        return [{'kind': 'linear', 'L': u(lo, hi), 'R': u(lo, hi)}]
    if kind == 'step':
        return [{'kind': 'step', 'L': u(lo, hi), 'R': u(lo, hi), 'u': u(0.2, 0.8)}]
    if kind in ('bounded', 'single'):
        steps = []
        if rng.random() < 0.65:          # background; otherwise the rest of the mesh is empty (-> minComposition)
            bg = u(lo, hi)
            steps.append({'kind': 'linear', 'L': bg, 'R': bg})
        if kind == 'bounded':
            a = rng.uniform(0.05, 0.6)
            steps.append({'kind': 'bounded', 'value': u(lo, hi), 'u1': _r(a), 'u2': _r(a + rng.uniform(0.1, 0.35))})
        else:
            steps.append({'kind': 'single', 'value': u(lo, hi), 'u': u(0.05, 0.95)})
        return steps
    if kind == 'function':
        mid, half = 0.5 * (lo + hi), 0.5 * (hi - lo)
        a = mid + rng.uniform(-0.3, 0.3) * half
        b = rng.uniform(0.2, 0.65) * half * rng.choice([-1, 1])
        if rng.random() < 0.5:
            return [{'kind': 'function', 'f': 'tanh', 'a': _r(a), 'b': _r(b), 'u0': u(0.3, 0.7), 'w': u(0.03, 0.3)}]
        return [{'kind': 'function', 'f': 'sin', 'a': _r(a), 'b': _r(b), 'k': int(rng.integers(1, 4))}]
    # ---- values just above the minimum composition: min ... (n_elements+2)*min (setup shifts by n_elements*min and clamps)
    trace = lambda: _g(rng.uniform(1.05, nel + 1.9) * minc)
    if kind == 'tail':
        A = u(lo, hi)
        shape = ['exp', 'gauss', 'erfc'][int(rng.integers(0, 3))]
        if rng.random() < 0.5:
            floor = 0.0                                   # decays through the critical interval down to 0.3*min
            L = math.log(A / (0.3 * minc))
            lam = 1.0 / L if shape == 'exp' else 1.0 / math.sqrt(L)
        else:
            floor = trace()                               # tail levels off on a trace plateau inside the interval
            lam = float(rng.uniform(0.08, 0.3))
        return [{'kind': 'function', 'f': 'tail', 'shape': shape, 'A': A, 'floor': floor, 'lam': _g(lam),
                 'flip': bool(rng.random() < 0.5)}]
    if kind == 'trace_data':
        n = int(rng.integers(4, 8))
        us = np.sort(rng.uniform(0.0, 1.0, n))
        xs = [u(lo, hi) if rng.random() < 0.4 else trace() for _ in range(n)]
        xs[int(rng.integers(0, n))] = trace()
        return [{'kind': 'data', 'u': [_r(v) for v in us], 'x': xs}]
    if kind == 'trace_plateau':
        c = int(rng.integers(0, 3))
        if c == 0:
            a, b = (u(lo, hi), trace()) if rng.random() < 0.5 else (trace(), u(lo, hi))
            return [{'kind': 'step', 'L': a, 'R': b, 'u': u(0.2, 0.8)}]
        if c == 1:
            a = rng.uniform(0.05, 0.6)
            return [{'kind': 'linear', 'L': trace(), 'R': trace()},
                    {'kind': 'bounded', 'value': u(lo, hi), 'u1': _r(a), 'u2': _r(a + rng.uniform(0.1, 0.35))}]
        return [{'kind': 'linear', 'L': u(lo, hi), 'R': trace()}]
    if kind == 'data':
        n = int(rng.integers(3, 7))
        us = np.sort(rng.uniform(0.0, 1.0, n))
        us[0] = 0.0 if rng.random() < 0.5 else us[0]
        return [{'kind': 'data', 'u': [_r(v) for v in us], 'x': [u(lo, hi) for _ in range(n)]}]
    raise ValueError(kind)


def _deck(rng, options, n):
    idx = np.resize(np.arange(len(options)), n)
    return [options[i] for i in rng.permutation(idx)]


def plan(tier, seed):
    n = NCASES[tier]
    rng = np.random.default_rng(np.random.SeedSequence([int(seed) & 0xFFFFFFFF, 4, 1 if tier == 'thorough' else 0]))
    D = {
        'model': _deck(rng, ['single', 'homog'], n),
        'system': _deck(rng, ['NiCr', 'NiCrAl', 'FeCrNi'], n),
        'hfunc': _deck(rng, HFUNCS, n),
        'iterator': _deck(rng, ['euler', 'rk4'], n),
        'ncalls': _deck(rng, [1, 2, 3, 4, 1, 2], n),
        'pkind': _deck(rng, PROFILE_KINDS, n),
        'T': _deck(rng, ['const', 'array', 'field', 'const'], n),
        'bcmode': _deck(rng, ['closed', 'flux', 'comp', 'mixed', 'mixed', 'flux', 'comp', 'mixed', 'zero', 'zero'], n),
        'minc': _deck(rng, [1e-8, 1e-8, 1e-8, 1e-7, 1e-6, 1e-5, 1e-4, 1e-3], n),
    }
    cases = []
    for i in range(n):
        model, system, it = D['model'][i], D['system'][i], D['iterator'][i]
        els = SYSTEMS[system]['elements'][1:]
        win = SYSTEMS[system]['win'][model]
        N = int(rng.integers(8, 61)) if tier == 'thorough' else int(rng.integers(8, 41))
        length = float(10 ** rng.uniform(-5, -2.7))
        zL = _r(rng.choice([0.0, -0.5, -1.0, 0.3]) * length, 12)
        zlim = [zL, _r(zL + length, 12)]
        profiles = {}
        for k, e in enumerate(els):
            kind = D['pkind'][i] if k == 0 else PROFILE_KINDS[int(rng.integers(0, len(PROFILE_KINDS)))]
            profiles[e] = _draw_profile(rng, kind, *win[e], minc=D['minc'][i], nel=len(els) + 1)
        # boundary conditions per element and side
        bc = {}
        mode = D['bcmode'][i]
        for e in els:
            bc[e] = {}
            for side in ('L', 'R'):
                if mode == 'closed':
                    kind = 'closed'
                elif mode == 'zero':
                    # every boundary VALUE in the model is zero: perfect sinks (fixed composition 0), closed sides
                    # left at their default and zero fluxes set explicitly
                    kind = ['comp0', 'comp0', 'closed', 'flux0'][int(rng.integers(0, 4))]
                elif mode == 'flux':
                    kind = ['flux', 'flux', 'closed', 'drain'][int(rng.integers(0, 4))]
                elif mode == 'comp':
                    kind = ['comp', 'comp', 'closed'][int(rng.integers(0, 3))]
                else:
                    kind = ['closed', 'flux', 'comp', 'drain', 'flux', 'comp'][int(rng.integers(0, 6))]
                if kind == 'flux':
                    val = _r(rng.uniform(0.15, 1.0) * rng.choice([-1, 1]))       # signed fraction of the safe amount, >0 = into the mesh
                elif kind == 'drain':
                    val = _r(rng.uniform(0.3, 1.0))
                elif kind == 'comp':
                    # a quarter of the fixed-composition sides are perfect sinks (value exactly 0), mixed with non-zero values
                    val = 0.0 if rng.random() < 0.25 else _r(rng.uniform(*win[e]))
                else:
                    val = 0.0
                    if kind == 'closed' and mode != 'zero' and rng.random() < 0.2:
                        kind = 'flux0'          # zero flux set explicitly instead of left at the default
                if kind == 'comp0':
                    kind = 'comp'
                bc[e][side] = [kind, val]
        if mode == 'zero' and not any(bc[e][s][0] == 'comp' for e in els for s in 'LR'):
            bc[els[int(rng.integers(0, len(els)))]]['LR'[int(rng.integers(0, 2))]] = ['comp', 0.0]
        if mode not in ('closed', 'zero') and all(bc[e][s][0] in ('closed', 'flux0') for e in els for s in 'LR'):
            bc[els[0]]['L'] = ['flux', _r(rng.uniform(0.3, 1.0))] if mode != 'comp' else ['comp', _r(rng.uniform(*win[els[0]]))]
        ncalls = D['ncalls'][i]
        fr = rng.dirichlet(np.ones(ncalls) * 3.0) * 0.8 + 0.2 / ncalls
        steps = int(rng.integers(22, 46)) if tier == 'quick' else int(rng.integers(25, 110))
        if it == 'rk4':
            steps = max(20, int(steps * 0.6))
        T0 = _r(rng.uniform(1273.0, 1473.0), 2)
        tk = D['T'][i]
        if tk == 'const':
            T = {'kind': 'const', 'T': T0, 'api': ['ctor', 'setter'][int(rng.integers(0, 2))]}
        elif tk == 'array':
            m = int(rng.integers(2, 5))
            T = {'kind': 'array', 'frac': [0.0] + [_r(v) for v in np.sort(rng.uniform(0.05, 1.1, m - 1))],
                 'temps': [_r(T0 + rng.uniform(-60, 60), 2) for _ in range(m)],
                 'api': ['ctor', 'setter'][int(rng.integers(0, 2))]}
        else:
            T = {'kind': 'field', 'T0': T0, 'gz': _r(rng.uniform(-60, 60), 2), 'gt': _r(rng.uniform(-50, 50), 2)}
        c = {'model': model, 'system': system, 'iterator': it, 'N': N, 'zlim': zlim, 'profiles': profiles,
             'profile_api': 'setters' if (all(len(p) == 1 for p in profiles.values()) and rng.random() < 0.4) else 'object',
             'bc': bc, 'bc_api': ['object', 'strings', 'setBC'][int(rng.integers(0, 3))],
             'T': T, 'calls': [_r(v) for v in fr], 'steps': steps,
             'limit_dt': bool(model == 'homog' or rng.random() < 0.5),
             'minComposition': D['minc'][i],
             'vonNeumann': [0.4, 0.4, 0.25][int(rng.integers(0, 3))],
             'maxChange': [0.002, 0.002, 0.001][int(rng.integers(0, 3))],
             'record': bool(rng.random() < 0.85),
             'hash_digits': [4, 4, 3, 5][int(rng.integers(0, 4))], 'use_cache': bool(rng.random() < 0.75)}
        if model == 'homog':
            c['hfunc'] = D['hfunc'][i]
            c['eps'] = _r(rng.uniform(0.01, 0.05), 4)
            c['lab'] = [1, 1.5, 2][int(rng.integers(0, 3))]
        per = {'single': 0.05, 'homog': 0.12}[model] * (1.6 if it == 'rk4' else 1.0) * (1.5 if len(els) > 1 else 1.0)
        c['weight'] = round(steps * N / 24.0 * per + 1.0, 2)
        cases.append(c)
    return cases


# ================================================================================================
# building the real models from a case description

_THERM = {}


def _therm(system):
    if system not in _THERM:
        from kawin.thermo import GeneralThermodynamics
        import kawin.tests.datasets as ds
        s = SYSTEMS[system]
        _THERM[system] = GeneralThermodynamics(getattr(ds, s['db']), s['elements'], ['FCC_A1', 'BCC_A2'])
    return _THERM[system]


def _zabs(case, u):
    zL, zR = case['zlim']
    return zL + u * (zR - zL)


def _func(case, s):
    zL, zR = case['zlim']
    L = zR - zL
    if s['f'] == 'tail':
        from scipy.special import erfc
        A, floor, lam, flip, shape = s['A'], s['floor'], s['lam'], s['flip'], s['shape']

        def tail(z):
            v = (np.asarray(z, dtype=float) - zL) / L
            v = (1.0 - v) if flip else v
            g = np.exp(-v / lam) if shape == 'exp' else (np.exp(-(v / lam) ** 2) if shape == 'gauss' else erfc(v / lam))
            return floor + A * g
        return tail
    if s['f'] == 'tanh':
        a, b, u0, w = s['a'], s['b'], s['u0'], s['w']
        return lambda z: a + b * np.tanh(((np.asarray(z) - zL) / L - u0) / w)
    a, b, k = s['a'], s['b'], s['k']
    return lambda z: a + b * np.sin(k * np.pi * (np.asarray(z) - zL) / L)


def _temperature_callable(case, ttot):
    T = case['T']
    zL, zR = case['zlim']
    T0, gz, gt = T['T0'], T['gz'], T['gt']

    def field(z, t):
        z = np.asarray(z, dtype=float)
        return T0 + gz * ((z - zL) / (zR - zL) - 0.5) + gt * min(float(t) / ttot, 1.5) + 0.0 * z
    return field


def build_model(case, flux_values, ttot):
    """flux_values: {element: {'L': J, 'R': J}} absolute fluxes for flux sides (0 for closed)."""
    from kawin.diffusion import SinglePhaseModel, HomogenizationModel
    from kawin.diffusion.DiffusionParameters import (CompositionProfile, BoundaryConditions, TemperatureParameters,
                                                      DiffusionConstraints)
    from kawin.diffusion.HomogenizationParameters import HomogenizationParameters
    sysd = SYSTEMS[case['system']]
    els_all = sysd['elements']
    els = els_all[1:]
    therm = _therm(case['system'])

    kw = {}
    # --- composition profile
    cp = None
    if case['profile_api'] == 'object':
        cp = CompositionProfile()
        for e in els:
            for s in case['profiles'][e]:
                k = s['kind']
                if k == 'linear':
                    cp.addLinearCompositionStep(e, s['L'], s['R'])
                elif k == 'step':
                    cp.addStepCompositionStep(e, s['L'], s['R'], _zabs(case, s['u']))
                elif k == 'bounded':
                    cp.addBoundedCompositionStep(e, s['value'], _zabs(case, s['u1']), _zabs(case, s['u2']))
                elif k == 'single':
                    cp.addSingleCompositionStep(e, s['value'], _zabs(case, s['u']))
                elif k == 'function':
                    cp.addFunctionCompositionStep(e, _func(case, s))
                elif k == 'data':
                    cp.addProfileCompositionStep(e, list(s['x']), [_zabs(case, u) for u in s['u']])
        kw['compositionProfile'] = cp
    # --- boundary conditions
    BC = BoundaryConditions
    bco = None
    if case['bc_api'] in ('object', 'strings'):
        bco = BC()
        strings = case['bc_api'] == 'strings'
        for e in els:
            for side in ('L', 'R'):
                kind, val = case['bc'][e][side]
                if kind == 'closed' and not strings:
                    continue             # leave the default (closed) in place
                sd = ('left' if side == 'L' else 'right') if strings else (BC.LEFT if side == 'L' else BC.RIGHT)
                if kind == 'comp':
                    bco.setBoundaryCondition(sd, 'composition' if strings else BC.COMPOSITION_BC, val, e)
                else:
                    bco.setBoundaryCondition(sd, 'flux' if strings else BC.FLUX_BC, flux_values[e][side], e)
        kw['boundaryConditions'] = bco
    # --- temperature
    T = case['T']
    if T['kind'] == 'const':
        if T['api'] == 'ctor':
            kw['temperatureParameters'] = TemperatureParameters(T['T'])
    elif T['kind'] == 'array':
        times_h = [f * ttot / 3600.0 for f in T['frac']]
        if T['api'] == 'ctor':
            kw['temperatureParameters'] = TemperatureParameters(times_h, list(T['temps']))
    # --- constraints
    con = DiffusionConstraints()
    con.minComposition = case['minComposition']
    con.vonNeumannThreshold = case['vonNeumann']
    con.maxCompositionChange = case['maxChange']
    kw['constraints'] = con

    if case['model'] == 'single':
        m = SinglePhaseModel(list(case['zlim']), case['N'], els_all, ['FCC_A1'], thermodynamics=therm,
                             record=case['record'], **kw)
    else:
        hp = HomogenizationParameters(case['hfunc'], labyrinthFactor=case['lab'], eps=case['eps'])
        m = HomogenizationModel(list(case['zlim']), case['N'], els_all, ['FCC_A1', 'BCC_A2'], thermodynamics=therm,
                                homogenizationParameters=hp, record=case['record'], **kw)
    if case['profile_api'] == 'setters':
        for e in els:
            s = case['profiles'][e][0]
            k = s['kind']
            if k == 'linear':
                m.setCompositionLinear(s['L'], s['R'], e)
            elif k == 'step':
                m.setCompositionStep(s['L'], s['R'], _zabs(case, s['u']), e)
            elif k == 'bounded':
                m.setCompositionInBounds(s['value'], _zabs(case, s['u1']), _zabs(case, s['u2']), e)
            elif k == 'single':
                m.setCompositionSingle(s['value'], _zabs(case, s['u']), e)
            elif k == 'function':
                m.setCompositionFunction(_func(case, s), e)
            elif k == 'data':
                m.setCompositionProfile([_zabs(case, u) for u in s['u']], list(s['x']), e)
    if case['bc_api'] == 'setBC':
        for e in els:
            (kl, vl), (kr, vr) = case['bc'][e]['L'], case['bc'][e]['R']
            if kl == 'closed' and kr == 'closed':
                continue         # both left at the default; 'flux0' sides are set explicitly (value 0)
            lt = BC.COMPOSITION_BC if kl == 'comp' else BC.FLUX_BC
            rt = BC.COMPOSITION_BC if kr == 'comp' else BC.FLUX_BC
            m.setBC(lt, vl if kl == 'comp' else flux_values[e]['L'], rt, vr if kr == 'comp' else flux_values[e]['R'], element=e)
    if case.get('hash_digits', 4) != 4:
        m.setHashSensitivity(case['hash_digits'])
    if not case.get('use_cache', True):
        m.useCache(False)
    if T['kind'] == 'const' and T['api'] == 'setter':
        m.setTemperature(T['T'])
    elif T['kind'] == 'array' and T['api'] == 'setter':
        m.setTemperatureArray([f * ttot / 3600.0 for f in T['frac']], list(T['temps']))
    elif T['kind'] == 'field':
        m.setTemperatureFunction(_temperature_callable(case, ttot))
    return m


def _user_profile(case):
    """The initial profile as the user specified it (before setup shifts/clamps it); evidence counters only."""
    els = SYSTEMS[case['system']]['elements'][1:]
    z = np.linspace(case['zlim'][0], case['zlim'][1], case['N'])
    x = np.zeros((len(els), case['N']))
    for k, e in enumerate(els):
        for s in case['profiles'][e]:
            kd = s['kind']
            if kd == 'linear':
                x[k] = np.linspace(s['L'], s['R'], len(z))
            elif kd == 'step':
                x[k] = np.where(z <= _zabs(case, s['u']), s['L'], s['R'])
            elif kd == 'bounded':
                x[k, (z >= _zabs(case, s['u1'])) & (z <= _zabs(case, s['u2']))] = s['value']
            elif kd == 'single':
                x[k, int(np.argmin(np.abs(z - _zabs(case, s['u']))))] = s['value']
            elif kd == 'function':
                x[k] = _func(case, s)(z)
            elif kd == 'data':
                x[k] = np.interp(z, [_zabs(case, u) for u in s['u']], s['x'])
        for side, j in (('L', 0), ('R', -1)):
            if case['bc'][e][side][0] == 'comp':
                x[k, j] = case['bc'][e][side][1]
    return x


# ================================================================================================
# the monitor (observer + iterator + stage-flux recorder)

class _StepCap(Exception):
    pass


def mobility_data_everywhere(model, x, t):
    """Admissibility filter (homogenization model): at every node at least one stable phase has mobility data."""
    if not hasattr(model, 'homogenizationParameters'):
        return True
    from kawin.diffusion.DiffusionParameters import computeMobility
    try:
        T = model.temperatureParameters(model.z, t)
        md = computeMobility(model.therm, np.asarray(x, dtype=float).T, T, model.hashTable)
        for mob, frac in zip(md.mobility, md.phase_fractions):
            mob = np.asarray(mob)
            if not any(np.all(mob[p] != -1) and np.all(np.isfinite(mob[p])) and frac[p] > 0 for p in range(mob.shape[0])):
                return False
        return True
    except Exception:
        return False


class Monitor:
    def __init__(self, R, case, model, spec, dz):
        from kawin.solver.Iterators import ExplicitEulerIterator, RK4Iterator
        self.R, self.case, self.model = R, case, model
        self.spec = spec                  # {e_index: {'L': ('flux', J) | ('comp', value), 'R': ...}}
        self.dz = dz
        self.N = case['N']
        self.minc = case['minComposition']
        self.nel = len(SYSTEMS[case['system']]['elements'])
        self.base = ExplicitEulerIterator if case['iterator'] == 'euler' else RK4Iterator
        self.mech0 = {'model': case['model'], 'iterator': case['iterator']}
        self.all_zero_initial = self.all_zero
        self.steps = 0
        self.steps_in_call = 0
        self.call = 0
        self.cap = 10 ** 9
        self.end_prev = None              # profile at the end of the previous solve call
        self.ref_fixed = None             # {(e, side): value}
        self.x_first = None
        self.x_last = None
        self.stages = []
        self.stage_x = []
        self.logging = False
        self.pub = None
        self.x0 = None
        self.raw = None
        self.dt = None
        self.clip_steps = 0
        self.checked_steps = 0
        orig = model._getFluxes           # bound method of the real class

        def wrapped(t, x_curr):
            F = orig(t, x_curr)
            if self.logging:
                self.stages.append((float(t), np.array(F, dtype=float, copy=True)))
                self.stage_x.append((float(t), np.array(x_curr[0], dtype=float, copy=True)))
            return F
        model._getFluxes = wrapped        # instance-level: getdXdt looks it up on the instance

    @property
    def all_zero(self):
        """every boundary VALUE currently in force is 0 (spec may be changed between solve calls)"""
        return all(s[1] == 0.0 for sd in self.spec.values() for s in sd.values())

    # ---------------------------------------------------------------- iterator seam
    def iterator(self, f, t, X_old, updateX):
        self._begin_step(t)
        self.logging = True
        try:
            Xn, dt = self.base(f, t, X_old, updateX)
        finally:
            self.logging = False
        self.raw = np.array(Xn, dtype=float, copy=True).reshape(self.x0.shape)
        self.dt = float(dt)
        return Xn, dt

    def _fixed_sides(self):
        for e, sd in self.spec.items():
            for side in ('L', 'R'):
                if sd[side][0] == 'comp':
                    yield e, side, (0 if side == 'L' else -1)

    def _classify_change(self, before, after):
        """Structural signature of a change between two solve calls (used to keep the known finding narrow):
        'setup shift re-applied' = every changed node lost n_elements*minComposition, or was clamped to
        minComposition from less than that above it; anything else is 'other'."""
        d = np.asarray(after, dtype=float) - np.asarray(before, dtype=float)
        ch = d != 0
        if not np.any(ch):
            return 'none'
        s = self.nel * self.minc
        shifted = np.abs(d + s) <= 1e-6 * s
        clamped = (np.asarray(after) == self.minc) & (d < 0) & (d > -s * (1 + 1e-6))
        untouched_ok = np.asarray(before)[~ch] <= self.minc      # only nodes at the minimum may stay as they are
        if np.all(shifted[ch] | clamped[ch]) and np.all(untouched_ok):
            return 'setup shift re-applied'
        return 'other'

    def _bounds(self, x, when):
        R = self.R
        finite = bool(np.all(np.isfinite(x)))
        lo, hi = self.minc, 1.0 - self.minc
        ok = finite and bool(np.all(x >= lo)) and bool(np.all(x <= hi))
        if finite:
            R.worst('bounds_excess', max(lo - float(np.min(x)), float(np.max(x)) - hi, 0.0))
        R.check('bounds', ok, dict(self.mech0, when=when, kind='in range' if ok else ('nonfinite' if not finite else 'outside')),
                step=self.steps, call=self.call, min=np.min(x), max=np.max(x), lo=lo, hi=hi)
        if finite and np.any(1.0 - np.sum(x, axis=0) < lo):
            R.observe('dependent_below_min')
        return finite

    def _begin_step(self, t):
        R, m = self.R, self.model
        x = np.array(m.x, dtype=float, copy=True)
        self.x0 = x
        self.t0 = float(t)
        if self.steps_in_call == 0:
            if self.call == 0:
                # state after the first setup()
                self.x_first = x.copy()
                self.ref_fixed = {}
                self._bounds(x, 'after setup')
                for e, side, j in self._fixed_sides():
                    want = self.spec[e][side][1]
                    got = float(x[e, j])
                    self.ref_fixed[(e, side)] = got
                    dev = abs(got - want)
                    R.worst('fixed_node_setup_shift_over_n_min', dev / (self.nel * self.minc))
                    R.check('fixed_node', dev <= self.nel * self.minc * (1 + 1e-6) + 4e-16,
                            dict(self.mech0, when='after setup', mechanism='setup value', side=side, value_zero=bool(want == 0.0)),
                            requested=want, got=got, allowed=self.nel * self.minc)
            else:
                # ---- nothing may have changed between two solve calls
                prev = self.end_prev
                d = x - prev
                sums_equal = all(math.fsum(x[e]) == math.fsum(prev[e]) for e in range(x.shape[0]))
                same = bool(np.array_equal(x, prev))
                R.worst('call_boundary_max_node_change', float(np.max(np.abs(d))))
                R.check('call_boundary', sums_equal and same,
                        dict(self.mech0, mechanism='per-call drift', change=self._classify_change(prev, x)),
                        call=self.call, total_change=[math.fsum(x[e]) - math.fsum(prev[e]) for e in range(x.shape[0])],
                        max_node_change=float(np.max(np.abs(d))), nodes_changed=int(np.count_nonzero(d)),
                        N_times_nel_times_min=self.N * self.nel * self.minc)
                for e, side, j in self._fixed_sides():
                    got = float(x[e, j])
                    ref = self.ref_fixed[(e, side)]
                    R.check('fixed_node', got == ref,
                            dict(self.mech0, when='call boundary', mechanism='per-call drift', side=side,
                                 change=self._classify_change(np.array([ref]), np.array([got]))),
                            call=self.call, reference=ref, got=got, diff=got - ref)
                    self.ref_fixed[(e, side)] = got      # re-base: one defect, one report
                self._bounds(x, 'call boundary')
        self.stages = []
        self.stage_x = []
        self.pub = None
        if self.case['iterator'] == 'euler' and any(True for _ in self._fixed_sides()):
            try:
                F, _ = m.getFluxes()          # public API at the state the step starts from (logging is off)
                self.pub = np.array(F, dtype=float, copy=True)
            except Exception:
                R.observe('public_getFluxes_raised')

    # ---------------------------------------------------------------- observer seam
    def updateCoupledModel(self, model):
        R = self.R
        self.steps += 1
        self.steps_in_call += 1
        R.observe('steps')
        x1 = np.array(model.x, dtype=float, copy=True)
        x0, raw, dt = self.x0, self.raw, self.dt
        if not np.all(np.isfinite(x1)):
            # admissibility: the statement presupposes that mobility data exist where the run goes.  A node whose
            # stable phases all lack mobility parameters (documented marker -1) makes every averaging rule return
            # garbage/NaN: such a run is rejected (counted), not judged.
            R.observe('nonfinite_steps')
            states = [(self.t0, x0)] + [sx for sx in self.stage_x if np.all(np.isfinite(sx[1]))]
            if any(not mobility_data_everywhere(model, xs, ts) for ts, xs in states):
                R.observe('rejected_no_mobility_data')
                raise _StepCap('inadmissible')
            self._bounds(x1, 'step')
            raise _StepCap('nonfinite')
        self.x_last = x1
        self._bounds(x1, 'step')
        lo, hi = self.minc, 1.0 - self.minc
        # clamp events are per entry, the identity is per component: exclude exactly the components that were clamped
        # (the clamp is the documented deviation only for a step that started inside the range: a start state that is
        # already outside - reported by 'bounds' - is not excused, conservation is judged from the post-setup state on)
        clipped_e = [bool((np.any(raw[e] < lo) or np.any(raw[e] > hi)) and np.all(x0[e] >= lo) and np.all(x0[e] <= hi))
                     for e in range(raw.shape[0])]
        # ---- fixed-composition nodes
        for e, side, j in self._fixed_sides():
            got = float(x1[e, j])
            ref = self.ref_fixed[(e, side)]
            ok = got == ref
            R.check('fixed_node', ok, dict(self.mech0, when='step', mechanism='changed during a step', side=side,
                                           value_zero=bool(self.spec[e][side][1] == 0.0), all_bc_values_zero=self.all_zero),
                    step=self.steps, call=self.call, reference=ref, got=got, diff=got - ref)
            if not ok:
                self.ref_fixed[(e, side)] = got
        # ---- conservation
        if any(clipped_e):
            self.clip_steps += 1
            R.observe('clip_steps')
            R.observe('clip_component_steps', sum(clipped_e))
        if not all(clipped_e):
            ns = len(self.stages)
            w = {1: [1.0], 4: [1.0 / 6, 2.0 / 6, 2.0 / 6, 1.0 / 6]}.get(ns)
            expected_stages = 1 if self.case['iterator'] == 'euler' else 4
            if w is None or ns != expected_stages:
                R.observe('unexpected_stage_count')
                w = None
            self.checked_steps += 1
            for e, sd in self.spec.items():
                if clipped_e[e]:
                    continue
                J = {}
                src = {}
                usable = True
                for side, face in (('L', 1), ('R', -2)):
                    kind, val = sd[side]
                    if kind == 'flux':
                        J[side] = float(val)
                        src[side] = 'user constant'
                    else:
                        if w is None:
                            usable = False
                            break
                        stage = math.fsum(wk * float(F[e, face]) for wk, (_, F) in zip(w, self.stages))
                        if self.pub is not None and ns == 1:
                            if float(self.pub[e, face]) == float(self.stages[0][1][e, face]):
                                J[side] = float(self.pub[e, face])
                                src[side] = 'getFluxes'
                            else:
                                R.observe('public_flux_differs')
                                J[side] = stage
                                src[side] = 'stage flux'
                        else:
                            J[side] = stage
                            src[side] = 'stage flux' if ns == 1 else 'stage fluxes 1:2:2:1'
                if not usable:
                    continue
                expected = (J['L'] - J['R']) * dt / self.dz
                lhs = math.fsum(x1[e]) - math.fsum(x0[e])
                err = abs(lhs - expected)
                R.worst('conservation_err_over_N', err / self.N)
                closed = sd['L'][0] == 'flux' and sd['R'][0] == 'flux' and J['L'] == 0.0 and J['R'] == 0.0
                if closed:
                    R.worst('closed_total_change_over_N', abs(lhs) / self.N)
                R.observe('conservation_closed' if closed else 'conservation_open')
                R.check('conservation', err <= TOL_PER_NODE * self.N,
                        dict(self.mech0, left=_kindname(sd['L']), right=_kindname(sd['R']), all_bc_values_zero=self.all_zero),
                        step=self.steps, call=self.call, element_index=e, change_of_total=lhs, expected=expected,
                        error=err, tolerance=TOL_PER_NODE * self.N, J_left=J['L'], J_right=J['R'], source=src,
                        dt=dt, dz=self.dz, N=self.N, t=self.t0)
        if self.steps_in_call >= self.cap:
            R.observe('step_cap_hit')
            raise _StepCap('cap')


def _kindname(s):
    if s[0] == 'comp':
        return 'fixed composition'
    return 'closed' if s[1] == 0.0 else 'flux'


# ================================================================================================

def run_case(case, R):
    from vlib import core
    sysd = SYSTEMS[case['system']]
    els = sysd['elements'][1:]
    N = case['N']
    zL, zR = case['zlim']
    dz = (zR - zL) / (N - 1)
    nel = len(sysd['elements'])

    # ---- pass 1: throw-away model (closed where a flux will be) to get the model's own step and boundary values
    zero = {e: {'L': 0.0, 'R': 0.0} for e in els}
    try:
        probe = build_model(case, zero, 1.0e5)
        probe.setup()
        # ---- bounds clause on the state right after the real setup() (the monitored run repeats it at its first step)
        xs = np.array(probe.x, dtype=float)
        mc = case['minComposition']
        fin = bool(np.all(np.isfinite(xs)))
        okb = fin and bool(np.all(xs >= mc)) and bool(np.all(xs <= 1.0 - mc))
        if fin:
            R.worst('bounds_excess', max(mc - float(np.min(xs)), float(np.max(xs)) - (1.0 - mc), 0.0))
        R.check('bounds', okb, {'model': case['model'], 'iterator': case['iterator'], 'when': 'after setup',
                                'kind': 'in range' if okb else ('nonfinite' if not fin else 'outside')},
                step=0, call=0, min=np.min(xs), max=np.max(xs), lo=mc, hi=1.0 - mc,
                nodes_outside=int(np.count_nonzero((xs < mc) | (xs > 1.0 - mc))))
        _, dt_est = probe.getFluxes()
        dt_est = float(dt_est)
        xb = np.array(probe.x, dtype=float)
    except Exception as e:
        if core.innermost_is_harness(e.__traceback__):
            raise
        R.observe('rejected_probe')
        R.info['probe_exception'] = '%s: %s' % (type(e).__name__, str(e)[:200])
        return
    if not (np.isfinite(dt_est) and dt_est > 0):
        R.observe('rejected_probe')
        R.info['dt_est'] = dt_est
        return
    if not mobility_data_everywhere(probe, xb, 0.0):
        R.observe('rejected_no_mobility_data')
        return
    steps = case['steps']
    ttot = dt_est * steps
    # ---- flux values: signed fraction of an amount the boundary node can take/give (in node units over the run)
    flux = {}
    spec = {}
    for k, e in enumerate(els):
        flux[e] = {}
        spec[k] = {}
        for side, j in (('L', 0), ('R', -1)):
            kind, val = case['bc'][e][side]
            if kind in ('flux', 'drain'):
                free = 1.0 - float(np.sum(xb[:, j]))
                have = float(xb[k, j])
                if kind == 'drain':
                    amount = -val * max(0.02, 0.3 * have)      # out of the mesh, also when the node is empty (clip path)
                elif val > 0:
                    amount = val * min(0.12, 0.5 * free)
                else:
                    amount = val * min(0.12, 0.5 * have)
                if case['model'] == 'homog':
                    amount = float(np.clip(amount, -0.5 * case['maxChange'] * steps, 0.5 * case['maxChange'] * steps))
                Jin = amount * dz / ttot                        # flux into the mesh
                J = Jin if side == 'L' else -Jin                # right flux is positive out of the mesh
                flux[e][side] = float(J)
                spec[k][side] = ('flux', float(J))
            elif kind == 'comp':
                flux[e][side] = 0.0
                spec[k][side] = ('comp', float(val))
            else:
                flux[e][side] = 0.0
                spec[k][side] = ('flux', 0.0)
    R.info.update({'dt_est': dt_est, 'ttot': ttot, 'dz': dz, 'flux': flux})
    try:
        x_user = _user_profile(case)
        mc = case['minComposition']
        nj = int(np.count_nonzero((x_user > mc) & (x_user < (nel + 1) * mc)))
        R.info['initial_nodes_in_min_to_(n+1)min'] = nj
        if nj:
            R.observe('initial_nodes_just_above_min', nj)
            R.observe('cases_with_initial_nodes_just_above_min')
    except Exception:
        pass

    # ---- pass 2: the monitored run
    from kawin.solver.Solver import SolverType  # noqa: F401  (documented alternative to a callable)
    try:
        m = build_model(case, flux, ttot)
    except Exception as e:
        if core.innermost_is_harness(e.__traceback__):
            raise
        R.observe('rejected_build')
        return
    mon = Monitor(R, case, m, spec, dz)
    m.addCouplingModel(mon)
    ok_run = True
    for ci, fr in enumerate(case['calls']):
        steps_k = max(3, int(round(fr * steps)))
        mon.call = ci
        mon.steps_in_call = 0
        mon.cap = 3 * steps_k + 10
        maxfrac = min(1.0, 1.6 / steps_k) if case['limit_dt'] else 1.0
        try:
            m.solve(fr * ttot, solverType=mon.iterator, minDtFrac=1e-8, maxDtFrac=maxfrac)
        except _StepCap as e:
            if str(e) in ('nonfinite', 'inadmissible'):
                ok_run = False
                break
        except Exception as e:
            if core.innermost_is_harness(e.__traceback__):
                raise
            R.observe('solve_exception')
            fr_ = core.kawin_frame(e.__traceback__)
            R.info['solve_exception'] = '%s: %s @ %s' % (type(e).__name__, str(e)[:200], fr_)
            ok_run = False
            break
        R.observe('solve_calls')
        if mon.steps_in_call == 0:
            R.observe('call_without_step')
        mon.end_prev = np.array(m.x, dtype=float, copy=True)
        if ci > 0:
            R.observe('call_boundaries')
        # ---- boundary conditions changed through the public setter between two solve() calls
        # (added after seeded change C04-a: conditions resolved once at setup were not refreshed)
        if ci < len(case['calls']) - 1:
            rbc = core.case_rng(case['seed'], PROPERTY, case['idx'], 100 + ci)
            if rbc.random() < 0.5:
                from kawin.diffusion.DiffusionParameters import BoundaryConditions as BC
                for k, e in enumerate(els):
                    new = {}
                    for side, j in (('L', 0), ('R', -1)):
                        kind, val = mon.spec[k][side]
                        if kind == 'flux':
                            if val == 0.0:
                                free = 1.0 - float(np.sum(m.x[:, j]))
                                amt = float(rbc.choice([0.0, 0.03, 0.06])) * min(0.12, 0.5 * free)   # into the mesh
                                if case['model'] == 'homog':
                                    amt = min(amt, 0.5 * case['maxChange'] * steps)
                                Jin = amt * dz / ttot
                                new[side] = ('flux', float(Jin if side == 'L' else -Jin))
                            else:
                                new[side] = ('flux', float(val * float(rbc.choice([0.0, 0.5, 1.0, -0.25]))))
                        elif rbc.random() < 0.4:
                            new[side] = ('flux', 0.0)        # fixed-composition side becomes a closed one
                            if mon.ref_fixed is not None:
                                mon.ref_fixed.pop((k, side), None)
                        else:
                            new[side] = (kind, val)
                    lt = BC.COMPOSITION_BC if new['L'][0] == 'comp' else BC.FLUX_BC
                    rt = BC.COMPOSITION_BC if new['R'][0] == 'comp' else BC.FLUX_BC
                    # every public way of re-setting a condition (model setter; the conditions object with integer
                    # or with string sides/types) - added after seeded change C04-h (string sides missed a per-side cache)
                    api = ['setBC', 'object_int', 'object_str'][int(rbc.integers(0, 3))]
                    if api == 'setBC':
                        m.setBC(lt, new['L'][1], rt, new['R'][1], element=e)
                    elif api == 'object_int':
                        m.boundaryConditions.setBoundaryCondition(BC.LEFT, lt, new['L'][1], e)
                        m.boundaryConditions.setBoundaryCondition(BC.RIGHT, rt, new['R'][1], e)
                    else:
                        m.boundaryConditions.setBoundaryCondition('left', 'composition' if lt == BC.COMPOSITION_BC else 'flux', new['L'][1], e)
                        m.boundaryConditions.setBoundaryCondition('right', 'composition' if rt == BC.COMPOSITION_BC else 'flux', new['R'][1], e)
                    R.observe('bc_changed_via_' + api)
                    mon.spec[k] = new
                R.observe('bc_changed_between_calls')
    # ---- bookkeeping
    if case['record'] and getattr(m, '_recordedTime', None) is not None and mon.steps > 0:
        extra = int(len(m._recordedTime)) - (mon.steps + 1)
        if extra:
            R.observe('history_extra_entries', extra)
    R.info.update({'steps': mon.steps, 'clip_steps': mon.clip_steps, 'checked_steps': mon.checked_steps,
                   't_end': float(m.t)})
    moved = 0.0
    if mon.x_first is not None and mon.x_last is not None:
        moved = float(np.max(np.abs(mon.x_last - mon.x_first)))
    R.info['max_change'] = moved
    nt = ok_run and mon.steps >= 10 and moved > 1e-6 and mon.checked_steps >= 5
    R.set_nontrivial(bool(nt))
    if nt:
        kinds = sorted(set(_kindname(s) for sd in spec.values() for s in sd.values()))
        for k in kinds:
            R.observe('nontrivial_with_' + k.replace(' ', '_'))
        if len(case['calls']) > 1:
            R.observe('nontrivial_multicall')
        sinks = sum(1 for e in els for sd in 'LR' if case['bc'][e][sd][0] == 'comp' and case['bc'][e][sd][1] == 0.0)
        if sinks:
            R.observe('nontrivial_with_fixed_composition_zero')
            if mon.all_zero_initial:
                R.observe('nontrivial_sink_and_all_bc_values_zero')
                if len(case['calls']) > 1:
                    R.observe('nontrivial_sink_all_zero_multicall')
            else:
                R.observe('nontrivial_sink_mixed_with_nonzero_values')
        if any(case['bc'][e][sd][0] == 'flux0' for e in els for sd in 'LR'):
            R.observe('nontrivial_with_explicit_zero_flux')
        R.observe('nontrivial_%s_%s' % (case['model'], case['iterator']))
        R.observe('nontrivial_system_' + case['system'])
        R.observe('nontrivial_T_' + case['T']['kind'])
        if case['model'] == 'homog':
            R.observe('nontrivial_rule_' + case['hfunc'].replace(' ', '_'))
        for e in els:
            for st in case['profiles'][e]:
                if st['kind'] != 'linear' or len(case['profiles'][e]) == 1:
                    R.observe('nontrivial_profile_' + st['kind'])


MANIFEST = {
    'text': 'Single-phase and homogenization diffusion runs (3 alloy systems, 5 averaging rules, 6 initial-profile kinds, '
            'constant/array/field temperatures, closed/flux/fixed-composition conditions per element and side, Euler and RK4, '
            '1-4 consecutive solve calls) are executed through the public solve(); a step observer and a monitoring iterator '
            'check after every accepted step that each mesh total changes by (J_left - J_right) dt/dz within 1e-13*N, that '
            'fixed-composition nodes are bit-constant, that all nodes stay in [min, 1-min], and that nothing changes between '
            'two solve calls.',
    'note': 'sampled configurations, not all; steps on which the documented clamp acted are counted and excluded; trusted: '
            'the harness\'s own dz, the user flux constants from the case description, math.fsum',
    'technique': 'invariant hook per accepted step (observer via addCouplingModel + monitoring iterator via solve(solverType=callable) '
                 '+ instance-level stage-flux recorder)',
}
