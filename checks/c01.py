"""C01 - solute conservation between matrix and precipitates.

Deciding monitors (vlib/precip_monitors.py:C01Monitor), evaluated at every accepted step of real
PrecipitateModel runs:
  c01.conservation  x0_e - [(1 - sum fv) x_matrix[n,e] + sum_p F_{p,e}] = 0  (|res| <= 1e-10 max x0), where
                    F is recomputed by the harness from the distribution exactly as the mass balance saw it
                    (copy of the integrator's buffer at the first backend query after the iterator returns),
                    the class centres, the interfacial precipitate compositions at the class boundaries and
                    an independent volume factor (4pi/3; spherical-cap closed form for grain boundaries;
                    the repository's value for edges/corners, whose geometry is validated in C14)
  c01.fconc         recorded precipitate solute content = that recomputation (for 'no diffusion in the
                    precipitate' the harness integrates the increments itself)
  c01.clamp         the only permitted deviation: if the unclamped quotient is negative the record equals
                    the documented minimum composition (counted, excluded from c01.conservation)
Steps with total precipitate fraction >= 1 are counted and excluded (matrix composition undefined).
Not asserted: anything inside RK4 sub-stages (the statement is about recorded steps).
"""
import numpy as np

from vlib import core, precip_gen

PROPERTY = 'C01'
LEVEL = 'exploration'
RULE = ('random precipitation configurations (system x composition x temperature schedule x interfacial energy x molar-volume '
        'ratio x nucleation site x shape x strain x PBM grid x constraints x iterator x 1-4 solve calls), see vlib/precip_gen.py; '
        'non-trivial = peak total precipitate fraction > 1e-6 and >= 50 observed steps; distinct by configuration hash')
REQUIRED_MONITORS = ['c01.conservation', 'c01.fconc']
REACH = ['precipitation/KWNEuler.py:PrecipitateModel._calcMassBalance', 'precipitation/KWNBase.py:PrecipitateBase.postProcess',
         'precipitation/PopulationBalance.py:PopulationBalanceModel.WeightedMomentFromN']
MIN_NONTRIVIAL = {'quick': 8, 'thorough': 80}
CASE_TIMEOUT = 900
CASE_TIMEOUT_THOROUGH = 1800
MAX_INCONCLUSIVE_FRACTION = 0.05
N_SAMPLES = 3
ASSUMPTIONS = ['the initial alloy content is the user input x0', 'volume factor of edge/corner nuclei taken from the repository (validated in C14)',
               'sampled configurations only; conservation is checked where the matrix composition is recorded']
MANIFEST = {
    'text': 'Every accepted step of sampled real precipitation runs (binary, ternary, two-phase; both iterators; five site types; split solve '
            'calls) is checked against an independent recomputation of the solute balance from the distribution the mass balance used; '
            'residuals are at rounding level (1e-16) against a tolerance of 1e-10.',
    'note': 'trusted: numpy, pycalphad equilibrium results as inputs (their correctness is not part of the property), harness recomputation',
    'technique': 'per-step invariant monitor with independent recomputation (step observer + monitoring iterator + thermodynamics spy seams)',
}

N_CASES = {'quick': 32, 'thorough': 320}


def plan(tier, seed):
    cases = []
    for i in range(N_CASES[tier]):
        rng = core.case_rng(seed, PROPERTY, i)
        forced = {0: 'alzr', 1: 'nialcr', 2: 'almgsi', 3: 'alzr', 4: 'nialcr', 5: 'cuti', 6: 'cuti'}.get(i % 8)   # cuti: binary, two precipitate phases
        sites = None
        if i % 8 in (3, 4, 5):
            sites = ['grain boundaries', 'grain edges', 'grain corners']
        cfg = precip_gen.gen_config(rng, system=forced, tier=tier, allow_noniso=(i % 5 == 0), grid_class='in_range', sites=sites, allow_elastic=True)
        cases.append({'cfg': cfg, 'weight': precip_gen.cfg_weight(cfg)})
    # age, then dissolve completely above the solvus (the 'phase has no precipitates' branches with non-zero history)
    for j in range(2 if tier == 'quick' else 16):
        rng = core.case_rng(seed, PROPERTY, 5000 + j)
        cfg = precip_gen.gen_dissolution_config(rng, ['nialcr', 'almgsi', 'alzr'][j % 3], tier)
        cases.append({'cfg': cfg, 'weight': 4e4 * cfg['max_steps'] / 100})
    return cases


def run_case(case, R):
    from vlib.precip_run import TrajectoryRun
    from vlib.precip_monitors import C01Monitor
    cfg = case['cfg']
    mon = C01Monitor()
    run = TrajectoryRun(cfg, R, [mon], max_steps=cfg['max_steps']).execute()
    if run.rejected or R.inconclusive:
        return
    if run.error is not None:
        R.observe('runs_ended_by_exception')        # well-formedness / crashes are C03's subject
        R.info['error'] = '%s: %s' % (type(run.error).__name__, str(run.error)[:200])
    R.info.update({'steps': run.steps, 'peak_fv': mon.peak_fv, 'capped': run.capped, 'system': cfg['system'],
                   'sites': cfg['site'], 'iterator': cfg['iterator'], 'segments': len(cfg['segments'])})
    R.set_nontrivial(mon.peak_fv > 1e-6 and run.steps >= 50)
