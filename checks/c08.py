"""C08 - size-class grid operations stay consistent and conserve particle volume.

Technique: runtime monitoring of the real kawin.precipitation.PopulationBalance.PopulationBalanceModel under
random operation histories (<= 30 public calls per object), observed through

  (a) icontract contracts installed on the real class in worker_init (vlib/c08_contracts.py):
        invariant        class invariant, evaluated before and after every *outermost* public call: array lengths
                         match the class count, boundaries finite and strictly increasing, first/last boundary equal
                         the stated min/max (1e-12 rel.), centres are the midpoints (1e-12 rel.), populations finite
                         and >= 0
        extend_post      addSizeClasses: class count = old + n, old populations bit-identical, old boundaries
                         reproduced (1e-12 of the largest boundary), new classes empty
        remesh_m3        changeSizeClasses(resetPSD=False): third moment (own arithmetic from boundaries and
                         populations, not the object's moment functions) equal to the one before (1e-10 rel.)
                         whenever the new [min,max] contains every class that was populated (> 0)
        adjust_max       adjustSizeClassesEuler with adaptive binning on: class count <= maxBins afterwards
        reset_initial    reset(): grid description, boundaries and centres bit-identical to the ones recorded right
                         after construction, populations all zero
        revert_restores  revert(): populations and boundaries bit-identical to the copy taken (by the harness) when
                         createBackup() was called, bins/min/max agree with them
        load_hist        LoadDistribution(data): populations equal an independent histogram of the data on the
                         boundaries before the call
      extend_post/remesh_m3/reset_initial are also evaluated when kawin calls these methods internally (automatic
      adjustment = extend + re-mesh), each being a complete operation of the statement.
  (b) harness-level monitors:
        moment_pure      every *FromN function (8 of them) called with the same supplied distribution, order and
                         weights (i) while the object's own PSD holds garbage A resp. garbage B and (ii) on a freshly
                         constructed object carrying a bit-identical grid and garbage C: results must be
                         bit-identical (metamorphic; no reference value is asserted - values are C02's subject)
        shadow           independent shadow model updated alongside; compared after every operation whose outcome
                         the statement fixes (extend: old part; reset, revert: whole state; load data/function:
                         populations, with a plain-Python histogram) and after read-only operations (backup,
                         moment calls: state bit-identical); re-synchronised after operations
                         whose numerical outcome the statement leaves open (re-mesh, adjust, update, normalise)
        no_exception     every operation on an admissible input returns (escaping exceptions are violations)

Transient states.  icontract 2.7.3 keeps an instance in its in-progress set during the whole outermost public call,
so nested public calls (changeSizeClasses -> self.ThirdMoment(), self.reset(False) while bins/min/max are already
new and the arrays still old; __init__ -> setBinConstraints before any array exists) do NOT evaluate the invariant.
worker_init self-tests this (one outermost call entering three public methods = exactly 2 invariant evaluations; a
decreasing grid is reported) and refuses to start otherwise.  The invariant is therefore judged exactly "after each
operation", as the statement reads, and nothing had to be moved to the harness level.

Decisions where the statement is silent (not asserted):
  * what a re-mesh does when the new grid does not cover the populated range, and the new populations themselves;
  * changeSizeClasses(resetPSD=True) (asks for an empty distribution; only the invariant / reset contract apply);
  * the values after update / normalise (only the invariant); that update/normalise/load keep the grid;
  * revert without a preceding createBackup, or after an explicit reset()/reset(False)/changeSizeClasses(resetPSD=True)
    (never issued); the reset(False) a re-mesh performs internally is not an explicit reset: backup -> re-mesh ->
    revert is inside the statement;
  * where the new boundaries of an extension lie (only: old ones reproduced, strictly increasing up to max);
  * the requested grid of a re-mesh (the 10*cMin floor on cMax is an undocumented override; coverage is decided on
    the grid the object reports afterwards);
  * contradictory configurations minBins > maxBins are not generated; normalising an empty distribution is not
    issued; NaN/inf inputs are not issued; recording is left off (C03/C20).
Admissible grid classes are drawn and reported separately: default, in_range (minBins <= bins <= maxBins),
below_min (minBins/2 < bins < minBins), small (bins <= minBins/2), above_max (bins > maxBins).
"""
import bisect

import numpy as np

from vlib import core

PROPERTY = 'C08'
LEVEL = 'exploration'
NEEDS_ICONTRACT = True
RULE = ('random operation histories (3..30 public calls on one PopulationBalanceModel: load function/data, extend, '
        're-mesh coarser/finer/wider/narrower/shifted/random, automatic adjustment with and without the dissolution flag, '
        'update, backup, revert, reset, normalise, moment calls) over random grids (cMin incl. 0, 1..300 classes, five '
        'admissible classes relative to minBins/maxBins, adaptive binning on/off) and distributions (empty, isolated '
        'class, sparse, log-normal, lower fifth, 1e-3..1e25 dynamic range, filled last class), %d histories per case plus one '
        'case of scripted histories; a case is non-trivial when at least one of its histories performed a re-mesh on a '
        'distribution with >= 1 populated class; distinct by (seed, first history number)')
REQUIRED_MONITORS = ['invariant', 'extend_post', 'remesh_m3', 'adjust_max', 'reset_initial', 'revert_restores',
                     'load_hist', 'moment_pure', 'shadow', 'no_exception']
_P = 'precipitation/PopulationBalance.py:PopulationBalanceModel.'
REACH = [_P + n for n in ('changeSizeClasses', 'addSizeClasses', 'adjustSizeClassesEuler', 'reset', 'createBackup',
                          'revert', 'LoadDistribution', 'LoadDistributionFunction', 'UpdatePBMEuler', 'Normalize',
                          'MomentFromN', 'CumulativeMomentFromN', 'WeightedMomentFromN', 'CumulativeWeightedMomentFromN')]
HIST_PER_CASE = 50
RULE = RULE % HIST_PER_CASE
N_HISTORIES = {'quick': 20000, 'thorough': 300000}
MIN_NONTRIVIAL = {'quick': 300, 'thorough': 5000}
CASE_TIMEOUT = 300
MAX_INCONCLUSIVE_FRACTION = 0.0
MAX_OPS = 30
MAX_BINS = 1500
ASSUMPTIONS = ['histories are sampled, length <= 30; grids <= 1500 classes',
               'icontract 2.7.3 evaluates class invariants only around outermost public calls (self-test at worker start)',
               'populated class = population > 0; "covers" = new [min,max] contains every populated class',
               'backup validity: createBackup called and no reset requested by the caller since']

CT = None   # vlib.c08_contracts, set in worker_init


def worker_init():
    global CT
    from vlib import c08_contracts
    P = c08_contracts.install()
    CT = c08_contracts
    # self-test of the contract library's semantics this check relies on: one outermost public call that enters
    # three public methods (ThirdMoment -> Moment -> MomentFromN) evaluates the class invariant exactly twice
    # (before/after the outermost call), and a broken object is reported.  Otherwise the worker refuses to start
    # (run inconclusive) rather than judging transient states or nothing at all.
    CT.drain()
    try:
        p = P(1e-10, 1e-9, 12, 4, 20)
        CT.drain()
        p.ThirdMoment()
    except CT.ContractViolation:
        CT.drain()
        return      # the tree under observation breaks a contract already here: the histories will report it
    stats, events, _ = CT.drain()
    if stats.get('invariant') != 2 or events.get('call:MomentFromN') != 1:
        raise RuntimeError('icontract invariant semantics differ from what C08 assumes: %r' % (stats,))
    p.PSDbounds = p.PSDbounds[::-1].copy()
    try:
        p.ThirdMoment()
    except CT.ContractViolation as v:
        if v.monitor != 'invariant' or v.mech.get('clause') != 'increasing':
            raise RuntimeError('contract self-test: unexpected violation %r' % (v.mech,))
    else:
        raise RuntimeError('contract self-test: a decreasing grid was not reported')
    CT.drain()


def plan(tier, seed):
    n = N_HISTORIES[tier]
    cases = [{'kind': 'scripted', 'h0': -1, 'n': 0, 'weight': 2.0}]
    for h0 in range(0, n, HIST_PER_CASE):
        cases.append({'kind': 'random', 'h0': h0, 'n': min(HIST_PER_CASE, n - h0)})
    # the same contracts on the PopulationBalanceModel instances that live inside real precipitation runs
    # (PrecipitateModel and GrainGrowthModel drive extend / re-mesh / adjust / update themselves)
    from vlib import precip_gen
    for j in range(6 if tier == 'quick' else 40):
        rng = core.case_rng(seed, PROPERTY, 900000 + j)
        cfg = precip_gen.gen_config(rng, system=['alzr', 'nialcr', 'almgsi'][j % 3], tier=tier, allow_noniso=False,
                                    grid_class=('in_range' if j % 2 else None))
        cfg['pbm'].update({'cMax': 3e-9, 'bins': 30, 'minBins': 24, 'maxBins': 48})      # frequent extension / re-meshing
        cfg['max_steps'] = min(cfg['max_steps'], 700)
        cases.append({'kind': 'model_run', 'cfg': cfg, 'weight': 60.0})
    # ... and while the repository's own test files that touch the population balance run
    cases.append({'kind': 'repo_tests', 'weight': 80.0})
    return cases


# ================================================================================================
# generators

def draw_config(rng):
    maxBins = int(rng.choice([8, 12, 20, 40, 100, 200, 300]))
    if rng.random() < 0.7:
        minBins = int(rng.integers(2, max(3, maxBins // 2 + 1)))
    else:
        minBins = int(rng.integers(max(2, maxBins // 2), maxBins + 1))
    u = rng.random()
    if u < 0.12:
        gclass, (cmin, cmax, bins, minBins, maxBins) = 'default', (1e-10, 1e-9, 150, 100, 200)
    else:
        if u < 0.45:
            gclass, bins = 'in_range', int(rng.integers(minBins, maxBins + 1))
        elif u < 0.60 and minBins - minBins // 2 > 1:
            gclass, bins = 'below_min', int(rng.integers(minBins // 2 + 1, minBins))
        elif u < 0.85:
            gclass, bins = 'small', int(rng.integers(1, max(2, minBins // 2 + 1)))
        else:
            gclass, bins = 'above_max', int(rng.integers(maxBins + 1, 2 * maxBins + 2))
        v = rng.random()
        if v < 0.5:
            cmin = 1e-10
        elif v < 0.62:
            cmin = 0.0
        else:
            cmin = float(10 ** rng.uniform(-11, -7))
        cmax = float(cmin * rng.uniform(1.0, 60.0)) if cmin > 0 else float(10 ** rng.uniform(-9, -6))
    # classify from the numbers actually used
    if gclass != 'default':
        if bins > maxBins:
            gclass = 'above_max'
        elif bins <= minBins // 2:
            gclass = 'small'
        elif bins < minBins:
            gclass = 'below_min'
        else:
            gclass = 'in_range'
    return {'cMin': cmin, 'cMax': cmax, 'bins': bins, 'minBins': minBins, 'maxBins': maxBins,
            'adaptive': bool(rng.random() < 0.7), 'grid_class': gclass}


DIST_KINDS = ['empty', 'spike', 'spike_last', 'sparse', 'lognormal', 'low_fifth', 'wide', 'full']
DIST_P = [0.05, 0.2, 0.1, 0.15, 0.2, 0.12, 0.1, 0.08]


def make_distribution(rng, kind, centres):
    n = len(centres)
    out = np.zeros(n)
    if kind == 'empty':
        return out
    if kind == 'spike':
        out[int(rng.integers(0, n))] = 10 ** rng.uniform(0.5, 20)
    elif kind == 'spike_last':
        out[n - 1] = 10 ** rng.uniform(0.1, 10)
        if n > 2 and rng.random() < 0.5:
            out[int(rng.integers(0, n - 1))] = 10 ** rng.uniform(0.5, 10)
    elif kind == 'sparse':
        k = int(rng.integers(2, 6))
        idx = rng.integers(0, n, size=k)
        out[idx] = 10 ** rng.uniform(0.0, 15, size=k)
    elif kind in ('lognormal', 'low_fifth'):
        top = centres[-1] if kind == 'lognormal' else centres[max(0, n // 5 - 1)]
        mu = rng.uniform(0.15, 0.8) * top
        mu = max(mu, centres[0])
        s = rng.uniform(0.08, 0.5)
        r = np.maximum(centres, 1e-300)
        dens = np.exp(-0.5 * (np.log(r / mu) / s) ** 2) / r
        dens = dens / max(dens.max(), 1e-300)
        out = dens * 10 ** rng.uniform(2, 22)
        out[out < 1e-12 * out.max()] = 0.0
        if kind == 'low_fifth':
            out[max(1, n // 5):] = 0.0
    elif kind == 'wide':
        out = 10 ** rng.uniform(-3, 25, size=n)
        out[rng.random(n) < 0.3] = 0.0
    elif kind == 'full':
        out = rng.uniform(1.0, 1e6, size=n)
    return np.asarray(out, dtype=float)


def draw_op(rng, pbm, sh, first):
    """One concrete operation (dict) admissible in the current state."""
    n = int(pbm.bins)
    populated = bool(np.any(pbm.PSD > 0))
    w = {'load_func': 3.0, 'load_data': 1.2, 'extend': 2.0 if n < MAX_BINS else 0.0, 'remesh': 4.5, 'adjust': 4.0,
         'update': 3.0, 'backup': 2.0, 'revert': 2.5 if sh.can_revert else 0.0, 'reset': 0.8, 'reset_keep': 0.25,
         'remesh_reset': 0.25, 'normalize': 0.8 if populated else 0.0, 'moments': 1.5, 'toggle_adaptive': 0.3}
    if first and rng.random() < 0.8:
        kind = 'load_func'
    else:
        names = list(w)
        p = np.array([w[k] for k in names])
        kind = names[int(rng.choice(len(names), p=p / p.sum()))]
    op = {'op': kind}
    b0, b1 = float(pbm.PSDbounds[0]), float(pbm.PSDbounds[-1])
    if kind == 'load_func':
        op['dist'] = str(rng.choice(DIST_KINDS, p=DIST_P))
        op['values'] = make_distribution(rng, op['dist'], np.asarray(pbm.PSDsize))
    elif kind == 'load_data':
        m = int(rng.choice([0, 1, 7, 60, 1000]))
        span = b1 - b0
        if rng.random() < 0.5:
            data = rng.uniform(b0 - 0.1 * span, b1 + 0.1 * span, size=m)
        else:
            data = np.abs(rng.normal(b0 + rng.uniform(0.1, 0.9) * span, rng.uniform(0.02, 0.4) * span, size=m))
        op['data'] = data
    elif kind == 'extend':
        op['n'] = int(rng.choice([1, 2, 5, max(1, n // 4), max(1, n // 2), n]))
    elif kind == 'remesh':
        mode = str(rng.choice(['coarser', 'finer', 'wider', 'narrower', 'shifted', 'random'],
                              p=[0.3, 0.15, 0.15, 0.1, 0.15, 0.15]))
        cmin, cmax, bins = b0, b1, None
        if mode == 'coarser':
            bins = max(1, n // int(rng.choice([2, 3, 5, 10, 20])))
            if rng.random() < 0.3:
                cmax = b1 * float(rng.choice([1.5, 3.0]))
        elif mode == 'finer':
            bins = min(MAX_BINS, max(1, int(n * float(rng.choice([1.3, 2, 3, 7])))))
        elif mode == 'wider':
            cmax = b1 * float(rng.choice([1.0 + 1e-9, 1.5, 3.0, 10.0]))
            if rng.random() < 0.5:
                bins = max(1, min(MAX_BINS, int(n * rng.uniform(0.3, 2.5))))
        elif mode == 'narrower':
            cmax = b0 + (b1 - b0) * rng.uniform(0.05, 0.95)
            if rng.random() < 0.3:
                cmin = b0 + (cmax - b0) * rng.uniform(0.0, 0.3)
            bins = None if rng.random() < 0.5 else max(1, int(n * rng.uniform(0.3, 2.0)))
        elif mode == 'shifted':
            cmin = b0 * float(rng.choice([0.0, 0.5, 0.9, 1.0, 1.1, 2.0]))
            cmax = b1 * float(rng.choice([0.5, 1.0, 2.0]))
            bins = None if rng.random() < 0.5 else max(1, min(MAX_BINS, int(n * rng.uniform(0.2, 3.0))))
        else:
            cmin = float(rng.choice([0.0, b0, 10 ** rng.uniform(-11, -8)]))
            cmax = float(max(cmin, b0) + (b1 - b0) * 10 ** rng.uniform(-1, 1))
            bins = int(rng.integers(1, 401))
        if not cmax > cmin:
            cmax = max(b1, 20.0 * cmin)
        op.update({'mode': mode, 'cMin': float(cmin), 'cMax': float(cmax), 'bins': bins})
    elif kind == 'adjust':
        op['dissolution'] = bool(rng.random() < 0.5)
    elif kind == 'update':
        mode = str(rng.choice(['noise', 'advect', 'fill_last', 'decay', 'fresh']))
        cur = np.array(pbm.PSD, dtype=float, copy=True)
        if mode == 'noise':
            new = cur * rng.uniform(0.3, 1.7, size=n)
        elif mode == 'advect':
            s = int(rng.integers(1, max(2, n // 10 + 1)))
            new = np.zeros(n)
            if s < n:
                new[s:] = cur[:n - s]
            new[-1] += cur[n - s:].sum() if s <= n else cur.sum()
        elif mode == 'fill_last':
            new = cur
            new[-1] = 10 ** rng.uniform(0.05, 6)
        elif mode == 'decay':
            new = cur * 10 ** rng.uniform(-6, -0.5)
        else:
            new = make_distribution(rng, str(rng.choice(DIST_KINDS, p=DIST_P)), np.asarray(pbm.PSDsize))
        if rng.random() < 0.35:   # transiently negative / sub-unit classes as the integrator produces them
            k = rng.integers(0, n, size=max(1, n // 8))
            new[k] = -rng.uniform(0, 1e-3, size=len(k)) * max(1.0, float(np.max(np.abs(new))))
            k = rng.integers(0, n, size=max(1, n // 8))
            new[k] = rng.uniform(0, 1, size=len(k))
        op.update({'mode': mode, 'values': np.asarray(new, dtype=float), 'time': float(rng.uniform(0, 1e4))})
    elif kind == 'normalize':
        op['order'] = None if rng.random() < 0.5 else int(rng.integers(0, 4))
    elif kind == 'moments':
        op['N'] = make_distribution(rng, str(rng.choice(DIST_KINDS[1:], p=np.array(DIST_P[1:]) / sum(DIST_P[1:]))),
                                    np.asarray(pbm.PSDsize))
        op['order'] = float(rng.choice([0, 1, 2, 3, 2.5]))
        op['weights'] = rng.uniform(0.1, 10.0, size=n)
        op['A'] = rng.uniform(1.0, 1e6, size=n)
        op['B'] = rng.uniform(1.0, 1e6, size=n) * 3.0 + 7.0
    return op


def describe(op):
    d = {}
    for k, v in op.items():
        if isinstance(v, np.ndarray):
            nz = np.nonzero(v)[0]
            d[k] = {'len': int(v.size), 'nonzero': int(len(nz)), 'first_nz': int(nz[0]) if len(nz) else None,
                    'last_nz': int(nz[-1]) if len(nz) else None, 'max': float(v.max()) if v.size else None,
                    'min': float(v.min()) if v.size else None}
        else:
            d[k] = v
    return d


# ================================================================================================
# shadow model

class Shadow:
    def __init__(self, pbm):
        self.sync(pbm)
        self.init = self.state()
        self.backup = None
        self.can_revert = False
        self.remesh_since_backup = False

    def sync(self, pbm):
        self.bins = int(pbm.bins)
        self.min = float(pbm.min)
        self.max = float(pbm.max)
        self.bounds = np.array(pbm.PSDbounds, dtype=float, copy=True)
        self.psd = np.array(pbm.PSD, dtype=float, copy=True)

    def state(self):
        return {'bins': self.bins, 'min': self.min, 'max': self.max, 'bounds': self.bounds.copy(), 'psd': self.psd.copy()}

    def set(self, st):
        self.bins, self.min, self.max = st['bins'], st['min'], st['max']
        self.bounds, self.psd = st['bounds'].copy(), st['psd'].copy()


def py_histogram(data, bounds):
    """Plain-Python histogram: [b_i, b_i+1), last class closed."""
    b = [float(x) for x in bounds]
    n = len(b) - 1
    out = [0.0] * n
    for x in data:
        x = float(x)
        if x < b[0] or x > b[-1]:
            continue
        i = bisect.bisect_right(b, x) - 1
        if i == n:
            i = n - 1
        out[i] += 1.0
    return np.array(out)


def compare_shadow(R, pbm, sh, mech, exact_grid, prefix_bounds=None):
    """Object vs. shadow expectation.  exact_grid True: boundaries/min/max bit-identical; False: the first
    prefix_bounds boundaries within 1e-12; None: class count and populations only."""
    bad = None
    b = np.asarray(pbm.PSDbounds, dtype=float)
    psd = np.asarray(pbm.PSD)
    if int(pbm.bins) != sh.bins or len(psd) != sh.bins or len(b) != sh.bins + 1:
        bad = ('class_count', {'bins': pbm.bins, 'expected': sh.bins, 'len_PSD': len(psd), 'len_bounds': len(b)})
    elif exact_grid is None:
        pass                      # populations only (load: the statement does not speak about the grid)
    elif exact_grid:
        if b.tobytes() != sh.bounds.tobytes():
            bad = ('boundaries', {'bounds': b, 'expected': sh.bounds})
        elif float(pbm.min) != sh.min or float(pbm.max) != sh.max:
            bad = ('min_max', {'min': pbm.min, 'max': pbm.max, 'expected': [sh.min, sh.max]})
    else:
        k = prefix_bounds
        e = float(np.max(np.abs(b[:k] - sh.bounds[:k]))) / float(abs(b[-1]))
        R.worst('shadow_extend_bounds_rel', e)
        if not e <= 1e-12:
            bad = ('boundaries', {'worst_rel': e, 'bounds': b[:k], 'expected': sh.bounds[:k]})
    if bad is None and not (psd.shape == sh.psd.shape and np.array_equal(psd, sh.psd)):
        bad = ('populations', {'PSD': psd, 'expected': sh.psd})
    m = dict(mech)
    if bad is not None:
        m['field'] = bad[0]
        R.check('shadow', False, m, **bad[1])
        return False
    R.check('shadow', True, m)
    return True


# ================================================================================================
# moment functions (metamorphic purity)

MOMENT_FUNCS = [
    ('MomentFromN', lambda p, N, k, w: p.MomentFromN(N, k)),
    ('CumulativeMomentFromN', lambda p, N, k, w: p.CumulativeMomentFromN(N, k)),
    ('WeightedMomentFromN', lambda p, N, k, w: p.WeightedMomentFromN(N, k, w)),
    ('CumulativeWeightedMomentFromN', lambda p, N, k, w: p.CumulativeWeightedMomentFromN(N, k, w)),
    ('ZeroMomentFromN', lambda p, N, k, w: p.ZeroMomentFromN(N)),
    ('FirstMomentFromN', lambda p, N, k, w: p.FirstMomentFromN(N)),
    ('SecondMomentFromN', lambda p, N, k, w: p.SecondMomentFromN(N)),
    ('ThirdMomentFromN', lambda p, N, k, w: p.ThirdMomentFromN(N)),
]


def run_moments(R, pbm, op, H):
    """garbage A vs. garbage B in the object's own PSD, and the object (with its history) vs. a freshly constructed
    object that carries a bit-identical grid: the same supplied distribution must give bit-identical results."""
    saved = pbm.PSD
    ok_all = True
    fresh = type(pbm)(H['cfg']['cMin'], H['cfg']['cMax'], H['cfg']['bins'], H['cfg']['minBins'], H['cfg']['maxBins'])
    fresh.bins, fresh.min, fresh.max = pbm.bins, pbm.min, pbm.max
    fresh.PSDbounds = np.array(pbm.PSDbounds, copy=True)
    fresh.PSDsize = np.array(pbm.PSDsize, copy=True)
    fresh.PSD = op['B'][::-1].copy()
    try:
        for name, f in MOMENT_FUNCS:
            N = op['N'].copy()
            pbm.PSD = op['A'].copy()
            ra = np.array(f(pbm, N, op['order'], op['weights']), copy=True)
            pbm.PSD = op['B'].copy()
            rb = np.array(f(pbm, N, op['order'], op['weights']), copy=True)
            same = ra.shape == rb.shape and ra.tobytes() == rb.tobytes()
            R.check('moment_pure', same, {'function': name, 'against': 'own_population'}, with_A=ra, with_B=rb,
                    order=op['order'], config=H['cfg'])
            rc = np.array(f(fresh, N, op['order'], op['weights']), copy=True)
            same2 = ra.shape == rc.shape and ra.tobytes() == rc.tobytes()
            R.check('moment_pure', same2, {'function': name, 'against': 'fresh_object_same_grid'}, with_history=ra,
                    fresh=rc, order=op['order'], config=H['cfg'])
            ok_all = ok_all and same and same2
    finally:
        pbm.PSD = saved
    return ok_all


# ================================================================================================
# executing one operation

def execute(R, pbm, sh, op, H):
    """Runs one operation against the real object. Returns False when the history must end."""
    kind = op['op']
    H['log'].append(describe(op))
    R.observe('op:' + kind)
    populated_before = bool(np.any(np.asarray(pbm.PSD) > 0))
    remesh_calls = CT.EVENTS.get('call:changeSizeClasses', 0)
    extend_calls = CT.EVENTS.get('call:addSizeClasses', 0)
    mech = {'op': kind, 'via': kind}
    if kind == 'revert':
        mech['remesh_since_backup'] = sh.remesh_since_backup
    if kind == 'adjust':
        mech.update({'dissolution': op['dissolution'], 'adaptive': bool(pbm._adaptiveBinSize)})
    keep = None
    try:
        if kind == 'load_func':
            vals = op['values']
            keep = vals.copy()
            pbm.LoadDistributionFunction(lambda r: vals.copy())
        elif kind == 'load_data':
            pbm.LoadDistribution(op['data'])
        elif kind == 'extend':
            pbm.addSizeClasses(op['n'])
        elif kind == 'remesh':
            if op['bins'] is None:
                pbm.changeSizeClasses(op['cMin'], op['cMax'])
            else:
                pbm.changeSizeClasses(op['cMin'], op['cMax'], op['bins'])
        elif kind == 'remesh_reset':
            pbm.changeSizeClasses(float(pbm.PSDbounds[0]), float(pbm.PSDbounds[-1]) * 2.0, max(1, int(pbm.bins) // 2), True)
        elif kind == 'adjust':
            pbm.adjustSizeClassesEuler(op['dissolution'])
        elif kind == 'update':
            pbm.UpdatePBMEuler(op['time'], op['values'].copy())
        elif kind == 'backup':
            pbm.createBackup()
        elif kind == 'revert':
            pbm.revert()
        elif kind == 'reset':
            pbm.reset()
        elif kind == 'reset_keep':
            pbm.reset(False)
        elif kind == 'normalize':
            psd = np.asarray(pbm.PSD, dtype=float)
            b = np.asarray(pbm.PSDbounds, dtype=float)
            r = 0.5 * (b[1:] + b[:-1])
            tot = float(np.sum(psd * (b[1:] - b[:-1]))) if op['order'] is None else float(np.sum(psd * r ** op['order']))
            if not (tot > 1e-250 and np.isfinite(tot) and np.isfinite(float(psd.max()) / tot)):
                R.observe('rejected:normalize')
                H['log'][-1]['rejected'] = True
                return True
            if op['order'] is None:
                pbm.Normalize()
            else:
                pbm.NormalizeToMoment(op['order'])
        elif kind == 'toggle_adaptive':
            pbm.setAdaptiveBinSize(not pbm._adaptiveBinSize)
        elif kind == 'moments':
            run_moments(R, pbm, op, H)
        else:
            raise RuntimeError('unknown op ' + kind)
    except CT.ContractViolation as v:
        m = dict(mech)           # 'via' = the operation the caller issued
        m.update(v.mech)         # 'op' = the (possibly nested) operation whose contract failed
        R.check(v.monitor, False, m, history=H['log'], config=H['cfg'], **v.detail)
        return False
    except Exception as e:
        if core.kawin_frame(e.__traceback__) is None or core.innermost_is_harness(e.__traceback__):
            raise
        if kind == 'adjust':
            mech['grid'] = 'bins<=minBins/2' if int(pbm.bins) <= int(pbm.minBins / 2) else 'bins>minBins/2'
        R.exception('no_exception', e, mech, history=H['log'], config=H['cfg'])
        return False
    R.count('no_exception', 1)

    remeshed = CT.EVENTS.get('call:changeSizeClasses', 0) > remesh_calls
    if remeshed:
        R.observe('remesh_ops')
        if populated_before:
            H['nontrivial'] = True
            R.observe('remesh_ops_populated')
        if sh.backup is not None:
            sh.remesh_since_backup = True
    if kind == 'adjust':
        ext = CT.EVENTS.get('call:addSizeClasses', 0) > extend_calls
        R.observe('adjust:' + ('+'.join(x for x, f in (('extend', ext), ('remesh', remeshed)) if f) or 'nothing'))

    # ---- shadow model --------------------------------------------------------------------------------------
    ok = True
    if kind == 'load_func':
        sh.psd = keep
        ok = compare_shadow(R, pbm, sh, mech, None)
        sh.sync(pbm)
    elif kind == 'load_data':
        sh.psd = py_histogram(op['data'], sh.bounds)
        ok = compare_shadow(R, pbm, sh, mech, None)
        sh.sync(pbm)
    elif kind == 'extend':
        old = sh.bins
        sh.bins = old + op['n']
        sh.psd = np.concatenate([sh.psd, np.zeros(op['n'])])
        ok = compare_shadow(R, pbm, sh, mech, False, prefix_bounds=old + 1)
        sh.sync(pbm)
    elif kind == 'backup':
        ok = compare_shadow(R, pbm, sh, mech, True)
        sh.backup = sh.state()
        sh.can_revert = True
        sh.remesh_since_backup = False
    elif kind == 'moments':
        ok = compare_shadow(R, pbm, sh, mech, True)
    elif kind == 'revert':
        sh.set(sh.backup)
        sh.min, sh.max = float(sh.bounds[0]), float(sh.bounds[-1])
        ok = compare_shadow(R, pbm, sh, mech, True)
    elif kind == 'reset':
        sh.set(sh.init)
        sh.psd = np.zeros(sh.bins)
        ok = compare_shadow(R, pbm, sh, mech, True)
        sh.can_revert = False
    else:
        # outcome left open by the statement: re-synchronise
        if kind in ('reset_keep', 'remesh_reset'):
            sh.can_revert = False
        sh.sync(pbm)
    return ok


def run_history(R, cfg, ops=None, rng=None):
    """ops: scripted list of op dicts (values may be callables taking the object), else random from rng."""
    from kawin.precipitation.PopulationBalance import PopulationBalanceModel
    H = {'cfg': cfg, 'log': [], 'nontrivial': False}
    R.observe('histories')
    R.observe('grid_class:' + cfg['grid_class'])
    try:
        pbm = PopulationBalanceModel(cfg['cMin'], cfg['cMax'], cfg['bins'], cfg['minBins'], cfg['maxBins'])
        pbm.setAdaptiveBinSize(cfg['adaptive'])
    except CT.ContractViolation as v:
        R.check(v.monitor, False, dict(v.mech, op='construct'), config=cfg, **v.detail)
        return H
    sh = Shadow(pbm)
    nops = len(ops) if ops is not None else int(rng.integers(3, MAX_OPS + 1))
    done = 0
    for i in range(nops):
        if ops is not None:
            op = ops[i](pbm) if callable(ops[i]) else dict(ops[i])
        else:
            op = draw_op(rng, pbm, sh, i == 0)
        done += 1
        if not execute(R, pbm, sh, op, H):
            R.observe('histories_ended_early')
            break
    R.observe('ops', done)
    if H['nontrivial']:
        R.observe('histories_nontrivial')
    return H


# ================================================================================================
# scripted histories: the mechanisms of DESIGN section 5 and the repository's own four scenarios, seed independent

def _spike(k, value=1e6):
    def f(p):
        v = np.zeros(p.bins)
        v[k if k >= 0 else p.bins + k] = value
        return {'op': 'load_func', 'dist': 'scripted_spike', 'values': v}
    return f


def _moments(p):
    n = p.bins
    return {'op': 'moments', 'N': np.linspace(1.0, 2.0, n), 'order': 3.0, 'weights': np.linspace(0.5, 1.5, n),
            'A': np.full(n, 5.0), 'B': np.linspace(10.0, 20.0, n)}


def _lognormal(p):
    r = np.asarray(p.PSDsize)
    v = 1e12 * np.exp(-0.5 * (np.log(r / (0.4 * r[-1])) / 0.2) ** 2)
    return {'op': 'load_func', 'dist': 'scripted_lognormal', 'values': v}


def _remesh_same_range(bins):
    def f(p):
        return {'op': 'remesh', 'mode': 'scripted', 'cMin': float(p.PSDbounds[0]), 'cMax': float(p.PSDbounds[-1]), 'bins': bins}
    return f


def scripted():
    D = {'cMin': 1e-10, 'cMax': 1e-9, 'bins': 150, 'minBins': 100, 'maxBins': 200, 'adaptive': True, 'grid_class': 'default'}
    T = {'cMin': 1e-10, 'cMax': 1e-8, 'bins': 200, 'minBins': 100, 'maxBins': 300, 'adaptive': True, 'grid_class': 'in_range'}
    S = {'cMin': 1e-10, 'cMax': 1e-8, 'bins': 20, 'minBins': 100, 'maxBins': 200, 'adaptive': True, 'grid_class': 'small'}
    out = []
    out.append(('moments_default', D, [_lognormal, _moments]))
    out.append(('isolated_class_10x_coarser', D, [_spike(70), _remesh_same_range(15)]))
    out.append(('lognormal_coarser_finer', D, [_lognormal, _remesh_same_range(30), _remesh_same_range(300)]))
    out.append(('backup_remesh_revert', D, [_lognormal, {'op': 'backup'}, _remesh_same_range(60), {'op': 'revert'}]))
    out.append(('backup_adjust_revert', T, [{'op': 'extend', 'n': 180}, _spike(-1, 2.0), {'op': 'backup'},
                                           {'op': 'adjust', 'dissolution': False}, {'op': 'revert'}]))
    out.append(('backup_extend_revert', D, [_lognormal, {'op': 'backup'}, {'op': 'extend', 'n': 40}, {'op': 'revert'}]))
    out.append(('adjust_dissolution_small_grid', S, [_spike(3, 50.0), {'op': 'adjust', 'dissolution': True}]))
    # the repository's own scenarios (test_PBM)
    out.append(('repo_reset', T, [{'op': 'extend', 'n': 150}, _spike(-1, 2.0), {'op': 'adjust', 'dissolution': False}, {'op': 'reset'}]))
    out.append(('repo_add_bins', T, [_spike(-1, 2.0), {'op': 'adjust', 'dissolution': False}, {'op': 'reset'}]))
    out.append(('repo_increase_bin_size', T, [{'op': 'extend', 'n': 180}, _spike(-1, 2.0), {'op': 'adjust', 'dissolution': False}, {'op': 'reset'}]))
    out.append(('repo_decrease_bin_size', T, [_spike(25, 2.0), {'op': 'adjust', 'dissolution': True}, {'op': 'reset'}]))
    out.append(('adaptive_off_extend_only', dict(T, adaptive=False), [{'op': 'extend', 'n': 180}, _spike(-1, 2.0),
                                                                   {'op': 'adjust', 'dissolution': True}]))
    return out


# ================================================================================================

def _run_model(case, R):
    from vlib.precip_run import TrajectoryRun
    cfg = case['cfg']
    CT.drain()
    run = TrajectoryRun(cfg, R, [], max_steps=cfg['max_steps']).execute()
    stats, events, worst = CT.drain()
    for m, n in stats.items():
        R.count(m, n)
    for k, n in events.items():
        R.observe('model_ev:' + k, n)
    err = run.error
    if isinstance(err, CT.ContractViolation):
        R.check(err.monitor, False, dict(err.mech, via_model='PrecipitateModel'), **{k: core.jsonable(v) for k, v in (err.detail or {}).items()})
    elif err is not None:
        R.observe('model_run_ended_by_exception')         # crashes of the model are C03's subject
        R.info['error'] = '%s: %s' % (type(err).__name__, str(err)[:200])
    R.observe('model_steps', run.steps)
    R.info.update({'system': cfg['system'], 'steps': run.steps, 'remesh_calls': events.get('call:changeSizeClasses', 0),
                   'extend_calls': events.get('call:addSizeClasses', 0)})
    R.set_nontrivial(run.steps >= 50 and (events.get('call:changeSizeClasses', 0) + events.get('call:addSizeClasses', 0)) > 0)


def _run_repo_tests(case, R):
    """The repository's own tests that exercise the population balance, with the contracts switched on (pytest plugin
    vlib/c08_pytest_plugin.py). A contract that fires there is either too strict or a defect the tests do not assert."""
    import json as _json
    import os
    import subprocess
    import sys
    scratch = os.environ.get('KAWIN_VERIF_SCRATCH', os.path.join(core.VERIF, '.scratch', 'C08'))
    os.makedirs(os.path.join(scratch, 'kawin', 'tests'), exist_ok=True)      # one test saves to the relative path kawin/tests/prec.npz
    out = os.path.join(scratch, 'c08_repo_tests_%d.json' % os.getpid())
    env = dict(os.environ)
    env['PYTHONPATH'] = os.pathsep.join([core.REPO, core.VERIF, os.path.join(core.VERIF, '.deps')])
    env['C08_PLUGIN_OUT'] = out
    tests = [os.path.join(core.REPO, 'kawin', 'tests', f) for f in ('test_PBM.py', 'test_precipitation.py')]
    cmd = [sys.executable, '-m', 'pytest', '-q', '-p', 'no:cacheprovider', '-p', 'vlib.c08_pytest_plugin', '--timeout=900',
           '--rootdir', scratch] + tests
    try:
        pr = subprocess.run(cmd, cwd=scratch, env=env, stdout=subprocess.PIPE, stderr=subprocess.STDOUT, timeout=1200, text=True)
    except subprocess.TimeoutExpired:
        R.inconclusive = 'repository tests under contracts timed out'
        return
    if not os.path.exists(out):
        R.inconclusive = 'contract plugin wrote no report: ' + pr.stdout[-400:]
        return
    rep = _json.load(open(out))
    os.remove(out)
    for m, n in rep['stats'].items():
        R.count(m, n)
    for v in rep['violations']:
        R.check(v['monitor'], False, dict(v['mech'], via_model='repository_tests'), test=v.get('test'), detail=v.get('detail'))
    R.observe('repo_tests_run', rep['tests'])
    R.observe('repo_tests_failed', rep['failed'])
    R.info.update({'tests': rep['tests'], 'failed': rep['failed'], 'contract_evaluations': sum(rep['stats'].values())})
    R.set_nontrivial(rep['tests'] > 0 and sum(rep['stats'].values()) > 0)


def run_case(case, R):
    if CT is None:
        worker_init()
    if case['kind'] == 'model_run':
        return _run_model(case, R)
    if case['kind'] == 'repo_tests':
        return _run_repo_tests(case, R)
    CT.drain()
    nontrivial = 0
    if case['kind'] == 'scripted':
        for name, cfg, ops in scripted():
            H = run_history(R, dict(cfg, scripted=name), ops=ops)
            nontrivial += bool(H['nontrivial'])
    else:
        rng = core.case_rng(case['seed'], PROPERTY, case['idx'])
        for j in range(case['n']):
            cfg = draw_config(rng)
            H = run_history(R, cfg, rng=rng)
            nontrivial += bool(H['nontrivial'])
    stats, events, worst = CT.drain()
    for m, n in stats.items():
        R.count(m, n)
    for k, n in events.items():
        R.observe('ev:' + k, n)
    for k, v in worst.items():
        R.worst(k, v)
    R.info['nontrivial_histories'] = nontrivial
    R.set_nontrivial(nontrivial > 0)


MANIFEST = {
    'text': 'Random operation histories (<= 30 public calls: load, extend, re-mesh, automatic adjustment, update, backup, revert, '
            'reset, normalise, moment calls) are run on real PopulationBalanceModel objects over random grids and distributions with '
            'adaptive binning on and off. An icontract class invariant (lengths, strictly increasing boundaries from min to max, '
            'midpoint centres, finite non-negative populations) is evaluated around every outermost public call; icontract '
            'post-conditions with OLD snapshots decide extension (old classes untouched), re-mesh (third moment preserved when the new '
            'grid covers the populated classes), adaptive adjustment (class count <= maxBins), reset (initial grid), revert (saved state) '
            'and load (histogram); a metamorphic garbage-A/garbage-B test decides that every *FromN moment function ignores the object\'s '
            'own population; an independent shadow model is compared after every operation whose outcome the statement fixes.',
    'note': 'trusted: icontract 2.7.3, numpy; sampled histories only (length <= 30, <= 1500 classes); plotting helpers, recording and '
            'setPSDtoRecordedTime are out of scope; the numerical result of a re-mesh beyond its third moment is not judged',
    'technique': 'runtime contracts (icontract class invariant + post-conditions with OLD snapshots) and a shadow-model history monitor '
                 'with metamorphic purity checks',
}
