"""C19 - stopping conditions stop the run when, and only when, they are met.

For each baseline configuration a run A without conditions is recorded (fresh thermodynamics object); then runs
B with condition sets derived from A's own histories (quantiles of the monitored quantity) are executed with
fresh objects, so that equal inputs give equal bits.

  c19.prefix          B's 16 histories are a bit-identical prefix of A's
  c19.stop_index      B ends exactly at the first step index n >= 1 at which the or-combined (any) / and-combined
                      (all) latched conditions hold on A's data, or runs to the requested end if that never happens
  c19.latched         after the run every condition reports satisfied iff it was met at some step <= the stop
                      index; a second solve() afterwards leaves met conditions met and their times unchanged
  c19.time_in_step    a met condition's reported time lies in [t_{n-1}, t_n] of the step n on which it was first
                      met and equals the linear interpolation of the monitored quantity (1e-9 relative);
                      unmet conditions report -1. (If the quantity already satisfied the inequality at step 0 the
                      statement's "crossed the threshold" has no step to refer to: counted, not asserted.)
  c19.no_exception    building/adding a condition and running with it does not raise
  c19.ttp             TTPCalculator times for each temperature equal those of independent fresh runs with the same
                      and-combined conditions (1e-6 relative; the calculator legitimately reuses one backend
                      object, see C09 for the size of cache-history effects), -1 where never met
All six quantities (volume fraction, mean radius, driving force, nucleation rate, density, composition), both
inequalities, phase / element selection (two-phase Al-Mg-Si, ternary elements).
"""
import numpy as np

from vlib import core, precip

PROPERTY = 'C19'
LEVEL = 'exploration'
RULE = ('baselines {binary Al-Zr, ternary Ni-Al-Cr, two-phase Al-Mg-Si} x random condition sets (1-3 conditions, or/and mixes, six quantities, both '
        'inequalities, phase/element selection, thresholds at quantiles of the baseline history incl. never-met ones); non-trivial = B stops '
        'strictly inside A; distinct by (baseline, condition set) hash; plus TTP calculators over 3 temperatures')
REQUIRED_MONITORS = ['c19.prefix', 'c19.stop_index', 'c19.latched', 'c19.time_in_step', 'c19.ttp', 'c19.no_exception']
REACH = ['precipitation/StoppingConditions.py:PrecipitationStoppingCondition.testCondition',
         'precipitation/StoppingConditions.py:CompositionCondition._poll',
         'precipitation/TimeTemperaturePrecipitation.py:TTPCalculator._getStopTime', 'precipitation/KWNBase.py:PrecipitateBase.postProcess']
MIN_NONTRIVIAL = {'quick': 12, 'thorough': 150}
CASE_TIMEOUT = 1500
CASE_TIMEOUT_THOROUGH = 3000
MAX_INCONCLUSIVE_FRACTION = 0.0
N_SAMPLES = 3
ASSUMPTIONS = ['conditions are evaluated after every accepted step (first at step 1)', 'bitwise equality relies on fresh backend objects per run']
MANIFEST = {
    'text': 'Differential monitor: every run with stopping conditions is compared bitwise with an unconditioned baseline of the same '
            'configuration; the stop index, latching and interpolated times are recomputed independently from the baseline histories; '
            'TTP results are compared with independent per-temperature runs.',
    'note': 'trusted: determinism of kawin+pycalphad for identical inputs on fresh objects (measured: bit-identical)',
    'technique': 'differential (paired-run) monitor with an independent reference evaluation of the conditions on the recorded baseline history',
}

QUANT = ['volFrac', 'Ravg', 'drivingForce', 'nucRate', 'precipitateDensity', 'composition']
N_SETS = {'quick': 10, 'thorough': 40}
N_BASE = {'quick': 4, 'thorough': 12}


def _baseline(rng, k, tier):
    system = ['alzr', 'nialcr', 'almgsi', 'cuti'][k % 4]     # cuti: binary system with two precipitate phases
    cfg = precip.default_cfg(system)
    cfg['iterator'] = 'euler' if (k // 4 + k) % 2 == 0 else 'rk4'
    cfg['constraints'] = {'dtScale': float(rng.choice([0.1, 0.3]))}
    if system == 'alzr':
        cfg['x0'] = [float(rng.uniform(4e-3, 6e-3))]
        cfg['schedule'] = {'kind': 'iso', 'T': float(rng.uniform(730, 770))}
        cfg['segments'] = [float(np.exp(rng.uniform(np.log(2e4), np.log(2e5))))]
        cfg['pbm'] = {'cMin': 1e-10, 'cMax': 5e-9, 'bins': 50, 'minBins': 40, 'maxBins': 80, 'adaptive': True}
    elif system == 'nialcr':
        cfg['x0'] = [float(rng.uniform(0.10, 0.115)), float(rng.uniform(0.07, 0.09))]
        cfg['schedule'] = {'kind': 'iso', 'T': float(rng.uniform(1030, 1080))}
        cfg['segments'] = [float(np.exp(rng.uniform(np.log(3e2), np.log(3e3))))]
    elif system == 'cuti':
        cfg['x0'] = [float(rng.uniform(0.012, 0.025))]
        cfg['schedule'] = {'kind': 'iso', 'T': float(rng.uniform(610, 680))}
        cfg['segments'] = [float(np.exp(rng.uniform(np.log(3e2), np.log(5e3))))]
    else:
        cfg['schedule'] = {'kind': 'iso', 'T': float(rng.uniform(440, 470))}
        cfg['segments'] = [float(np.exp(rng.uniform(np.log(5e3), np.log(5e4))))]
    cfg['max_steps'] = 450 if tier == 'quick' else 1500
    return cfg


def plan(tier, seed):
    cases = []
    for k in range(N_BASE[tier]):
        rng = core.case_rng(seed, PROPERTY, k)
        cfg = _baseline(rng, k, tier)
        nsets = N_SETS[tier]
        per = 2
        for b in range(0, nsets, per):
            cases.append({'kind': 'conditions', 'cfg': cfg, 'base': k, 'first_set': b, 'nsets': min(per, nsets - b),
                          'weight': 3e5 * (3 if cfg['system'] == 'almgsi' else 1)})
    for k in range(1 if tier == 'quick' else 4):
        cases.append({'kind': 'ttp', 'variant': k, 'weight': 4e5})
    return cases


def _quantity(pd, q, model, phase, element):
    if q == 'composition':
        e = 0 if element is None else list(model.elements).index(element)
        return np.asarray(pd['composition'])[:, e]
    p = 0 if phase is None else list(model.phases).index(phase)
    return np.asarray(pd[q])[:, p]


def _make_condition(q, ineq, value, phase, element):
    import kawin.precipitation.StoppingConditions as sc
    I = sc.Inequality.GREATER_THAN if ineq == '>' else sc.Inequality.LESSER_THAN
    cls = {'volFrac': sc.VolumeFractionCondition, 'Ravg': sc.AverageRadiusCondition, 'drivingForce': sc.DrivingForceCondition,
           'nucRate': sc.NucleationRateCondition, 'precipitateDensity': sc.PrecipitateDensityCondition,
           'composition': sc.CompositionCondition}[q]
    if q == 'composition':
        return cls(I, value, element=element)
    return cls(I, value, phase=phase)


def _draw_conditions(rng, A, model, force=None):
    """1-3 conditions with thresholds drawn from A's own history. force = 'last_element' / 'last_phase' makes the
    first condition select the last solute / last precipitate phase (selection other than the default index 0)."""
    n = int(rng.choice([1, 1, 2, 2, 3]))
    conds = []
    for ic in range(n):
        q = str(rng.choice(QUANT))
        phase = element = None
        if ic == 0 and force == 'last_element':
            q = 'composition'
        if ic == 0 and force == 'last_phase' and q == 'composition':
            q = str(rng.choice(QUANT[:5]))
        if q == 'composition':
            if len(model.elements) > 1 or rng.random() < 0.5:
                element = str(rng.choice(list(model.elements)))
            if ic == 0 and force == 'last_element':
                element = str(list(model.elements)[-1])
        else:
            if len(model.phases) > 1 or rng.random() < 0.5:
                phase = str(rng.choice(list(model.phases)))
            if ic == 0 and force == 'last_phase':
                phase = str(list(model.phases)[-1])
        h = _quantity(A, q, model, phase, element)
        lo, hi = float(np.min(h)), float(np.max(h))
        r = rng.random()
        if hi == lo:
            value, ineq = hi * 2 + 1.0, '>'
        elif r < 0.75:
            f = float(rng.uniform(0.05, 0.95))
            value = lo + f * (hi - lo)
            ineq = '>' if h[0] <= value else '<'
            if rng.random() < 0.15:
                ineq = '<' if ineq == '>' else '>'
        elif r < 0.9:
            value, ineq = hi + abs(hi) * 0.5 + 1e-30, '>'         # never met
        else:
            value, ineq = lo - abs(lo) * 0.5 - 1e-30, '<'         # never met
        conds.append({'q': q, 'ineq': ineq, 'value': float(value), 'phase': phase, 'element': element,
                      'mode': str(rng.choice(['or', 'or', 'and']))})
    return conds


def _reference(A, model, conds):
    """first stop index and per-condition (first index, interpolated time) from the baseline history"""
    t = np.asarray(A['time'])
    N = len(t)
    first = []
    for c in conds:
        h = _quantity(A, c['q'], model, c['phase'], c['element'])
        sat = (h > c['value']) if c['ineq'] == '>' else (h < c['value'])
        idx = [i for i in range(1, N) if sat[i]]
        first.append(idx[0] if idx else None)
    stop = None
    for n in range(1, N):
        L = [f is not None and f <= n for f in first]
        anyor = any(L[j] for j, c in enumerate(conds) if c['mode'] == 'or')
        ands = [L[j] for j, c in enumerate(conds) if c['mode'] == 'and']
        alland = bool(ands) and all(ands)
        if anyor or alland:
            stop = n
            break
    return first, stop


def _run(cfg, R, conds=None, extra_solve=False, prehistory=False):
    from vlib.precip_run import TrajectoryRun
    run = TrajectoryRun(cfg, R, [], max_steps=cfg['max_steps'])
    objs = []
    if conds is not None:
        def attach(model):
            if prehistory:
                # the model held other conditions before (opposite modes, one more than the real set), cleared through the
                # public clearStoppingConditions(): the conditions in force are only the ones added afterwards
                # (added after seeded change F12: mode entries of cleared conditions were applied to the new ones)
                for c in list(conds) + [conds[0]]:
                    model.addStoppingCondition(_make_condition(c['q'], c['ineq'], c['value'], c['phase'], c['element']),
                                               'and' if c['mode'] == 'or' else 'or')
                model.clearStoppingConditions()
                R.observe('condition_sets_with_cleared_prehistory')
            for c in conds:
                o = _make_condition(c['q'], c['ineq'], c['value'], c['phase'], c['element'])
                objs.append(o)
                model.addStoppingCondition(o, c['mode'])
        run.monitors = [_Attach(attach)]
    run.execute()
    return run, objs


class _Attach:
    def __init__(self, f):
        self.f = f

    def on_build(self, run, model):
        self.f(model)

    def on_step(self, *a):
        pass

    def on_exception(self, *a):
        pass

    def on_solve_return(self, *a):
        pass


def run_case(case, R):
    if case['kind'] == 'ttp':
        return _run_ttp(case, R)
    cfg = case['cfg']
    runA, _ = _run(cfg, R)
    if runA.error is not None or runA.rejected or R.inconclusive:
        R.inconclusive = R.inconclusive or 'baseline run failed: %r' % (runA.error,)
        return
    mA = runA.model
    A = precip.snapshot_histories(mA)
    NA = len(A['time'])
    R.info.update({'system': cfg['system'], 'baseline_steps': NA - 1, 'capped': runA.capped})
    inside = 0
    for s in range(case['first_set'], case['first_set'] + case['nsets']):
        rng = core.case_rng(case['seed'], PROPERTY, 5000 + case['base'], s)
        force = {1: 'last_element', 3: 'last_phase'}.get(s % 5)
        conds = _draw_conditions(rng, A, mA, force)
        first, stop = _reference(A, mA, conds)
        mech = {'system': cfg['system'], 'iterator': cfg['iterator'],
                'modes': '+'.join(sorted(set(c['mode'] for c in conds))), 'nconds': len(conds)}
        mech['cleared_prehistory'] = bool(s % 2 == 1)
        runB, objs = _run(cfg, R, conds, prehistory=mech['cleared_prehistory'])
        if runB.error is not None:
            R.exception('c19.no_exception', runB.error, dict(mech, quantities='+'.join(sorted(set(c['q'] for c in conds)))), conditions=conds)
            continue
        R.count('c19.no_exception')
        B = precip.snapshot_histories(runB.model)
        NB = len(B['time'])
        exp_len = (stop + 1) if stop is not None else NA
        if runA.capped and stop is None:
            # both runs end at the same logical step cap
            exp_len = NA
        R.check('c19.stop_index', NB == exp_len, dict(mech, expected='stop' if stop is not None else 'run_to_end',
                                                      direction='late' if NB > exp_len else 'early'),
                stopped_at=NB - 1, expected=exp_len - 1, conditions=conds, first_met=first)
        n = min(NA, NB)
        okp = all(np.array_equal(np.asarray(A[k])[:n], np.asarray(B[k])[:n], equal_nan=True) for k in precip.HISTORIES) and NB <= NA
        R.check('c19.prefix', okp, mech, lengths=(NA, NB))
        if stop is not None and NB == exp_len and stop < NA - 1:
            inside += 1
            R.add_nontrivial('%s-%d-set%d' % (cfg['system'], case['base'], s))
        # latching and times
        tA = np.asarray(A['time'])
        for j, (c, o) in enumerate(zip(conds, objs)):
            met_ref = first[j] is not None and first[j] <= NB - 1
            cm = dict(mech, quantity=c['q'], ineq=c['ineq'], selected=(c['phase'] or c['element']) is not None)
            R.check('c19.latched', bool(o.isSatisfied()) == bool(met_ref), dict(cm, expected_met=bool(met_ref)), condition=c, first_met=first[j])
            if not met_ref:
                R.check('c19.time_in_step', o.satisfiedTime() == -1, dict(cm, case='unmet'), reported=o.satisfiedTime())
                continue
            nj = first[j]
            h = _quantity(A, c['q'], mA, c['phase'], c['element'])
            already = (h[0] > c['value']) if c['ineq'] == '>' else (h[0] < c['value'])
            if already:
                R.observe('c19_met_before_first_step')
                continue
            t0, t1 = tA[nj - 1], tA[nj]
            ts = o.satisfiedTime()
            ref = t0 + (t1 - t0) * (c['value'] - h[nj - 1]) / (h[nj] - h[nj - 1])
            ok = (t0 - 1e-12 * abs(t1) <= ts <= t1 * (1 + 1e-12)) and abs(ts - ref) <= 1e-9 * abs(t1)
            R.check('c19.time_in_step', ok, dict(cm, case='met'), reported=ts, step=[t0, t1], interpolation=ref, condition=c)
        # a met condition stays met over a further solve() call
        if any(o.isSatisfied() for o in objs):
            before = [(o.isSatisfied(), o.satisfiedTime()) for o in objs]
            try:
                runB.model.solve(cfg['segments'][0] * 1e-3, solverType=precip.solver_type(cfg['iterator']))
                after = [(o.isSatisfied(), o.satisfiedTime()) for o in objs]
                keep = all((not b[0]) or (a[0] and a[1] == b[1]) for a, b in zip(after, before))
                R.check('c19.latched', keep, dict(mech, clause='stays_met_after_second_solve'), before=before, after=after)
            except core.StopRun:
                pass
            except Exception as e:
                R.exception('c19.no_exception', e, dict(mech, clause='second_solve'))
    R.observe('condition_sets', case['nsets'])
    R.observe('stopped_inside', inside)
    R.set_nontrivial(False)


def _run_ttp(case, R):
    from kawin.precipitation.TimeTemperaturePrecipitation import TTPCalculator
    rng = core.case_rng(case['seed'], PROPERTY, 9000 + case['variant'])
    system = ['nialcr', 'alzr', 'nialcr', 'alzr'][case['variant'] % 4]
    cfg = precip.default_cfg(system)
    cfg['iterator'] = 'rk4'                     # the calculator uses solve()'s default iterator
    cfg['constraints'] = {'dtScale': 0.3}
    if system == 'nialcr':
        cfg['x0'] = [0.11, 0.08]
        Ts = [1020.0, 1050.0, 1080.0]
        maxTime = float(rng.uniform(0.2, 0.4))      # the calculator's reset() restores the default 150-class grid: ~2500 steps/s of model time
        cdesc = [{'q': 'volFrac', 'ineq': '>', 'value': 0.01, 'phase': None, 'element': None},
                 {'q': 'volFrac', 'ineq': '>', 'value': 0.05, 'phase': 'FCC_L12', 'element': None},
                 {'q': 'composition', 'ineq': '<', 'value': 0.105, 'phase': None, 'element': 'AL'},
                 {'q': 'Ravg', 'ineq': '>', 'value': 1.0, 'phase': None, 'element': None}]      # never met
    else:
        cfg['x0'] = [5e-3]
        cfg['pbm'] = {'cMin': 1e-10, 'cMax': 5e-9, 'bins': 50, 'minBins': 40, 'maxBins': 80, 'adaptive': True}
        Ts = [720.0, 745.0, 770.0]
        maxTime = float(rng.uniform(2e3, 5e3))
        cdesc = [{'q': 'volFrac', 'ineq': '>', 'value': 1e-3, 'phase': None, 'element': None},
                 {'q': 'precipitateDensity', 'ineq': '>', 'value': 1e20, 'phase': 'AL3ZR', 'element': None},
                 {'q': 'volFrac', 'ineq': '>', 'value': 0.5, 'phase': None, 'element': None}]     # never met
    mech = {'system': system}
    # --- independent runs first (they also provide the peaks from which the adaptive thresholds are taken)
    refs = []
    hist = []
    for i, T in enumerate(Ts):
        th2 = precip.make_therm(system, cfg['phases'])
        m2 = precip.build_model(cfg, th2)
        objs = [_make_condition(c['q'], c['ineq'], c['value'], c['phase'], c['element']) for c in cdesc]
        for o in objs:
            m2.addStoppingCondition(o, 'and')
        try:
            # the statement describes the calculator's result as "after resetting the model": the reference run
            # performs the same public sequence (reset, set temperature, solve) on an independent model and backend
            m2.reset()
            m2.setTemperature(float(T))
            m2.solve(maxTime)
        except Exception as e:
            R.exception('c19.no_exception', e, dict(mech, clause='reference_run'))
            return
        refs.append([o.satisfiedTime() for o in objs])
        n = m2.pData.n
        hist.append({'t': np.array(m2.pData.time[:n + 1], copy=True), 'dens': np.array(m2.pData.precipitateDensity[:n + 1, 0], copy=True)})
    # --- adaptive conditions: number density thresholds between the peaks reached at different temperatures, so that the
    # condition is met at some temperatures and NOT met at others (added after seeded change C19-d: the time of the previous
    # temperature survived the calculator's reset and was reported for a temperature at which the condition was never met)
    peaks = np.array([float(np.max(h['dens'])) for h in hist])
    order = np.argsort(peaks)
    adaptive = []
    for lo, hi in ((order[-2], order[-1]), (order[0], order[1])):
        if peaks[lo] > 0 and peaks[hi] / peaks[lo] > 1.2:
            adaptive.append(float(np.sqrt(peaks[lo] * peaks[hi])))
    adesc = [{'q': 'precipitateDensity', 'ineq': '>', 'value': v, 'phase': cfg['phases'][0], 'element': None} for v in adaptive]

    def _interp(h, thr):
        # independent statement of the rule: first step whose end value exceeds the threshold, linear interpolation inside it
        q, t = h['dens'], h['t']
        k = np.nonzero(q > thr)[0]
        if len(k) == 0:
            return -1.0
        k = int(k[0])
        if k == 0:
            return float(t[0])
        return float(t[k - 1] + (thr - q[k - 1]) / (q[k] - q[k - 1]) * (t[k] - t[k - 1]))
    for i in range(len(Ts)):
        refs[i] = refs[i] + [_interp(hist[i], v) for v in adaptive]
    allc = cdesc + adesc
    # --- the calculator (one model, one backend, reset between temperatures)
    th = precip.make_therm(system, cfg['phases'])
    model = precip.build_model(cfg, th)
    conds = [_make_condition(c['q'], c['ineq'], c['value'], c['phase'], c['element']) for c in allc]
    try:
        ttp = TTPCalculator(model, conds)
        ttp.calculateTTP(Ts[0], Ts[-1], len(Ts), maxTime)
        got = np.array(ttp.transformationTimes, dtype=float)
    except Exception as e:
        R.exception('c19.no_exception', e, dict(mech, clause='ttp'))
        return
    R.count('c19.no_exception')
    met_some = 0
    for i, T in enumerate(Ts):
        for j in range(len(allc)):
            ref = refs[i][j]
            g = got[i, j]
            if ref == -1 or g == -1:
                ok = ref == g
            else:
                ok = abs(g - ref) <= 1e-6 * abs(ref)
                met_some += 1
            met_before = bool(any(refs[k][j] != -1 for k in range(i)))
            if ref == -1 and met_before:
                R.observe('ttp_unmet_after_met_at_an_earlier_temperature')
            R.check('c19.ttp', ok, dict(mech, quantity=allc[j]['q'], temperature_index=i, never_met=(ref == -1), adaptive=j >= len(cdesc),
                                        met_at_an_earlier_temperature=met_before),
                    calculator=g, independent=ref, T=T, threshold=allc[j]['value'])
    R.info['adaptive_thresholds'] = adaptive
    R.info['peaks'] = peaks
    R.info.update({'system': system, 'ttp_times': got, 'temperatures': Ts})
    R.set_nontrivial(met_some >= 2, key='ttp-%d' % case['variant'])
