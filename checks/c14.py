"""C14 - nucleation quantities obey classical nucleation theory for every site type.

Everything observes the real code: kawin/precipitation/NucleationRate.py (nucleationBarrier, zeldovich, betaBinary1/2,
betaMulti, incubationTime, nucleationRate, computeSteadyStateNucleation), the site descriptions and
NucleationBarrierParameters in kawin/precipitation/parameters/Nucleation.py and PrecipitateModel._calcNucleationSites.

Two layers of monitors
  (1) runtime contracts: worker_init() wraps the public functions of kawin.precipitation.NucleationRate; every call
      made while a case runs - also the calls made *inside* computeSteadyStateNucleation - has its result judged:
        rcrit_ge_rmin          DF > 0  =>  R* >= Rmin (exact)
        barrier_nonneg         DF > 0  =>  G* finite and >= 0            (mech: site, clamp active?, quantity)
        quantity_nonneg_finite Zeldovich factor, impingement rate, incubation time, nucleation rate finite and >= 0
                               (only evaluated when the inputs of the call were themselves finite/admissible)
  (2) oracles evaluated by the cases on inputs/outputs of the real functions:
        zero_rate_nonpositive_df  whole chain barrier -> Z -> beta -> tau -> rate gives rate == 0 for DF <= 0 (incl. DF = 0, -0.0)
        incubation_factor         0 <= rate(t) <= rate(inf) and rate(t) non-decreasing in t (t = 0 included); strictly increasing
                                  between two times that both lie in [tau/100, 100 tau] (where double precision resolves it)
        rate_monotone_df          steady-state rate non-decreasing in DF at fixed T, x (rel 1e-9, see TOL_MONO)
        rcrit_sphere              boundary/edge/corner and spherical bulk sites, clamp inactive: R* = 2 gamma / DF (1e-9)
        barrier_sphere_ratio      same set: G* = 16 pi gamma^3 / (3 DF^2) * c / (4 pi / 3) (1e-9), c = description.volumeFactor(k)
        factor_nonneg             a, b, c, areaRemoval finite and >= 0 on k in [0, (1-1e-3) k_max]
        factor_k0                 a(0) = 4 pi, c(0) = 4 pi / 3 (1e-12 relative)
        factor_identity           |a - 2 k b - 3 c| <= 1e-12 * 4 pi
        factor_c_decreasing       c strictly decreasing along the k grid / for random pairs k1 < k2
        factor_geometry           a, b, c against an independent numerical integration of the nucleus geometry
                                  (intersection of 2/3/4 unit balls, vlib/c14_geom.py): |diff| <= 1e-9 |ref| + 3e-10
        sites_nonneg / sites_nonincreasing   PrecipitateModel._calcNucleationSites on a model without thermodynamics,
                                  synthetic log-normal populations: >= 0 and non-increasing when the populations that
                                  occupy the sites of phase p are scaled up / get additional particles
        cache_fresh               after every setter of a random sequence (gamma, gbEnergy, setNucleationType,
                                  description; bare NucleationBarrierParameters, through PrecipitateParameters and
                                  through the PrecipitateModel setters + setup()) all cached factors, Rcrit, Gcrit
                                  equal bit for bit those of a freshly built object (or both raise ValueError)
        array_scalar              every function called with equal-length arrays equals the element-wise scalar calls (1e-12)
  (3) short runs of the real PrecipitateModel (Al-Zr, <= 80 accepted steps, ended by a step-counting coupling model) so that
      the contracts - including one on PrecipitateModel._calcNucleationSites - also judge the calls the model itself makes.

Attribution rule: an element whose barrier came out negative / non-finite is reported once, by barrier_nonneg at the call that
produced it; it is not an admissible input for the rate, so the rate contract and the incubation / monotonicity oracles skip
exactly those elements (events rate_calls_with_negative_barrier_not_judged, elements_with_invalid_barrier_excluded_downstream).

factor_geometry takes "area factor", "removed-boundary factor" and "volume factor" at their documented meaning (docstring of
NucleationBarrierParameters: factor * r^2 resp. r^3 = interface area, removed grain-boundary area, volume of the nucleus); the
algebraic clauses of the statement (sign, k = 0, a - 2kb = 3c, c decreasing) hold for any pair (b, c) on that line and cannot
see a wrong but self-consistent pair - which is what the grain-corner formulas of the unchanged tree are (see
/verif/proposed_fixes/C14-corner-factor-misprint.*).

Findings on the unchanged tree (triaged, reproducers and diffs in /verif/proposed_fixes):
  C14-corner-factor-misprint      factor_geometry, site GRAIN CORNERS, factors gbRemoval and volumeFactor (K**2/sqrt(8) for K/sqrt(8))
  C14-clamped-barrier-negative    barrier_nonneg, clamp active, sites GRAIN BOUNDARIES / EDGES / CORNERS

Decisions where the statement is silent (nothing is asserted there)
  * k within 0.1 % of k_max: the closed forms are 0/0-type expressions there, the absolute rounding error grows like
    eps / (1 - k/k_max) and values of size -1e-8 do occur for 1 - k/k_max < 1e-7.  The sharp oracles stop at
    (1 - 1e-3) k_max; what happens beyond is only counted (event near_limit_negative).  k == k_max exactly is outside [0, k_max).
  * The formulas of Z, beta, tau are not pinned (the statement only bounds them); the nucleation radius is not judged.
  * "sites decrease as precipitates occupy sites": only populations of phases with the same site type as the phase
    asked about, and that are not parent phases of it, are scaled (a growing parent phase legitimately adds sites).
    Which N0 a site type starts from is not part of the statement (observed only: event dislocation_sites_equal_bulkN0).
  * Grain-boundary energy set on the model is propagated by setup(); the cache oracle compares after reset()+setup().
  * Real thermodynamics (Al-Zr, Ni-Al-Cr from kawin.tests.datasets) is used for the impingement functions on a
    moderate number of points; array = scalar is asserted only with the algebraic duck-typed backend because the
    real backend's answers depend on its cache history at the 1e-5 level (DESIGN 1.2).
  * computeSteadyStateNucleation(..., betaFunc=betaBinary1) raises TypeError for a binary system because it hands
    x with shape (N, 1) to betaBinary1; mixing shapes is not part of the statement -> counted (event), not a verdict.
"""
import inspect
import math

import numpy as np

from vlib import core
from vlib import c14_geom as geom

PROPERTY = 'C14'
LEVEL = 'exploration'
RULE = ('cases = {dense k grid (2000 quick / 20000 thorough points on [0,(1-1e-3)k_max]) per boundary/edge/corner site; random k; '
        'random parameter sets (site type x gamma x k <= 0.95 k_max x Vm x Rmin x T x shape) each with 48 driving forces '
        'log-uniform 1e3..10 gamma/Rmin J/m3 plus 0, -0.0 and negative values, duck-typed algebraic diffusivity backend, '
        'beta function in {binary1, binary2, multi}; Al-Zr / Ni-Al-Cr real backend points; synthetic multi-phase populations for '
        'the site count; random setter sequences for the cache}. A case is non-trivial when it evaluated at least one '
        'positive driving force (chain cases), one k > 0.05 of a boundary/edge/corner site (factor and cache cases) or saw the '
        'available sites actually shrink (site cases); distinct by case description (kind, site, repetition, seed)')
REQUIRED_MONITORS = ['rcrit_ge_rmin', 'barrier_nonneg', 'quantity_nonneg_finite', 'zero_rate_nonpositive_df',
                     'incubation_factor', 'rate_monotone_df', 'rcrit_sphere', 'barrier_sphere_ratio',
                     'factor_nonneg', 'factor_k0', 'factor_identity', 'factor_c_decreasing', 'factor_geometry',
                     'sites_nonneg', 'sites_nonincreasing', 'sites_decrease', 'cache_fresh', 'array_scalar']
REACH = ['precipitation/NucleationRate.py:nucleationBarrier', 'precipitation/NucleationRate.py:zeldovich',
         'precipitation/NucleationRate.py:betaBinary1', 'precipitation/NucleationRate.py:betaBinary2',
         'precipitation/NucleationRate.py:betaMulti', 'precipitation/NucleationRate.py:incubationTime',
         'precipitation/NucleationRate.py:nucleationRate', 'precipitation/NucleationRate.py:computeSteadyStateNucleation',
         'precipitation/parameters/Nucleation.py:NucleationBarrierParameters.Rcrit',
         'precipitation/parameters/Nucleation.py:NucleationBarrierParameters.Gcrit',
         'precipitation/parameters/Nucleation.py:NucleationBarrierParameters._resetFactors',
         'precipitation/parameters/Nucleation.py:GrainBoundaryDescription._volumeFactor',
         'precipitation/parameters/Nucleation.py:GrainEdgeDescription._volumeFactor',
         'precipitation/parameters/Nucleation.py:GrainCornerDescription._volumeFactor',
         'precipitation/KWNEuler.py:PrecipitateModel._calcNucleationSites']
MIN_NONTRIVIAL = {'quick': 50, 'thorough': 500}
CASE_TIMEOUT = 300
MAX_INCONCLUSIVE_FRACTION = 0.0
ASSUMPTIONS = ['universally quantified clauses are sampled (dense k grids, random parameter sets); k within 0.1% of k_max excluded (ill-conditioned closed forms)',
               'the reference geometry (intersection of n unit balls at distance k/k_max behind the junction) is the Clemm-Fisher construction; its integrals are converged to 1e-10',
               'valid parameters: gamma, Vm, Rmin, T, x, D > 0, 0 <= k < k_max, theta > 0, time >= 0',
               'the algebraic backend stands in for thermodynamics wherever only finiteness/sign/shape algebra is judged']

SITES = ['BULK', 'DISLOCATIONS', 'GRAIN BOUNDARIES', 'GRAIN EDGES', 'GRAIN CORNERS']
BOUNDARY = SITES[2:]
SPHERE_A = 4 * math.pi
SPHERE_C = 4 * math.pi / 3
K_CUT = 1.0 - 1e-3          # sharp factor oracles on [0, K_CUT * k_max]
K_CHAIN = 0.95              # parameter sets of the chain cases use k <= K_CHAIN * k_max
TOL_K0 = 1e-12
TOL_ID = 1e-12 * SPHERE_A
TOL_GEO_REL, TOL_GEO_ABS = 1e-9, 3e-10   # worst |diff| seen on the fixed tree: 3e-12 (corner a at the cut), reference converged to 1e-13
TOL_SPHERE = 1e-9
TOL_MONO = 1e-9             # |arg of exp| <= 745 and a few ulp on the argument -> <= 1e-12 relative on the rate
TOL_ARR = 1e-12
TINY = 1e-300

_CTX = {'R': None}
_ORIG = {}


# ================================================================================================
# helpers

def _bulk(R, monitor, ok, mech, **detail):
    """vectorised monitor evaluation: every True counts as held, all False of one call give one violation"""
    ok = np.atleast_1d(np.asarray(ok, dtype=bool)).ravel()
    nbad = int((~ok).sum())
    R.count(monitor, int(ok.sum()))
    if nbad:
        first = int(np.argmin(ok))
        d = {}
        for k_, v in detail.items():
            try:
                vv = np.atleast_1d(np.asarray(v)).ravel()
                d[k_] = vv[first] if vv.size == ok.size else v
            except Exception:
                d[k_] = v
        R.check(monitor, False, mech, n_failing=nbad, n_evaluated=int(ok.size), first_failing_index=first, **d)
    return nbad == 0


def _flat(v):
    return np.atleast_1d(np.asarray(v, dtype=float)).ravel()


def _finite_nonneg(v):
    v = _flat(v)
    return np.isfinite(v) & (v >= 0)


class AlgebraicBackend:
    """Duck-typed stand-in for a thermodynamics object: smooth closed-form tracer diffusivities, interfacial
    compositions and impingement factor; pure functions of their arguments (array call == scalar calls)."""

    def __init__(self, numElements, D0, Q, xa, xb, imp):
        self.numElements = numElements
        self.D0 = np.asarray(D0, float)
        self.Q = np.asarray(Q, float)
        self.xa, self.xb, self.imp = xa, xb, imp
        self.calls = 0

    def getTracerDiffusivity(self, x, T, removeCache=False):
        self.calls += 1
        T = np.atleast_1d(np.asarray(T, float))
        xs = np.atleast_1d(np.asarray(x, float))
        xs = xs.reshape(len(T), -1)[:, 0] if xs.size else xs.reshape(0)
        D = self.D0[None, :] * np.exp(-self.Q[None, :] / (8.314 * T[:, None])) * (1 + 0.3 * xs[:, None])
        return np.squeeze(D) if len(T) else D

    def getInterfacialComposition(self, T, gExtra, precPhase=None):
        self.calls += 1
        T = np.atleast_1d(np.asarray(T, float))
        return self.xa * np.exp(-300.0 / T), self.xb * np.ones(T.shape)

    def impingementFactor(self, x, T, precPhase=None, removeCache=False, searchDir=None):
        self.calls += 1
        return float(self.imp * np.exp(-2.0e4 / (8.314 * T)) * (1 + np.sum(x)))


def _make_params(site, gamma, gbk, VmB, VmA, Rmin, shape='sphere', theta=2.0, atoms=4):
    from kawin.precipitation import PrecipitateParameters, MatrixParameters, VolumeParameter
    prec = PrecipitateParameters('BETA')
    prec.gamma = gamma
    prec.volume.setVolume(VmB, VolumeParameter.MOLAR_VOLUME, atoms)
    prec.Rmin = Rmin
    if shape != 'sphere':
        prec.shapeFactor.setPrecipitateShape(shape)
    prec.nucleation.gbEnergy = 2 * gamma * gbk
    prec.nucleation.setNucleationType(site)
    mat = MatrixParameters(['X'])
    mat.volume.setVolume(VmA, VolumeParameter.MOLAR_VOLUME, atoms)
    mat.theta = theta
    return prec, mat


def _description(site):
    from kawin.precipitation.parameters import Nucleation as N
    return {'BULK': N.BulkDescription, 'DISLOCATIONS': N.DislocationDescription,
            'GRAIN BOUNDARIES': N.GrainBoundaryDescription, 'GRAIN EDGES': N.GrainEdgeDescription,
            'GRAIN CORNERS': N.GrainCornerDescription}[site]()


# ================================================================================================
# runtime contracts on kawin.precipitation.NucleationRate

def _contract(name, a, out):
    R = _CTX.get('R')
    if R is None:
        return
    R.observe('contract_calls_' + name)
    prec = a.get('precipitate')
    site = prec.nucleation.description.name if prec is not None else _CTX.get('site')
    if name == 'nucleationBarrier':
        DF = _flat(a['volumeDrivingForce'])
        Rc, Gc = _flat(out[0]), _flat(out[1])
        if not (Rc.size == DF.size == Gc.size) or not (prec.gamma and prec.gamma > 0 and prec.Rmin > 0):
            R.observe('contract_precondition_skipped')
            return
        pos = DF > 0
        if not pos.any():
            return
        ar = a.get('aspectRatio', 1)
        f = float(np.squeeze(prec.shapeFactor.description.thermoFactor(float(np.squeeze(ar)))))
        clamp = (2 * f * prec.gamma / DF[pos]) < prec.Rmin
        R.observe('clamp_active', int(clamp.sum()))
        R.observe('clamp_inactive', int((~clamp).sum()))
        _bulk(R, 'rcrit_ge_rmin', Rc[pos] >= prec.Rmin, {'site': site, 'function': name},
              DF=DF[pos], Rcrit=Rc[pos], Rmin=prec.Rmin, gamma=prec.gamma)
        ok = np.isfinite(Gc[pos]) & (Gc[pos] >= 0)
        for cl in (False, True):
            sel = clamp == cl
            if sel.any():
                _bulk(R, 'barrier_nonneg', ok[sel], {'site': site, 'clamp': cl, 'quantity': 'Gcrit'},
                      DF=DF[pos][sel], Gcrit=Gc[pos][sel], Rcrit=Rc[pos][sel], Rmin=prec.Rmin, gamma=prec.gamma,
                      gbEnergy=prec.nucleation.gbEnergy, unclamped_Rcrit=(2 * f * prec.gamma / DF[pos])[sel])
                if cl and site in BOUNDARY:
                    R.worst('clamped_boundary_sites_minus_Gcrit_over_kT300', float(np.max(-Gc[pos][sel])) / (1.380649e-23 * 300))
        return
    if name == 'zeldovich':
        T, Rc = _flat(a['T']), _flat(a['Rcrit'])
        pre = np.all(np.isfinite(T)) and np.all(T > 0) and np.all(np.isfinite(Rc)) and np.all(Rc >= 0)
        q = 'Z'
    elif name in ('betaBinary1', 'betaBinary2', 'betaMulti'):
        T, Rc = _flat(a['T']), _flat(a['Rcrit'])
        pre = np.all(np.isfinite(T)) and np.all(T > 0) and np.all(np.isfinite(Rc)) and np.all(Rc >= 0)
        q = 'beta'
    elif name == 'incubationTime':
        b, Z = _flat(a['beta']), _flat(a['Z'])
        pre = b.size == Z.size and np.all(np.isfinite(b)) and np.all(np.isfinite(Z)) and np.all(Z >= 0) and np.all(b[Z != 0] > 0)
        q = 'tau'
    elif name == 'nucleationRate':
        arrs = [_flat(a[k_]) for k_ in ('Z', 'beta', 'Gcrit', 'T', 'tau')]
        t = a.get('time', np.inf)
        pre = all(np.all(np.isfinite(v)) for v in arrs) and np.all(arrs[3] > 0) and np.all(arrs[4] >= 0) \
            and np.all(arrs[0] >= 0) and np.all(arrs[1] >= 0) and not np.any(np.isnan(_flat(t))) and np.all(_flat(t) >= 0)
        q = 'rate'
        if pre and np.any(arrs[2] < 0):
            # a negative barrier is itself a violation (reported once, where it is produced: barrier_nonneg); it is not
            # an admissible input of the rate, so the rate computed from it is not judged a second time
            R.observe('rate_calls_with_negative_barrier_not_judged')
            return
    elif name == '_calcNucleationSites':
        model, p = a['self'], a['p']
        v = float(out)
        R.check('sites_nonneg', math.isfinite(v) and v >= 0,
                {'site': model.precipitateParameters[p].nucleation.description.name, 'phases': len(model.phases),
                 'has_parents': bool(model.precipitateParameters[p].parentPhases), 'path': 'contract'}, sites=v)
        return
    else:
        return
    if not pre:
        R.observe('contract_precondition_skipped')
        return
    _bulk(R, 'quantity_nonneg_finite', _finite_nonneg(out), {'quantity': q, 'function': name, 'site': site},
          value=_flat(out))


def _wrap(name, fn):
    sig = inspect.signature(fn)

    def wrapped(*args, **kwargs):
        out = fn(*args, **kwargs)
        if _CTX.get('R') is not None:
            ba = sig.bind(*args, **kwargs)
            ba.apply_defaults()
            _contract(name, ba.arguments, out)
        return out
    wrapped.__name__ = fn.__name__
    wrapped.__wrapped__ = fn
    return wrapped


def worker_init():
    import kawin.precipitation.NucleationRate as nr
    for name in ('nucleationBarrier', 'zeldovich', 'betaBinary1', 'betaBinary2', 'betaMulti', 'incubationTime',
                 'nucleationRate'):
        if name not in _ORIG:
            _ORIG[name] = getattr(nr, name)
            setattr(nr, name, _wrap(name, _ORIG[name]))
    from kawin.precipitation import PrecipitateModel
    if '_calcNucleationSites' not in _ORIG:
        _ORIG['_calcNucleationSites'] = PrecipitateModel._calcNucleationSites
        PrecipitateModel._calcNucleationSites = _wrap('_calcNucleationSites', _ORIG['_calcNucleationSites'])


# ================================================================================================
# plan

def plan(tier, seed):
    q = tier == 'quick'
    cases = []
    ngrid, nchunk = (2000, 4) if q else (20000, 20)
    for s in BOUNDARY:
        for ch in range(nchunk):
            cases.append({'kind': 'factors_grid', 'site': s, 'ngrid': ngrid, 'chunk': ch, 'nchunk': nchunk, 'weight': 2})
    for s in SITES:
        for j in range(2 if q else 16):
            cases.append({'kind': 'factors_random', 'site': s, 'rep': j, 'n': 250, 'weight': 2})
    betas = ['binary1', 'binary2', 'multi']
    for j in range(45 if q else 600):
        cases.append({'kind': 'chain', 'site': SITES[j % 5], 'beta': betas[(j // 5) % 3], 'rep': j // 15, 'sets': 4 if q else 10,
                      'weight': 1})
    for j in range(12 if q else 120):
        cases.append({'kind': 'sites', 'rep': j, 'weight': 1})
    for j in range(12 if q else 120):
        cases.append({'kind': 'cache', 'flavour': ['bare', 'prec', 'model'][j % 3], 'rep': j // 3, 'ops': 60 if q else 150,
                      'weight': 1})
    for j in range(5 if q else 40):
        cases.append({'kind': 'thermo_binary', 'site': SITES[j % 5], 'rep': j // 5, 'points': 10 if q else 24, 'weight': 6})
    for j in range(5 if q else 40):
        cases.append({'kind': 'model_run', 'site': SITES[j % 5], 'rep': j // 5, 'steps': 40 if q else 80, 'weight': 5})
    for j in range(2 if q else 15):
        cases.append({'kind': 'thermo_multi', 'site': SITES[(2 * j) % 5], 'rep': j, 'points': 4 if q else 8, 'weight': 8})
    return cases


# ================================================================================================
# factor cases

def _factor_oracles(R, site, k, desc, with_geometry=True):
    """k: increasing array within [0, K_CUT * k_max] (boundary sites) or arbitrary non-negative (bulk sites)"""
    a = _flat(desc.areaFactor(k))
    b = _flat(desc.gbRemoval(k))
    c = _flat(desc.volumeFactor(k))
    ar = _flat(desc.areaRemoval(k))
    for nm, v in (('areaFactor', a), ('gbRemoval', b), ('volumeFactor', c), ('areaRemoval', ar)):
        _bulk(R, 'factor_nonneg', _finite_nonneg(v), {'site': site, 'factor': nm}, k=k, value=v)
    res = np.abs(a - 2 * k * b - 3 * c)
    R.worst('identity_abs_' + site, np.max(res))
    _bulk(R, 'factor_identity', res <= TOL_ID, {'site': site}, k=k, a=a, b=b, c=c, residual=res)
    if site in BOUNDARY:
        if with_geometry:
            ref = np.array([geom.reference_factors(site, ki) for ki in k])
            for j, (nm, v) in enumerate((('areaFactor', a), ('gbRemoval', b), ('volumeFactor', c))):
                scaled = np.abs(v - ref[:, j]) / (TOL_GEO_REL * np.abs(ref[:, j]) + TOL_GEO_ABS)
                R.worst('geometry_scaled_%s_%s' % (nm, site), np.max(scaled))
                _bulk(R, 'factor_geometry', scaled <= 1.0, {'site': site, 'factor': nm}, k=k, kawin=v, reference=ref[:, j])
    else:
        ok = (a == SPHERE_A) & (c == SPHERE_C) & (b == 0)
        _bulk(R, 'factor_k0', ok, {'site': site, 'which': 'all k'}, k=k, a=a, c=c, b=b)
    return a, b, c


def _case_factors_grid(case, R):
    site = case['site']
    desc = _description(site)
    kmax = float(desc.maxRatio)
    n = case['ngrid']
    kk = K_CUT * kmax * np.arange(n) / (n - 1)
    per = n // case['nchunk']
    lo = case['chunk'] * per
    hi = n if case['chunk'] == case['nchunk'] - 1 else lo + per + 1      # one point of overlap for the monotonicity chain
    k = kk[lo:hi]
    step = max(1, len(k) // 130)                                          # geometry reference on a sub-grid (1 ms per point)
    a, b, c = _factor_oracles(R, site, k, desc, with_geometry=False)
    ks = k[::step]
    _factor_oracles(R, site, ks, desc, with_geometry=True)
    dc = np.diff(c)
    R.worst('max_dc_' + site, np.max(dc))
    _bulk(R, 'factor_c_decreasing', dc < 0, {'site': site, 'mode': 'grid'}, k_left=k[:-1], k_right=k[1:], c_left=c[:-1], c_right=c[1:])
    if lo == 0:
        a0, c0 = float(desc.areaFactor(0.0)), float(desc.volumeFactor(0.0))
        R.worst('k0_rel_' + site, max(abs(a0 / SPHERE_A - 1), abs(c0 / SPHERE_C - 1)))
        R.check('factor_k0', abs(a0 / SPHERE_A - 1) <= TOL_K0, {'site': site, 'factor': 'areaFactor'}, got=a0, expected=SPHERE_A)
        R.check('factor_k0', abs(c0 / SPHERE_C - 1) <= TOL_K0, {'site': site, 'factor': 'volumeFactor'}, got=c0, expected=SPHERE_C)
        # the same through NucleationBarrierParameters with zero grain-boundary energy
        from kawin.precipitation.parameters.Nucleation import NucleationBarrierParameters
        nb = NucleationBarrierParameters(site=site, gamma=0.2, gbEnergy=0.0)
        R.check('factor_k0', abs(nb.areaFactor / SPHERE_A - 1) <= TOL_K0 and abs(nb.volumeFactor / SPHERE_C - 1) <= TOL_K0,
                {'site': site, 'factor': 'barrier parameters, gbEnergy=0'}, a=nb.areaFactor, c=nb.volumeFactor)
    # array call == scalar calls (same arithmetic)
    sub = k[:: max(1, len(k) // 40)]
    for nm in ('areaFactor', 'gbRemoval', 'volumeFactor', 'areaRemoval'):
        arr = _flat(getattr(desc, nm)(sub))
        sca = np.array([float(getattr(desc, nm)(float(ki))) for ki in sub])
        _bulk(R, 'array_scalar', np.abs(arr - sca) <= TOL_ARR * np.abs(sca), {'function': 'description.' + nm, 'site': site},
              k=sub, array=arr, scalar=sca)
    R.set_nontrivial(bool(np.any(k > 0.05)))
    R.info.update({'k_lo': float(k[0]), 'k_hi': float(k[-1]), 'points': int(len(k))})


def _case_factors_random(case, R):
    rng = core.case_rng(case['seed'], PROPERTY, case['idx'])
    site = case['site']
    desc = _description(site)
    n = case['n']
    if site in BOUNDARY:
        kmax = float(desc.maxRatio)
        # half uniform, half concentrated towards the limit (1 - k/kmax log-uniform 1e-3..1)
        eps = np.concatenate([rng.uniform(0, 1, n // 2), 10 ** rng.uniform(-3, 0, n - n // 2)])
        k = np.sort(np.clip(1 - eps, 0, K_CUT) * kmax)
        k = k[np.concatenate([[True], np.diff(k) > 1e-9 * kmax])]
        a, b, c = _factor_oracles(R, site, k, desc, with_geometry=True)
        # random pairs k1 < k2 (not only neighbours)
        i = rng.integers(0, len(k), 400)
        j = rng.integers(0, len(k), 400)
        i, j = np.minimum(i, j), np.maximum(i, j)
        sel = (k[j] - k[i]) >= 1e-4 * kmax          # the difference of c must stay far above its rounding error (<= 1e-12 at the cut)
        i, j = i[sel], j[sel]
        _bulk(R, 'factor_c_decreasing', c[j] < c[i], {'site': site, 'mode': 'random pairs'}, k_left=k[i], k_right=k[j], c_left=c[i], c_right=c[j])
        # beyond the cut: observed only
        kn = kmax * (1 - 10 ** rng.uniform(-15, -3, 200))
        kn = kn[kn < kmax]
        vals = np.concatenate([_flat(desc.areaFactor(kn)), _flat(desc.volumeFactor(kn)), _flat(desc.gbRemoval(kn))])
        R.observe('near_limit_evaluated', int(vals.size))
        R.observe('near_limit_negative', int(np.sum(vals < 0)))
        R.observe('near_limit_nan', int(np.sum(np.isnan(vals))))
        R.set_nontrivial(bool(np.any(k > 0.05)))
    else:
        k = np.sort(rng.uniform(0, 3, n))
        _factor_oracles(R, site, k, desc)
        R.set_nontrivial(True)
    # NucleationBarrierParameters must report exactly the description's values for its own ratio
    from kawin.precipitation.parameters.Nucleation import NucleationBarrierParameters
    for _ in range(20):
        gamma = float(10 ** rng.uniform(-1.7, 0))
        kk = float(rng.uniform(0, K_CUT) * (desc.maxRatio if site in BOUNDARY else 1.0))
        nb = NucleationBarrierParameters(site=site, gamma=gamma, gbEnergy=2 * gamma * kk)
        kr = nb.GBk
        same = (nb.areaFactor == float(desc.areaFactor(kr)) and nb.volumeFactor == float(desc.volumeFactor(kr))
                and nb.gbRemoval == float(desc.gbRemoval(kr)) and nb.areaRemoval == float(desc.areaRemoval(kr)))
        R.check('cache_fresh', same, {'flavour': 'bare', 'observable': 'factors vs description', 'last_op': 'constructor'},
                site=site, gamma=gamma, gbk=kr)


# ================================================================================================
# chain cases: barrier -> Z -> beta -> tau -> rate on random parameter sets, algebraic backend

def _draw_set(rng, site):
    gamma = float(10 ** rng.uniform(-1.7, 0.0))           # 0.02 .. 1 J/m2
    if site in BOUNDARY:
        kmax = geom.KMAX[site]
        u = rng.uniform()
        gbk = 0.0 if u < 0.05 else float(rng.uniform(0.05, K_CHAIN) * kmax) if u < 0.9 else float(rng.uniform(0, 0.05) * kmax)
    else:
        gbk = float(rng.uniform(0, 2.0))                    # irrelevant for bulk/dislocations, any value is admissible
    shape = 'sphere'
    ar = 1.0
    if site not in BOUNDARY and rng.uniform() < 0.3:
        shape = ['needle', 'plate'][int(rng.integers(0, 2))]
        ar = float(rng.uniform(1.2, 6.0))
    return {'gamma': gamma, 'gbk': gbk, 'VmB': float(10 ** rng.uniform(-5.3, -4.7)), 'VmA': float(10 ** rng.uniform(-5.3, -4.7)),
            'Rmin': float(10 ** rng.uniform(-10, -9)), 'T': float(rng.uniform(300, 1500)), 'shape': shape, 'ar': ar,
            'theta': float([2.0, 4 * math.pi, rng.uniform(0.5, 15)][int(rng.integers(0, 3))]),
            'x': float(10 ** rng.uniform(-5, -0.6)), 'x2': float(10 ** rng.uniform(-4, -1))}


def _backend(rng, kind):
    return AlgebraicBackend(2 if kind != 'multi' else 3,
                            D0=10 ** rng.uniform(-7, -3, 2), Q=rng.uniform(0.8e5, 2.8e5, 2),
                            xa=float(10 ** rng.uniform(-5, -2)), xb=float(rng.uniform(0.2, 0.5)),
                            imp=float(10 ** rng.uniform(-22, -14)))


def _beta_call(kind, therm, x, T, Rc, mat, prec):
    import kawin.precipitation.NucleationRate as nr
    if kind == 'binary1':
        return nr.betaBinary1(therm, x, T, Rc, mat, prec)
    if kind == 'binary2':
        return nr.betaBinary2(therm, x, T, Rc, mat, prec)
    return nr.betaMulti(therm, x, T, Rc, mat, prec)


def _chain(kind, therm, prec, mat, x, T, DF, ar, time=np.inf):
    import kawin.precipitation.NucleationRate as nr
    Rc, Gc = nr.nucleationBarrier(DF, prec, ar)
    Z = nr.zeldovich(T, Rc, prec)
    beta = _beta_call(kind, therm, x, T, Rc, mat, prec)
    tau = nr.incubationTime(beta, Z, mat)
    rate = nr.nucleationRate(Z, beta, Gc, T, tau, time)
    return [_flat(v) for v in (Rc, Gc, Z, beta, tau, rate)]


def _relational_oracles(R, site, prec, mat, DFpos, Rc, Gc, rate_ss, ar, mech_extra):
    """DFpos ascending positive driving forces at fixed T, x"""
    gamma = prec.gamma
    sphere = prec.shapeFactor.description.__class__.__name__ == 'SphereDescription'
    unclamped = (2 * gamma / DFpos) > prec.Rmin * (1 + 1e-9)
    if sphere and unclamped.any():
        k = prec.nucleation.GBk if site in BOUNDARY else 0.0
        c = float(_description(site).volumeFactor(k))
        r_dev = np.abs(Rc[unclamped] * DFpos[unclamped] / (2 * gamma) - 1)
        g_ref = 16 * math.pi * gamma ** 3 / (3 * DFpos[unclamped] ** 2) * c / SPHERE_C
        g_dev = np.abs(Gc[unclamped] / g_ref - 1)
        R.worst('rcrit_sphere_rel', np.max(r_dev))
        R.worst('barrier_ratio_rel', np.max(g_dev))
        m = dict(mech_extra, site=site)
        _bulk(R, 'rcrit_sphere', r_dev <= TOL_SPHERE, m, DF=DFpos[unclamped], Rcrit=Rc[unclamped], sphere=2 * gamma / DFpos[unclamped], gbk=k)
        _bulk(R, 'barrier_sphere_ratio', g_dev <= TOL_SPHERE, m, DF=DFpos[unclamped], Gcrit=Gc[unclamped], expected=g_ref, gbk=k, c=c)
    if len(DFpos) > 1:
        lo, hi = rate_ss[:-1], rate_ss[1:]
        ok = hi >= lo * (1 - TOL_MONO) - TINY
        with np.errstate(all='ignore'):
            drop = np.where(lo > TINY, 1 - hi / lo, 0.0)
        R.worst('rate_drop_rel', np.max(drop))
        _bulk(R, 'rate_monotone_df', ok, dict(mech_extra, site=site), DF_low=DFpos[:-1], DF_high=DFpos[1:], rate_low=lo, rate_high=hi)
        R.observe('rate_pairs_positive', int(np.sum(lo > 0)))


def _case_chain(case, R):
    import kawin.precipitation.NucleationRate as nr
    rng = core.case_rng(case['seed'], PROPERTY, case['idx'])
    site, kind = case['site'], case['beta']
    _CTX['site'] = site
    npos_total = 0
    bigk = False
    for s in range(case['sets']):
        P = _draw_set(rng, site)
        prec, mat = _make_params(site, P['gamma'], P['gbk'], P['VmB'], P['VmA'], P['Rmin'], P['shape'], P['theta'])
        therm = _backend(rng, kind)
        ar = P['ar']
        dfmax = 10 * P['gamma'] / P['Rmin']
        # positive driving forces: log-uniform, a cluster around the clamp threshold 2 gamma / Rmin, up to 10 gamma / Rmin
        thr = 2 * P['gamma'] / P['Rmin']
        DFp = np.concatenate([10 ** rng.uniform(3, math.log10(dfmax), 28), thr * rng.uniform(0.5, 5.0, 14),
                              thr * (1 + rng.uniform(-1e-6, 1e-6, 4)), [dfmax, thr]])
        DFp = np.unique(DFp[DFp > 0])
        DFn = np.array([0.0, -0.0, -1.0, -float(10 ** rng.uniform(3, 9)), -dfmax])
        n = len(DFp)
        T = np.full(n, P['T'])
        x = np.full(n, P['x']) if kind != 'multi' else np.tile([P['x'], P['x2']], (n, 1))
        # --- steady state chain on the ascending positive driving forces
        Rc, Gc, Z, beta, tau, rate = _chain(kind, therm, prec, mat, x, T, DFp, ar)
        npos_total += n
        mech_extra = {'beta': kind, 'backend': 'algebraic'}
        valid = np.isfinite(Gc) & (Gc >= 0)          # elements with an invalid barrier are reported by barrier_nonneg only
        R.observe('elements_with_invalid_barrier_excluded_downstream', int((~valid).sum()))
        _relational_oracles(R, site, prec, mat, DFp[valid], Rc[valid], Gc[valid], rate[valid], ar, mech_extra)
        # --- incubation factor: rate(t) for increasing t (t = 0 included) against the steady-state rate
        tgrid = np.concatenate([[0.0], np.median(tau[tau > 0]) * 10 ** np.linspace(-4, 4, 9)]) if np.any(tau > 0) else np.array([0.0, 1.0])
        prev = np.zeros(n)
        tprev = 0.0
        for it, t in enumerate(tgrid):
            rt = _flat(nr.nucleationRate(Z, beta, Gc, T, tau, time=float(t)))
            ok = (rt >= 0) & (rt <= rate * (1 + 1e-12)) & (rt >= prev * (1 - 1e-12))
            # "rises": strictly, wherever double precision resolves it (both times within [tau/100, 100 tau], rate not near underflow)
            with np.errstate(all='ignore'):
                res = valid & (tau > 0) & (tprev >= 0.01 * tau) & (t <= 100 * tau) & (rate > 1e-200)
            if it > 0 and res.any():
                _bulk(R, 'incubation_factor', rt[res] > prev[res], {'site': site, 'strict_rise': True}, time=float(t), previous_time=float(tprev),
                      rate_t=rt[res], rate_previous_t=prev[res], rate_steady=rate[res], tau=tau[res])
                R.observe('incubation_strict_pairs', int(res.sum()))
            tprev = float(t)
            with np.errstate(all='ignore'):
                fac = np.where(valid & (rate > TINY), rt / rate, 0.0)
            R.worst('incubation_factor_max', np.nanmax(fac))
            _bulk(R, 'incubation_factor', ok[valid], {'site': site, 'first_time': it == 0}, time=float(t), rate_t=rt[valid],
                  rate_previous_t=prev[valid], rate_steady=rate[valid], tau=tau[valid])
            prev = rt
        R.observe('incubation_cases_with_positive_rate', int(np.sum(valid & (rate > TINY))))
        # --- non-positive driving forces: the rate is exactly zero (mixed array and scalar calls)
        DFm = np.concatenate([DFn, DFp[:3]])
        rng.shuffle(DFm)
        Tm = np.full(len(DFm), P['T'])
        xm = np.full(len(DFm), P['x']) if kind != 'multi' else np.tile([P['x'], P['x2']], (len(DFm), 1))
        for tm in (np.inf, float(10 ** rng.uniform(-3, 6))):
            outm = _chain(kind, therm, prec, mat, xm, Tm, DFm, ar, time=tm)
            nonpos = DFm <= 0
            _bulk(R, 'zero_rate_nonpositive_df', outm[5][nonpos] == 0, {'site': site, 'call': 'array', 'beta': kind},
                  DF=DFm[nonpos], rate=outm[5][nonpos], Rcrit=outm[0][nonpos], Gcrit=outm[1][nonpos])
        for d in DFn:
            outs = _chain(kind, therm, prec, mat, xm[0], float(P['T']), float(d), ar, time=np.inf)
            R.check('zero_rate_nonpositive_df', bool(outs[5][0] == 0), {'site': site, 'call': 'scalar', 'beta': kind},
                    DF=float(d), rate=outs[5][0], Rcrit=outs[0][0], Gcrit=outs[1][0])
        # --- array == scalar, function by function: every element has its own DF, T, x (inputs of each scalar call are
        #     taken from the array results, so each function is compared on its own)
        m = 10
        DFa = np.concatenate([rng.choice(DFp, size=m - 2, replace=False), [0.0, -float(10 ** rng.uniform(3, 9))]])
        rng.shuffle(DFa)
        Ta = rng.uniform(300, 1500, m)
        xa = 10 ** rng.uniform(-5, -0.6, m) if kind != 'multi' else np.column_stack([10 ** rng.uniform(-5, -0.6, m), 10 ** rng.uniform(-4, -1, m)])
        aRc, aGc, aZ, abeta, atau, _ = _chain(kind, therm, prec, mat, xa, Ta, DFa, ar)
        tt = float(np.median(atau[atau > 0])) if np.any(atau > 0) else 1.0
        arate = _flat(nr.nucleationRate(aZ, abeta, aGc, Ta, atau, time=tt))
        aRnuc = _flat(nr.nucleationRadius(Ta, aRc, prec))
        for i in range(m):
            xi = xa[i] if kind == 'multi' else float(xa[i])
            r1, g1 = nr.nucleationBarrier(float(DFa[i]), prec, ar)
            pairs = [('nucleationBarrier.Rcrit', float(r1), aRc[i]), ('nucleationBarrier.Gcrit', float(g1), aGc[i]),
                     ('zeldovich', float(nr.zeldovich(float(Ta[i]), float(aRc[i]), prec)), aZ[i]),
                     ('beta_' + kind, float(_beta_call(kind, therm, xi, float(Ta[i]), float(aRc[i]), mat, prec)), abeta[i]),
                     ('incubationTime', float(nr.incubationTime(float(abeta[i]), float(aZ[i]), mat)), atau[i]),
                     ('nucleationRate', float(nr.nucleationRate(float(aZ[i]), float(abeta[i]), float(aGc[i]), float(Ta[i]), float(atau[i]), time=tt)), arate[i]),
                     ('nucleationRadius', float(nr.nucleationRadius(float(Ta[i]), float(aRc[i]), prec)), aRnuc[i])]
            for nm, sc, arv in pairs:
                if sc == arv:
                    dev = 0.0
                elif math.isfinite(sc) and math.isfinite(arv):
                    dev = abs(sc - arv) / max(abs(arv), abs(sc), TINY)
                else:
                    dev = float('inf')
                R.worst('array_scalar_rel', dev if math.isfinite(dev) else 1e300)
                R.check('array_scalar', dev <= TOL_ARR, {'function': nm, 'site': site}, scalar=sc, array=arv, DF=DFa[i], T=Ta[i])
        if site in BOUNDARY and P['gbk'] > 0.05:
            bigk = True
    R.observe('positive_driving_forces', npos_total)
    R.set_nontrivial(npos_total > 0 and (bigk or site not in BOUNDARY))
    _CTX['site'] = None


# ================================================================================================
# real thermodynamics

_THERM = {}


def _binary_therm():
    if 'b' not in _THERM:
        from kawin.tests.datasets import ALZR_TDB
        from kawin.thermo import BinaryThermodynamics
        _THERM['b'] = BinaryThermodynamics(ALZR_TDB, ['AL', 'ZR'], ['FCC_A1', 'AL3ZR'], drivingForceMethod='tangent')
    return _THERM['b']


def _multi_therm():
    if 'm' not in _THERM:
        from kawin.tests.datasets import NICRAL_TDB
        from kawin.thermo import MulticomponentThermodynamics
        _THERM['m'] = MulticomponentThermodynamics(NICRAL_TDB, ['NI', 'AL', 'CR'], ['FCC_A1', 'FCC_L12'], drivingForceMethod='tangent')
    return _THERM['m']


def _in_scope(exc):
    """an exception is a C14 observation only if it was raised by the nucleation code itself, not by the thermodynamic backend"""
    fr = core.kawin_frame(exc.__traceback__)
    return fr is not None and fr[0] in ('precipitation/NucleationRate.py', 'precipitation/parameters/Nucleation.py')


def _case_thermo(case, R, multi):
    import kawin.precipitation.NucleationRate as nr
    from kawin.precipitation import VolumeParameter
    rng = core.case_rng(case['seed'], PROPERTY, case['idx'])
    site = case['site']
    _CTX['site'] = site
    therm = _multi_therm() if multi else _binary_therm()
    n = case['points']
    gamma = float(rng.uniform(0.015, 0.04)) if multi else float(rng.uniform(0.05, 0.25))
    gbk = float(rng.uniform(0.05, K_CHAIN) * geom.KMAX[site]) if site in BOUNDARY else 0.3
    a_lat = 0.352e-9 if multi else 0.405e-9
    prec, mat = _make_params(site, gamma, gbk, 1e-5, 1e-5, float(10 ** rng.uniform(-10, -9.3)), 'sphere', 2.0)
    prec.phase = 'FCC_L12' if multi else 'AL3ZR'
    prec.volume.setVolume(a_lat ** 3, VolumeParameter.ATOMIC_VOLUME, 4)
    mat.volume.setVolume(a_lat ** 3, VolumeParameter.ATOMIC_VOLUME, 4)
    if multi:
        x = np.column_stack([rng.uniform(0.09, 0.125, n), rng.uniform(0.04, 0.09, n)])
        T = rng.uniform(950, 1100, n)
    else:
        x = 10 ** rng.uniform(-3.3, -2.0, n)
        T = rng.uniform(550, 900, n)
    try:
        chem, DF, _ = nr.volumetricDrivingForce(therm, x, T, prec)
    except Exception as e:        # backend failure: outside the statement (C09/C12 own the thermodynamic queries)
        R.observe('backend_rejected')
        R.info['backend_error'] = '%s: %s' % (type(e).__name__, str(e)[:200])
        return
    DF = _flat(DF)
    good = np.isfinite(DF) & (DF > 0)
    R.observe('backend_points', int(n))
    R.observe('backend_points_positive_df', int(good.sum()))
    if not good.any():
        R.set_nontrivial(False)
        return
    kinds = ['multi'] if multi else ['binary1', 'binary2']
    # full public pipeline (contracts judge every internal call)
    try:
        data = nr.computeSteadyStateNucleation(therm, x[good], T[good], prec, mat)
        R.observe('pipeline_calls')
        R.info['pipeline_rate_range'] = [float(np.min(data.nucleation_rate)), float(np.max(data.nucleation_rate))]
    except Exception as e:
        if _in_scope(e):
            R.exception('quantity_nonneg_finite', e, {'quantity': 'pipeline', 'function': 'computeSteadyStateNucleation', 'site': site})
        else:
            R.observe('backend_rejected')
    if not multi:
        try:
            nr.computeSteadyStateNucleation(therm, x[good], T[good], prec, mat, betaFunc=nr.betaBinary1)
            R.observe('pipeline_beta1_ok')
        except TypeError:
            R.observe('pipeline_beta1_typeerror')       # (N,1)-shaped x handed to betaBinary1: not judged, see docstring
    # per point: real impingement at fixed (x, T), driving force swept around the real one
    mult = np.sort(np.concatenate([[1.0], 10 ** rng.uniform(-1.5, 1.5, 10)]))
    for i in np.where(good)[0][: (4 if multi else n)]:
        DFs = DF[i] * mult
        m = len(DFs)
        Ti = np.full(m, T[i])
        xi = np.tile(x[i], (m, 1)) if multi else np.full(m, x[i])
        for kind in kinds:
            try:
                Rc, Gc, Z, beta, tau, rate = _chain(kind, therm, prec, mat, xi, Ti, DFs, 1.0)
            except Exception as e:
                if _in_scope(e):
                    R.exception('quantity_nonneg_finite', e, {'quantity': 'beta', 'function': 'beta_' + kind, 'site': site, 'backend': 'real'})
                else:
                    R.observe('backend_rejected')
                continue
            valid = np.isfinite(Gc) & (Gc >= 0)
            R.observe('elements_with_invalid_barrier_excluded_downstream', int((~valid).sum()))
            _relational_oracles(R, site, prec, mat, DFs[valid], Rc[valid], Gc[valid], rate[valid], 1.0, {'beta': kind, 'backend': 'real'})
            t = float(np.median(tau[tau > 0])) if np.any(tau > 0) else 1.0
            r1 = _flat(nr.nucleationRate(Z, beta, Gc, Ti, tau, time=0.3 * t))
            r2 = _flat(nr.nucleationRate(Z, beta, Gc, Ti, tau, time=3.0 * t))
            ok = (r1 >= 0) & (r1 <= r2 * (1 + 1e-12)) & (r2 <= rate * (1 + 1e-12))
            _bulk(R, 'incubation_factor', ok[valid], {'site': site, 'first_time': False},
                  rate_t=r1[valid], rate_later=r2[valid], rate_steady=rate[valid], tau=tau[valid])
    R.set_nontrivial(True)
    _CTX['site'] = None


class _StepCap:
    """coupling-model seam: ends a run after a fixed number of accepted steps (logical cap, no wall clock)"""

    def __init__(self, n):
        self.n, self.count = n, 0

    def updateCoupledModel(self, model):
        self.count += 1
        if self.count >= self.n:
            raise core.StopRun()


def _case_model_run(case, R):
    """A short Al-Zr precipitation run of the real PrecipitateModel; the contracts judge every nucleation call the
    model makes (KWNBase._calcNucleationRate -> nucleationBarrier, zeldovich, beta, incubationTime, nucleationRate,
    _calcNucleationSites).  High supersaturation / low temperature so that the minimum-radius clamp is reached."""
    from kawin.precipitation import PrecipitateModel, VolumeParameter
    rng = core.case_rng(case['seed'], PROPERTY, case['idx'])
    site = case['site']
    _CTX['site'] = site
    gamma = float(rng.uniform(0.04, 0.15))
    gbE = float(2 * gamma * rng.uniform(0.05, K_CHAIN) * geom.KMAX.get(site, 1.0))
    x0 = float(10 ** rng.uniform(-2.7, -2.0))
    T = float(rng.uniform(600, 750))
    m = PrecipitateModel(phases=['AL3ZR'], elements=['ZR'])
    m.setPBMParameters(cMin=1e-10, cMax=1e-8, bins=50, minBins=30, maxBins=80)
    m.setInitialComposition(x0)
    m.setTemperature(T)
    m.setInterfacialEnergy(gamma)
    m.setVolumeAlpha(0.405e-9 ** 3, VolumeParameter.ATOMIC_VOLUME, 4)
    m.setVolumeBeta(0.405e-9 ** 3, VolumeParameter.ATOMIC_VOLUME, 4)
    m.setNucleationDensity(grainSize=float(10 ** rng.uniform(-1, 2)), dislocationDensity=float(10 ** rng.uniform(12, 15)))
    m.setNucleationSite(site)
    m.setGrainBoundaryEnergy(gbE)
    m.setBetaBinary(int(rng.integers(1, 3)))
    m.setThermodynamics(_binary_therm())
    cap = _StepCap(case['steps'])
    m.addCouplingModel(cap)
    before = dict(R.monitors)
    try:
        m.solve(float(10 ** rng.uniform(2, 5)), verbose=False)
    except core.StopRun:
        pass
    except Exception as e:       # a failing run is C03's subject, not a C14 verdict; what was observed before it still counts
        R.observe('model_run_aborted')
        R.info['model_run_error'] = '%s: %s' % (type(e).__name__, str(e)[:200])
    n = m.pData.n
    R.observe('model_steps', int(cap.count))
    R.info.update({'steps': int(cap.count), 'gamma': gamma, 'gbk': gbE / (2 * gamma), 'x0': x0, 'T': T,
                   'driving_force_first': float(m.pData.drivingForce[0, 0]), 'Rcrit_first': float(m.pData.Rcrit[0, 0]),
                   'Gcrit_min': float(np.min(m.pData.Gcrit[:n + 1, 0])), 'nucRate_max': float(np.max(m.pData.nucRate[:n + 1, 0]))})
    judged = R.monitors.get('barrier_nonneg', 0) - before.get('barrier_nonneg', 0)
    R.set_nontrivial(judged > 0 and (site not in BOUNDARY or gbE / (2 * gamma) > 0.05))
    _CTX['site'] = None


# ================================================================================================
# available nucleation sites

def _build_model(phases, sites, gammas, VmBs, VmA, gbE, grain, gar, disl, bulkN0, x0, pbm, parents):
    from kawin.precipitation import PrecipitateModel, VolumeParameter
    from kawin.precipitation.KWNBase import PrecipitateBase
    m = PrecipitateModel(phases=phases, elements=['X'])
    m.setPBMParameters(cMin=pbm[0], cMax=pbm[1], bins=pbm[2], minBins=pbm[3], maxBins=pbm[4])
    m.setVolumeAlpha(VmA, VolumeParameter.MOLAR_VOLUME, 4)
    m.setInitialComposition(x0)
    m.setTemperature(700.0)
    for ph, s, g, vb in zip(phases, sites, gammas, VmBs):
        m.setInterfacialEnergy(g, ph)
        m.setVolumeBeta(vb, VolumeParameter.MOLAR_VOLUME, 4, ph)
        m.setNucleationSite(s, ph)
    for p, par in enumerate(parents):
        if par:
            m.setParentPhases(phases[p], [phases[q] for q in par])
    m.setGrainBoundaryEnergy(gbE)
    m.setNucleationDensity(grainSize=grain, aspectRatio=gar, dislocationDensity=disl, bulkN0=bulkN0)
    PrecipitateBase.setup(m)        # the part of setup() that propagates the grain-boundary energy (no thermodynamics needed)
    return m


def _case_sites(case, R):
    rng = core.case_rng(case['seed'], PROPERTY, case['idx'])
    nph = int(rng.integers(1, 4))
    phases = ['P%d' % i for i in range(nph)]
    # at least two phases share a site type in multi-phase models (so that "other phases occupy my sites" is exercised)
    sites = [SITES[int(rng.integers(0, 5))] for _ in range(nph)]
    if nph > 1 and rng.uniform() < 0.6:
        sites[1] = sites[0]
    gammas = [float(rng.uniform(0.1, 0.6)) for _ in range(nph)]
    gbE = float(rng.uniform(0.0, 1.6) * min(g * geom.KMAX.get(s, 1.0) for g, s in zip(gammas, sites)) * K_CHAIN)
    parents = [[] for _ in range(nph)]
    for p in range(nph):
        if nph > 1 and rng.uniform() < 0.3:
            parents[p] = [int(q) for q in range(nph) if q != p and rng.uniform() < 0.6]
    bulkN0 = None if rng.uniform() < 0.5 else float(10 ** rng.uniform(22, 29))
    pbm = (1e-10, float(10 ** rng.uniform(-8.5, -7)), int(rng.integers(20, 120)), 10, 200)
    m = _build_model(phases, sites, gammas, [float(10 ** rng.uniform(-5.2, -4.8)) for _ in range(nph)], float(10 ** rng.uniform(-5.2, -4.8)),
                     gbE, float(10 ** rng.uniform(-1, 3)), float(rng.uniform(1, 3)), float(10 ** rng.uniform(10, 16)), bulkN0,
                     float(10 ** rng.uniform(-4, -1.3)), pbm, parents)
    base = []
    for p in range(nph):
        r = m.PBM[p].PSDsize
        r0 = float(10 ** rng.uniform(np.log10(r[2]), np.log10(r[-3])))
        sg = float(rng.uniform(0.1, 0.6))
        n = np.exp(-np.log(r / r0) ** 2 / (2 * sg ** 2))
        n = n / n.sum() * 10 ** rng.uniform(8, 20)
        n[rng.uniform(size=n.size) < 0.1] = 0.0
        base.append(n)
    shrunk = False
    ns = m.matrixParameters.nucleationSites
    for p in range(nph):
        occupiers = [q for q in range(nph) if sites[q] == sites[p] and q not in parents[p]]
        mech = {'site': sites[p], 'phases': nph, 'has_parents': bool(parents[p])}
        try:
            S0 = float(m._calcNucleationSites(0.0, [np.zeros_like(b) for b in base], p))
        except Exception as e:
            R.exception('sites_nonneg', e, mech)
            continue
        if sites[p] == 'DISLOCATIONS' and not parents[p]:
            R.observe('dislocation_sites_equal_bulkN0', int(S0 == ns.bulkN0 and S0 != ns.dislocationN0))
            R.observe('dislocation_sites_equal_dislocationN0', int(S0 == ns.dislocationN0))
        scale = max(S0, 1.0)
        prev = None
        seq = []
        for s in np.concatenate([[0.0], 10 ** np.arange(0, 22, 1.0)]):
            xs = [b * s if q in occupiers else b for q, b in enumerate(base)]
            S = float(m._calcNucleationSites(0.0, xs, p))
            seq.append(S)
            R.check('sites_nonneg', math.isfinite(S) and S >= 0, mech, sites=S, scale=float(s))
            if prev is not None:
                R.check('sites_nonincreasing', S <= prev + 1e-12 * scale, dict(mech, mode='scaled'), sites=S, previous=prev, scale=float(s))
                if S < prev:
                    shrunk = True
            prev = S
        # "decreases as precipitates occupy sites": an overwhelming population of the phases that use this site type
        # (scale 1e21) must leave strictly fewer sites than the empty state (added after seeded change C14-b, where
        # the occupation of one site type was never counted: constant, hence 'non-increasing', but not decreasing)
        if S0 > 0 and any(float(np.sum(base[q])) > 0 for q in occupiers):
            R.check('sites_decrease', seq[-1] < S0, dict(mech, mode='saturated'), empty=S0, saturated=seq[-1])
        # additional particles in single classes
        s_mid = 10 ** float(rng.uniform(0, 8))
        xs = [b * s_mid if q in occupiers else b.copy() for q, b in enumerate(base)]
        Sa = float(m._calcNucleationSites(0.0, xs, p))
        for _ in range(6):
            q = int(occupiers[int(rng.integers(0, len(occupiers)))])
            j = int(rng.integers(0, len(xs[q])))
            xs[q] = xs[q].copy()
            xs[q][j] += 10 ** rng.uniform(6, 26)
            Sb = float(m._calcNucleationSites(0.0, xs, p))
            R.check('sites_nonneg', math.isfinite(Sb) and Sb >= 0, mech, sites=Sb)
            R.check('sites_nonincreasing', Sb <= Sa + 1e-12 * scale, dict(mech, mode='added particles'), sites=Sb, previous=Sa, phase=q, size_class=j)
            if Sb < Sa:
                shrunk = True
            Sa = Sb
        R.info['sites_sequence_phase%d' % p] = [seq[0], seq[6], seq[12], seq[-1]]
    R.info.update({'site_types': sites, 'parents': parents})
    R.set_nontrivial(shrunk)


# ================================================================================================
# cached factors follow every change

_OBS = ('GBk', 'areaFactor', 'volumeFactor', 'gbRemoval', 'areaRemoval', 'Rcrit', 'Gcrit')


def _observe_barrier(nb):
    out = {}
    for nm in _OBS:
        try:
            if nm == 'Rcrit':
                v = nb.Rcrit(3.0e8)
            elif nm == 'Gcrit':
                v = nb.Gcrit(3.0e8, 1.3e-9)
            else:
                v = getattr(nb, nm)
            out[nm] = ('value', float(v))
        except ValueError:
            out[nm] = ('ValueError', None)
    return out


def _same(u, v):
    if u[0] != v[0]:
        return False
    if u[0] == 'value':
        return u[1] == v[1] or (u[1] != u[1] and v[1] != v[1])
    return True


def _case_cache(case, R):
    from kawin.precipitation import PrecipitateParameters
    from kawin.precipitation.parameters.Nucleation import NucleationBarrierParameters
    import kawin.precipitation.NucleationRate as nr
    rng = core.case_rng(case['seed'], PROPERTY, case['idx'])
    flavour = case['flavour']
    bigk = False

    def draw_gamma():
        return float(rng.uniform(0.08, 0.8))

    def draw_gb(gamma, site):
        u = rng.uniform()
        if u < 0.1:
            return 0.0
        kmax = geom.KMAX.get(site, 1.0)
        if u < 0.85:
            return float(2 * gamma * kmax * rng.uniform(0.02, 0.97))
        return float(2 * gamma * kmax * rng.uniform(1.02, 1.6))          # inadmissible for boundary sites: both objects must refuse

    state = {'site': SITES[int(rng.integers(0, 5))], 'gamma': draw_gamma()}
    state['gb'] = draw_gb(state['gamma'], state['site'])

    if flavour == 'bare':
        obj = NucleationBarrierParameters(site=state['site'], gamma=state['gamma'], gbEnergy=state['gb'])
        target = lambda: obj
        fresh = lambda: NucleationBarrierParameters(site=state['site'], gamma=state['gamma'], gbEnergy=state['gb'])
    elif flavour == 'prec':
        prec = PrecipitateParameters('BETA')
        prec.volume.setVolume(1e-5, 'VM', 4)
        prec.gamma = state['gamma']
        prec.nucleation.gbEnergy = state['gb']
        prec.nucleation.setNucleationType(state['site'])
        target = lambda: prec.nucleation

        def fresh_prec():
            p2 = PrecipitateParameters('BETA')
            p2.volume.setVolume(1e-5, 'VM', 4)
            p2.nucleation.setNucleationType(state['site'])
            p2.nucleation.gbEnergy = state['gb']
            p2.gamma = state['gamma']
            return p2
        fresh = lambda: fresh_prec().nucleation
    else:
        phases = ['P0', 'P1']
        mstate = {'sites': [state['site'], SITES[int(rng.integers(0, 5))]], 'gammas': [state['gamma'], draw_gamma()], 'gb': state['gb']}
        fixed = dict(VmBs=[1.0e-5, 1.1e-5], VmA=1.0e-5, grain=float(10 ** rng.uniform(0, 2)), gar=1.0, disl=1e14, bulkN0=1e27, x0=1e-2,
                     pbm=(1e-10, 1e-8, 30, 10, 100), parents=[[], []])
        model = _build_model(phases, mstate['sites'], mstate['gammas'], gbE=mstate['gb'], **fixed)
        r = model.PBM[0].PSDsize
        pop = [np.exp(-np.log(r / 2e-9) ** 2 / 0.2) * 1e14, np.exp(-np.log(r / 4e-9) ** 2 / 0.3) * 3e13]

    nops = case['ops']
    for step in range(nops):
        # read a random subset first so that the cache is partially / fully populated before the change
        u = rng.uniform()
        if flavour != 'model':
            nb = target()
            for nm in _OBS[:5]:
                if rng.uniform() < 0.6:
                    try:
                        getattr(nb, nm)
                    except ValueError:
                        pass
            if u < 0.4:
                op = 'gamma'
                state['gamma'] = draw_gamma()
                if flavour == 'bare':
                    nb.gamma = state['gamma']
                else:
                    prec.gamma = state['gamma']
            elif u < 0.7:
                op = 'gbEnergy'
                state['gb'] = draw_gb(state['gamma'], state['site'])
                nb.gbEnergy = state['gb']
            elif u < 0.9:
                op = 'setNucleationType'
                state['site'] = SITES[int(rng.integers(0, 5))]
                nb.setNucleationType(state['site'] if rng.uniform() < 0.5 else state['site'].lower())
            else:
                op = 'description'
                state['site'] = SITES[int(rng.integers(0, 5))]
                nb.description = _description(state['site'])
            got, want = _observe_barrier(target()), _observe_barrier(fresh())
            for nm in _OBS:
                R.check('cache_fresh', _same(got[nm], want[nm]), {'flavour': flavour, 'observable': nm, 'last_op': op},
                        got=got[nm], fresh=want[nm], state=dict(state), step=step)
            if want['areaFactor'][0] == 'ValueError':
                R.observe('inadmissible_ratio_states')
            elif state['site'] in BOUNDARY and state['gb'] / (2 * state['gamma']) > 0.05:
                bigk = True
            if flavour == 'prec' and want['areaFactor'][0] == 'value':
                # the NucleationRate functions see the change as well
                DF = np.array([1e7, 3e8, 5e9])
                f2 = fresh_prec()
                a1, a2 = nr.nucleationBarrier(DF, prec), nr.nucleationBarrier(DF, f2)
                z1, z2 = nr.zeldovich(np.full(3, 650.0), a1[0], prec), nr.zeldovich(np.full(3, 650.0), a2[0], f2)
                same = np.array_equal(a1[0], a2[0]) and np.array_equal(a1[1], a2[1]) and np.array_equal(z1, z2)
                R.check('cache_fresh', bool(same), {'flavour': flavour, 'observable': 'nucleationBarrier/zeldovich', 'last_op': op},
                        got=[a1[0], a1[1], z1], fresh=[a2[0], a2[1], z2], state=dict(state), step=step)
        else:
            ph = int(rng.integers(0, 2))
            if u < 0.4:
                op = 'setInterfacialEnergy'
                mstate['gammas'][ph] = draw_gamma()
                model.setInterfacialEnergy(mstate['gammas'][ph], phases[ph])
            elif u < 0.7:
                op = 'setGrainBoundaryEnergy'
                mstate['gb'] = draw_gb(min(mstate['gammas']), mstate['sites'][ph])
                model.setGrainBoundaryEnergy(mstate['gb'])
            else:
                op = 'setNucleationSite'
                mstate['sites'][ph] = SITES[int(rng.integers(0, 5))]
                model.setNucleationSite(mstate['sites'][ph], phases[ph])
            from kawin.precipitation.KWNBase import PrecipitateBase
            model.reset()                                   # re-arms setup(); it also re-creates the size grids with defaults
            model.setPBMParameters(*fixed['pbm'])
            PrecipitateBase.setup(model)
            ref = _build_model(phases, mstate['sites'], mstate['gammas'], gbE=mstate['gb'], **fixed)
            for p in range(2):
                got = _observe_barrier(model.precipitateParameters[p].nucleation)
                want = _observe_barrier(ref.precipitateParameters[p].nucleation)
                for nm in _OBS:
                    R.check('cache_fresh', _same(got[nm], want[nm]), {'flavour': flavour, 'observable': nm, 'last_op': op},
                            got=got[nm], fresh=want[nm], state={k_: v for k_, v in mstate.items()}, step=step, phase=p)
                if want['areaFactor'][0] == 'ValueError':
                    R.observe('inadmissible_ratio_states')
                elif mstate['sites'][p] in BOUNDARY and mstate['gb'] / (2 * mstate['gammas'][p]) > 0.05:
                    bigk = True
            adm = all(_observe_barrier(ref.precipitateParameters[p].nucleation)['gbRemoval'][0] == 'value' for p in range(2))
            if adm:
                for p in range(2):
                    s1 = float(model._calcNucleationSites(0.0, pop, p))
                    s2 = float(ref._calcNucleationSites(0.0, pop, p))
                    R.check('cache_fresh', s1 == s2, {'flavour': flavour, 'observable': 'available sites', 'last_op': op},
                            got=s1, fresh=s2, state={k_: v for k_, v in mstate.items()}, step=step, phase=p)
    R.set_nontrivial(bigk)


# ================================================================================================

def run_case(case, R):
    _CTX['R'] = R
    _CTX['site'] = None
    try:
        kind = case['kind']
        if kind == 'factors_grid':
            _case_factors_grid(case, R)
        elif kind == 'factors_random':
            _case_factors_random(case, R)
        elif kind == 'chain':
            _case_chain(case, R)
        elif kind == 'sites':
            _case_sites(case, R)
        elif kind == 'cache':
            _case_cache(case, R)
        elif kind == 'thermo_binary':
            _case_thermo(case, R, multi=False)
        elif kind == 'thermo_multi':
            _case_thermo(case, R, multi=True)
        elif kind == 'model_run':
            _case_model_run(case, R)
        else:
            raise ValueError('unknown case kind %r' % kind)
    finally:
        _CTX['R'] = None


MANIFEST = {
    'text': 'Runtime contracts wrapped around the public functions of kawin.precipitation.NucleationRate judge every call (R* >= Rmin, barrier, '
            'Zeldovich factor, impingement rate, incubation time and rate finite and non-negative) while random parameter sets for all five site '
            'types, driving forces from negative to 10 gamma/Rmin (minimum-radius clamp active), three impingement functions (algebraic backend, '
            'Al-Zr and Ni-Al-Cr databases) are pushed through the chain; relational oracles check zero rate for DF <= 0, incubation factor in [0,1] and '
            'rising, steady-state rate monotone in DF, R* and G* against the sphere, the site factors on dense grids of the energy ratio (sign, k=0 limit, '
            'a - 2kb = 3c, c decreasing, and an independent numerical integration of the nucleus geometry), available sites of a PrecipitateModel '
            'under growing synthetic populations, cached factors against freshly built objects after random setter sequences, array against scalar calls.',
    'note': 'trusted: the geometric reference (intersection of unit balls, Gauss-Legendre integration, vlib/c14_geom.py), the algebraic diffusivity backend; '
            'sampled, not exhaustive; k within 0.1% of each site limit excluded (ill-conditioned closed forms, observed only)',
    'technique': 'runtime contracts (function wrappers installed per worker) plus reference-model and metamorphic oracles on recorded inputs/outputs',
}
