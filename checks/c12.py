"""C12 - driving force, phase boundary and critical radius agree with each other.

Binary Al-Zr (stoichiometric AL3ZR) relations between the two code paths (interfacial composition from a
common-tangent equilibrium with shifted precipitate energy vs. nucleation driving force):
  c12.df_at_interface   DF(x_alpha(g), T) = g within the documented 1 J/mol offset:  |DF - g| <= 1 + 0.02 + 2e-5 g
  c12.solvus_sign       DF < 0 slightly below and > 0 slightly above the planar solvus x_alpha(0)
  c12.df_monotone_x     DF increases with matrix composition (supersaturation) at fixed T
  c12.xalpha_monotone_g x_alpha(g) rises strictly with g over the stable range
  c12.sentinel_closed   once the unstable sentinel (-1) is returned for some g it is returned for every larger g
  c12.methods_sign      the four driving-force methods agree in sign wherever |DF_tangent| > 50 J/mol
  c12.methods_value     tangent / approximate / sampling agree within 2 J/mol (stoichiometric precipitate;
                        the curvature method is compared in sign only, as the statement says "away from the solvus")
Precipitation states (binary, ternary, two-phase; isothermal runs so that the binary table is exact):
  c12.table_value       binary models, isothermal: the interfacial composition tabulated for a size class equals the backend's
                        answer (independent object) for the Gibbs-Thomson energy of THAT phase at that radius, sampled at the
                        first stable, the middle and the last boundary every 20 steps and after every grid extension (1e-5)
  c12.growth_sign       in every observed state with DF > 0 and critical radius above the minimum radius, class
                        boundaries with R > R*(1+d) grow and R < R*(1-d) shrink, d = 1e-2 (+ 2/DF_molar for the
                        binary offset)
Multicomponent backends (Al-Mg-Si with five stoichiometric precipitates, Ni-Al-Cr with an ordered precipitate):
  c12.methods_value     Al-Mg-Si: tangent / approximate / sampling agree to the 1 J/mol offset (+- 1 J/mol)
  c12.methods_sign      a method has the sign that at least two of the other three report with more than 300 J/mol
  long histories        one approximate / curvature object answers hundreds of points x all precipitates; every answer beyond
                        300 J/mol (Al-Mg-Si) / 600 J/mol (Ni-Al-Cr) of the sampling reference must have its sign
Not asserted: values of the curvature method; values for the non-stoichiometric ordered precipitate.
"""
import numpy as np

from vlib import core, precip, precip_gen

PROPERTY = 'C12'
LEVEL = 'exploration'
RULE = ('temperature x Gibbs-Thomson-energy grids and composition grids on Al-Zr for the binary relations (a case = one temperature; non-trivial = '
        '>= 3 stable g values); isothermal precipitation trajectories (binary/ternary/two-phase) for the growth-sign clause (non-trivial = states '
        'with boundaries on both sides of the critical radius observed); temperature arrays in five orders for the array form; random composition / '
        'temperature points of Al-Mg-Si and Ni-Al-Cr for the agreement of the four methods (per-point new tangent object) and long query '
        'histories of one object (non-trivial = enough points away from the solvus); distinct by case description hash')
REQUIRED_MONITORS = ['c12.table_value', 'c12.df_at_interface', 'c12.solvus_sign', 'c12.df_monotone_x', 'c12.xalpha_monotone_g', 'c12.sentinel_closed',
                     'c12.methods_sign', 'c12.methods_value', 'c12.growth_sign']
REACH = ['thermo/BinTherm.py:BinaryThermodynamics._interfacialCompositionFromEq', 'thermo/Thermodynamics.py:GeneralThermodynamics._getDrivingForceTangent',
         'thermo/Thermodynamics.py:GeneralThermodynamics._getDrivingForceSampling', 'thermo/Thermodynamics.py:GeneralThermodynamics._getDrivingForceApprox',
         'thermo/Thermodynamics.py:GeneralThermodynamics._getDrivingForceCurvature',
         'precipitation/NucleationRate.py:nucleationBarrier', 'thermo/MultiTherm.py:MulticomponentThermodynamics.getGrowthAndInterfacialComposition']
MIN_NONTRIVIAL = {'quick': 10, 'thorough': 60}
CASE_TIMEOUT = 900
CASE_TIMEOUT_THOROUGH = 2400
MAX_INCONCLUSIVE_FRACTION = 0.05
N_SAMPLES = 3
ASSUMPTIONS = ['AL3ZR is stoichiometric (value agreement of methods is only claimed for that case)',
               'trajectory clause is evaluated on isothermal runs (the binary table is then computed at the current temperature)']
MANIFEST = {
    'text': 'Cross-path relations (interfacial composition vs driving force, four methods) are evaluated on grids of the real backend; the '
            'growth-sign clause is asserted in every observed state of sampled isothermal precipitation runs.',
    'note': 'trusted: pycalphad equilibria; tolerances from measured agreement (1e-5 J/mol) with >= 3 decades of margin',
    'technique': 'metamorphic / cross-path monitor on real backend queries + per-step growth-sign invariant on trajectories',
}
NT = {'quick': 6, 'thorough': 40}
NG = {'quick': 12, 'thorough': 60}
NTRAJ = {'quick': 14, 'thorough': 84}
NMULTI = {'quick': 5, 'thorough': 30}
NMETH = {'quick': 4, 'thorough': 40}
NLONG = {'quick': 3, 'thorough': 18}


def plan(tier, seed):
    cases = []
    rng = core.case_rng(seed, PROPERTY, 0)
    Ts = np.sort(rng.uniform(600, 850, NT[tier]))
    for i, T in enumerate(Ts):
        cases.append({'kind': 'binary', 'T': float(T), 'ng': NG[tier], 'weight': 5e4})
    for i in range(NMULTI[tier]):
        cases.append({'kind': 'multiT', 'rep': i, 'pattern': ['decreasing', 'cycle', 'grid', 'random', 'increasing'][i % 5], 'n': 5 + i % 4,
                      'weight': 5e4})
    for i in range(NMETH[tier]):
        cases.append({'kind': 'multi_methods', 'rep': i, 'system': ['almgsi', 'nialcr'][i % 2], 'npoints': 12 if tier == 'quick' else 25, 'weight': 2e5})
    for i in range(NLONG[tier]):
        system = 'nialcr' if i % 3 == 2 else 'almgsi'
        cases.append({'kind': 'long_history', 'rep': i, 'system': system, 'method': ['curvature', 'approximate'][(i // 3 + i) % 2],
                      'npoints': (400 if tier == 'quick' else 2000) // (1 if system == 'almgsi' else 2), 'weight': 4e5})
    for i in range(NTRAJ[tier]):
        r = core.case_rng(seed, PROPERTY, 100 + i)
        system = ['alzr', 'nialcr', 'almgsi', 'cuti', 'alzr', 'cuti', 'nialcr'][i % 7]
        cfg = precip_gen.gen_config(r, system=system, tier=tier, allow_noniso=False, grid_class='in_range', allow_elastic=True)
        cfg['max_steps'] = min(cfg['max_steps'], 1200 if tier == 'quick' else 3000)
        if system in ('cuti', 'alzr') and i % 2 == 1:
            # small grid: size classes are appended during the run (the binary tables of appended classes are computed separately)
            cfg['pbm'].update({'cMax': 2e-9, 'bins': 30, 'minBins': 24, 'maxBins': 48, 'adaptive': True})
        case = {'kind': 'trajectory', 'cfg': cfg, 'weight': precip_gen.cfg_weight(cfg)}
        if i % 2 == 1:
            case['rerun'] = float(r.choice([1.1, 1.25, 1.5]))
            case['weight'] *= 1.5
        cases.append(case)
    return cases


_TH = {}


def _therm(method):
    from kawin.thermo import BinaryThermodynamics
    import kawin.tests.datasets as ds
    if method not in _TH:
        th = BinaryThermodynamics(ds.ALZR_TDB, ['AL', 'ZR'], ['FCC_A1', 'AL3ZR'], drivingForceMethod=method)
        th.setDFSamplingDensity(2000)
        th.setEQSamplingDensity(500)
        _TH[method] = th
    return _TH[method]


def _df(th, x, T):
    dg, _ = th.getDrivingForce(np.atleast_1d(np.asarray(x, dtype=float)), T * np.ones(np.size(x)), precPhase='AL3ZR')
    return np.atleast_1d(np.asarray(dg, dtype=float))


def run_case(case, R):
    if case['kind'] == 'trajectory':
        return _trajectory(case, R)
    if case['kind'] == 'multiT':
        return _multi_temperature(case, R)
    if case['kind'] == 'multi_methods':
        return _multi_methods(case, R)
    if case['kind'] == 'long_history':
        return _long_history(case, R)
    T = case['T']
    th = _therm('tangent')
    rng = core.case_rng(case['seed'], PROPERTY, case['idx'], 3)
    g = np.concatenate(([0.0], np.sort(np.exp(rng.uniform(np.log(5.0), np.log(6e4), case['ng'])))))
    mech = {'system': 'alzr'}
    xa, xb = th.getInterfacialComposition(T, np.array(g, copy=True), precPhase='AL3ZR')
    xa = np.atleast_1d(np.asarray(xa, dtype=float))
    stable = xa != -1
    R.observe('g_values', len(g))
    R.observe('g_stable', int(np.sum(stable)))
    # sentinel upward closed
    if np.any(~stable):
        first_bad = int(np.argmax(~stable))
        R.check('c12.sentinel_closed', not np.any(stable[first_bad:]), mech, T=T, g=g, stable=stable)
    else:
        R.count('c12.sentinel_closed')
    gs, xs = g[stable], xa[stable]
    if len(gs) >= 2:
        R.check('c12.xalpha_monotone_g', bool(np.all(np.diff(xs) > 0)), mech, T=T, g=gs, x_alpha=xs)
    # DF at the interfacial composition
    usable = (xs > 0) & (xs < 0.2)
    if np.any(usable):
        df = _df(th, xs[usable], T)
        err = np.abs(df - gs[usable])
        tol = 1.0 + 0.02 + 2e-5 * gs[usable]
        R.worst('c12_df_minus_g_minus_offset', float(np.max(np.abs(df - gs[usable] - 1.0))))
        bad = err > tol
        R.check('c12.df_at_interface', not bool(np.any(bad)), mech, T=T, g=gs[usable][bad][:5], DF=df[bad][:5], x_alpha=xs[usable][bad][:5])
        R.count('c12.df_at_interface', int(np.sum(usable)) - 1)
    # solvus sign
    x0 = float(xs[0]) if len(xs) and gs[0] == 0.0 else None
    if x0 is not None and x0 > 0:
        lo, hi = _df(th, [x0 * 0.9], T)[0], _df(th, [x0 * 1.1], T)[0]
        R.check('c12.solvus_sign', lo < 0 < hi, mech, T=T, solvus=x0, DF_below=lo, DF_above=hi)
    # DF monotone in x, method agreement
    xgrid = np.sort(np.concatenate((np.exp(rng.uniform(np.log(1e-5), np.log(2e-2), 10)), [x0 * 0.5 if x0 else 1e-5, (x0 or 1e-4) * 3])))
    dft = _df(th, xgrid, T)
    R.check('c12.df_monotone_x', bool(np.all(np.diff(dft) > 0)), dict(mech, method='tangent'), T=T, x=xgrid, DF=dft)
    # dilute end, down to exactly zero (what a precipitation model passes after its documented clamp of a negative matrix
    # composition), asked one by one on the long-lived object: negative, never decreasing with x, increasing above the solver's
    # composition resolution. Added after a run recorded +55 kJ/mol for pure aluminium (repaired in /repo a2fb3ae).
    xd = np.array([0.0, 1e-14, 1e-13, 5e-13, 1e-12, 1e-11, 1e-10, 1e-8, 1e-6])
    for method in ('tangent', 'approximate', 'sampling', 'curvature'):
        thm = _therm(method)
        _df(thm, [float(xs[0]) * 1.5 if len(xs) else 1e-3], T)       # warm the cached equilibria at a supersaturated point first
        dd = np.array([_df(thm, [xv], T)[0] for xv in xd])
        # below 1e-11 the library passes 1e-11 to the solver, whose mass balance tolerance is then 10 % of the composition:
        # 'never decreasing' is asserted to 2 % there, 'increasing' from 1e-11 upwards (steps of thousands of J/mol)
        ok = bool(np.all(np.isfinite(dd)) and np.all(dd < 0) and np.all(np.diff(dd) >= -0.02 * np.abs(dd[:-1])) and np.all(np.diff(dd[5:]) > 0))
        R.check('c12.df_monotone_x', ok, dict(mech, method=method, range='dilute'), T=T, x=xd, DF=dd)
    for method in ('approximate', 'sampling', 'curvature'):
        try:
            dm = _df(_therm(method), xgrid, T)
        except Exception as e:
            R.exception('c12.methods_sign', e, dict(mech, method=method), T=T)
            continue
        far = np.abs(dft) > 50
        okfin = np.isfinite(dm)
        sign_ok = np.sign(dm[far & okfin]) == np.sign(dft[far & okfin])
        R.check('c12.methods_sign', bool(np.all(sign_ok)) and bool(np.all(okfin[far])), dict(mech, method=method), T=T,
                x=xgrid[far], tangent=dft[far], other=dm[far])
        if method != 'curvature':
            R.worst('c12_method_value_diff_%s' % method, float(np.max(np.abs(dm - dft))))
            R.check('c12.methods_value', bool(np.all(np.abs(dm - dft) <= 2.0)), dict(mech, method=method), T=T, x=xgrid, tangent=dft, other=dm)
    R.info.update({'T': T, 'stable_g': int(np.sum(stable)), 'solvus': x0})
    R.set_nontrivial(int(np.sum(stable)) >= 3)


_MTH = {}


def _multi_methods(case, R):
    """Last clause on the multicomponent backends. Al-Mg-Si: five stoichiometric precipitates -> tangent / approximate /
    sampling agree in value (measured 6e-11 J/mol beyond the documented 1 J/mol offset), all four agree in sign.
    Ni-Al-Cr: ordered, non-stoichiometric precipitate -> sign only, and 'away from the solvus' is decided by the other
    methods: when at least two of the other three methods report more than 300 J/mol of one sign, the method under test
    must have that sign. The tangent object is brand new for every point (a long-lived one is history dependent: C09);
    the other three objects live for the whole case."""
    import warnings
    warnings.filterwarnings('ignore')
    system = case['system']
    rng = core.case_rng(case['seed'], PROPERTY, case['idx'], 7)
    methods = ['tangent', 'approximate', 'sampling', 'curvature']
    # objects are created per case (a case is then a self-contained, replayable history of queries on its own objects)
    _MTH.clear()
    for m in methods[1:]:
        _MTH[(system, m)] = precip.make_therm(system, None, None, m)
    phases = _MTH[(system, 'approximate')].phases[1:]
    nfar = 0
    for k in range(case['npoints']):
        if system == 'almgsi':
            x = np.exp(rng.uniform(np.log(1e-4), np.log(0.03), 2))
            T = float(rng.uniform(350, 800))
        else:
            x = np.array([rng.uniform(0.02, 0.2), rng.uniform(0.005, 0.12)])
            T = float(rng.uniform(800, 1350))
        objs = dict((m, _MTH[(system, m)]) for m in methods[1:])
        objs['tangent'] = precip.make_therm(system, None, None, 'tangent')
        for ph in phases:
            vals = {}
            for m in methods:
                try:
                    dg, _ = objs[m].getDrivingForce(np.array(x, copy=True), T, precPhase=ph)
                    vals[m] = float(np.squeeze(dg)) if dg is not None else float('nan')
                except Exception as e:
                    R.exception('c12.methods_sign', e, {'system': system, 'method': m}, T=T, x=x, phase=ph)
                    vals[m] = float('nan')
            R.observe('multi_method_points')
            for m in methods:
                others = np.array([vals[o] for o in methods if o != m])
                for sg in (1, -1):
                    if np.sum(sg * others > 300) >= 2:
                        nfar += 1
                        v = vals[m]
                        ok = np.isfinite(v) and sg * v > 0
                        pattern = None
                        if not ok:
                            pattern = ('small_opposite' if np.isfinite(v) and abs(v) < 150 else 'large_opposite' if np.isfinite(v) else 'not_finite') \
                                + ('_others_positive' if sg > 0 else '_others_negative')
                        R.check('c12.methods_sign', ok, {'system': system, 'method': m, 'pattern': pattern, 'stoichiometric': system == 'almgsi'},
                                T=T, x=x, phase=ph, values=vals)
            if system == 'almgsi':
                d = max(abs(vals['approximate'] - vals['tangent'] + 1.0), abs(vals['sampling'] - vals['tangent'] + 1.0))
                R.worst('c12_multi_method_value_diff_beyond_offset', d)
                R.check('c12.methods_value', d <= 1.0, {'system': system, 'stoichiometric': True}, T=T, x=x, phase=ph, values=vals)
    R.observe('multi_method_far_from_solvus_evaluations', nfar)
    R.info.update({'system': system, 'points': case['npoints'], 'far': nfar})
    R.set_nontrivial(nfar >= 10)


def _long_history(case, R):
    """Sign agreement over a long life of ONE Al-Mg-Si object (hundreds of points x five precipitates). The reference is the
    sampling method (no cached equilibria). Added after the curvature method was seen to return +1e11 J/mol against -4753 J/mol
    once per ~5000 queries of a long-lived object (repaired in /repo 0eef5fb; needs >= 15 earlier queries)."""
    import warnings
    warnings.filterwarnings('ignore')
    rng = core.case_rng(case['seed'], PROPERTY, case['idx'], 9)
    m = case['method']
    system = case.get('system', 'almgsi')
    th = precip.make_therm(system, None, None, m)
    ref = precip.make_therm(system, None, None, 'sampling')
    far = 300 if system == 'almgsi' else 600      # non-stoichiometric ordered precipitate: the methods differ by up to ~200 J/mol
    nfar = 0
    nq = 0
    for k in range(case['npoints']):
        if system == 'almgsi':
            x = np.exp(rng.uniform(np.log(1e-4), np.log(0.03), 2))
            T = float(rng.uniform(350, 800))
        else:
            x = np.array([rng.uniform(0.02, 0.2), rng.uniform(0.005, 0.12)])
            T = float(rng.uniform(800, 1350))
        for ph in th.phases[1:]:
            nq += 1
            try:
                dg, _ = th.getDrivingForce(np.array(x, copy=True), T, precPhase=ph)
                dg = float(np.squeeze(dg)) if dg is not None else float('nan')
                r, _ = ref.getDrivingForce(np.array(x, copy=True), T, precPhase=ph)
                r = float(np.squeeze(r))
            except Exception as e:
                R.exception('c12.methods_sign', e, {'system': system, 'method': m, 'history': 'long'}, T=T, x=x, phase=ph, query=nq)
                continue
            if system == 'almgsi' and m == 'approximate':
                # stoichiometric precipitates: the approximate method equals the sampling value (measured 1e-8 J/mol)
                R.worst('c12_long_history_approx_minus_sampling', abs(dg - r))
                R.check('c12.methods_value', abs(dg - r) <= 1.0, {'system': system, 'method': m, 'history': 'long', 'stoichiometric': True},
                        T=T, x=x, phase=ph, value=dg, sampling=r, query=nq)
            if abs(r) > far:
                nfar += 1
                ok = np.isfinite(dg) and np.sign(dg) == np.sign(r)
                R.check('c12.methods_sign', ok, {'system': system, 'method': m, 'history': 'long',
                                                 'pattern': None if ok else ('not_finite' if not np.isfinite(dg) else 'opposite_others_%s' % ('positive' if r > 0 else 'negative'))},
                        T=T, x=x, phase=ph, value=dg, sampling=r, query=nq)
    R.observe('long_history_queries', nq)
    R.info.update({'system': system, 'method': m, 'queries': nq, 'far': nfar})
    R.set_nontrivial(nfar >= 100)


def _multi_temperature(case, R):
    """The first clause for the documented array form (T and g arrays of equal length, one condition per index): each
    returned composition belongs to ITS temperature. Added after seeded change C12-c (conditions grouped by temperature
    under an ordering assumption)."""
    th = _therm('tangent')
    rng = core.case_rng(case['seed'], PROPERTY, case['idx'], 5)
    n = case['n']
    pat = case['pattern']
    if pat == 'grid':
        Tu = np.sort(rng.uniform(620, 840, 3))
        gu = np.sort(np.exp(rng.uniform(np.log(20.0), np.log(4e3), 3)))
        T = np.tile(Tu, len(gu))
        g = np.repeat(gu, len(Tu))
    else:
        T = rng.uniform(620, 840, n)
        if pat == 'decreasing':
            T = np.sort(T)[::-1]
        elif pat == 'increasing':
            T = np.sort(T)
        elif pat == 'cycle':
            T = np.concatenate((np.sort(T), np.sort(T)[::-1][1:]))
        g = np.exp(rng.uniform(np.log(20.0), np.log(4e3), len(T)))
    mech = {'system': 'alzr', 'form': 'T_array', 'pattern': pat}
    T0, g0 = np.array(T, copy=True), np.array(g, copy=True)
    xa, xb = th.getInterfacialComposition(T, g, precPhase='AL3ZR')
    xa = np.atleast_1d(np.asarray(xa, dtype=float))
    R.check('c12.df_at_interface', np.array_equal(T, T0) and np.array_equal(g, g0), dict(mech, what='arguments modified'))
    R.check('c12.df_at_interface', xa.shape == T0.shape, dict(mech, what='shape'), shape=xa.shape, expected=T0.shape)
    if xa.shape != T0.shape:
        return
    nst = 0
    for i in range(len(T0)):
        xs, _ = th.getInterfacialComposition(float(T0[i]), float(g0[i]), precPhase='AL3ZR')
        xs = float(np.squeeze(xs))
        # same condition evaluated alone: same equilibrium calculation, so the same composition to solver precision
        R.check('c12.df_at_interface', (xa[i] == -1) == (xs == -1) and abs(xa[i] - xs) <= 1e-9 + 1e-6 * abs(xs),
                dict(mech, what='array entry differs from the single-condition call'), i=i, T=T0[i], g=g0[i], array=xa[i], single=xs)
        if xa[i] != -1 and 0 < xa[i] < 0.2:
            nst += 1
            df = _df(th, [xa[i]], float(T0[i]))[0]
            R.check('c12.df_at_interface', abs(df - g0[i]) <= 1.0 + 0.02 + 2e-5 * g0[i], dict(mech, what='DF at own temperature'),
                    i=i, T=T0[i], g=g0[i], DF=df, x_alpha=xa[i], all_T=T0)
            R.worst('c12_df_minus_g_minus_offset', abs(df - g0[i] - 1.0))
    R.observe('multiT_conditions', len(T0))
    R.observe('multiT_conditions_stable', nst)
    R.info.update({'pattern': pat, 'n': len(T0), 'stable': nst})
    R.set_nontrivial(nst >= 3)


def _trajectory(case, R):
    from vlib.precip_run import TrajectoryRun
    from vlib.precip_monitors import C12Monitor
    cfg = case['cfg']
    run = TrajectoryRun(cfg, R, [C12Monitor()], max_steps=cfg['max_steps']).execute()
    if run.rejected or R.inconclusive:
        return
    if run.error is not None:
        R.observe('runs_ended_by_exception')
    elif case.get('rerun'):
        # calibration-sweep history on ONE model object: reset, change the interfacial energy, solve again
        # (added after seeded change C12-b: cached nucleation factors survived a change of the interfacial energy)
        from vlib.core import StopRun
        m = run.model
        try:
            m.reset()
            for p in cfg['phases']:
                m.setInterfacialEnergy(cfg['gamma'][p] * case['rerun'], phase=p)
            run.observer.max_steps = run.observer.steps + min(cfg['max_steps'], 600)
            run.ctx = None
            m.solve(sum(cfg['segments']), solverType=run.iterator)
        except StopRun:
            pass
        except ValueError as e:
            R.observe('rerun_rejected')
        except Exception as e:
            R.observe('rerun_ended_by_exception')
            R.info['rerun_error'] = '%s: %s' % (type(e).__name__, str(e)[:200])
        R.observe('reruns_with_changed_interfacial_energy')
    both = R.observed.get('c12_states_both_signs', 0)
    R.info.update({'system': cfg['system'], 'steps': run.steps, 'states': R.observed.get('c12_states', 0), 'both_sides': both,
                   'shape': cfg.get('shape'), 'sites': cfg.get('site')})
    R.set_nontrivial(both >= 10)
