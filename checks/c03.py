"""C03 - precipitation runs are well formed for every configuration and survive backend faults.

Monitors (vlib/precip_monitors.py:C03Monitor) on real PrecipitateModel runs:
  c03.end_time            last time stamp = t0 + requested duration (2 ulp) for every solve() call
  c03.time_increasing     strictly increasing time stamps
  c03.aligned / c03.step_aligned   all 16 histories have the same length (= steps+1) after every step
  c03.finite              every recorded history finite
  c03.fraction_bounds     0 <= fv <= 1, sum_p fv <= 1 + 1e-12;  c03.composition_bounds  0 <= x <= 1
  c03.nonnegative         radii, densities, nucleation rates >= 0;  c03.psd_nonnegative / c03.psd_step
  c03.internal_error      any exception escaping solve() other than the library's documented input validation
                          (a ValueError raised by a validate* function before the first step = rejected
                          configuration, counted, not a violation)
Fault enumeration: a delegating thermodynamics wrapper (public setThermodynamics seam) drops results on a script:
  growth_none      getGrowthAndInterfacialComposition -> None              (multicomponent)
  curvature_fail   the two-phase equilibrium used by the curvature path fails (instance-level failpoint on the
                   wrapped object), so the library's own 'use previous values' branch runs  (multicomponent)
  binary_unstable  binary interfacial composition -> documented unstable sentinel (-1)
  df_none          driving force -> (None, None), the documented failure value of the thermodynamics layer
Schedules: single fault at call k for every k <= K (exhaustive on one short configuration per system), a fault on the
growth evaluation that follows the 1st/2nd/3rd/every change of the size-class grid (small grids so that extension and
re-meshing happen early), bursts,
periodic. After the last fault the run must finish and satisfy everything above. Runs carry a logical step cap;
a capped run is checked for everything except c03.end_time.
"""
import numpy as np

from vlib import core, precip, precip_gen

PROPERTY = 'C03'
LEVEL = 'fault_enumeration'
RULE = ('(a) fault-free: random configurations incl. compositions/temperatures outside the two-phase field, out-of-range grids, all site types, '
        'shapes, constraint flags, both iterators, 1-4 solve calls; non-trivial = >= 50 steps; (b) faults: per system one short base '
        'configuration x fault kind x schedule (single fault at call k for all k <= K, bursts, periodic); non-trivial = the fault fired; '
        'distinct by configuration + schedule hash')
REQUIRED_MONITORS = ['c03.end_time', 'c03.time_increasing', 'c03.aligned', 'c03.finite', 'c03.fraction_bounds', 'c03.psd_step']
REACH = ['precipitation/KWNEuler.py:PrecipitateModel._singleGrowthMulti', 'precipitation/KWNEuler.py:PrecipitateModel._createLookupBinary',
         'precipitation/PrecipitationParameters.py:PrecipitationData.appendToArrays', 'precipitation/KWNEuler.py:PrecipitateModel.getDt']
MIN_NONTRIVIAL = {'quick': 28, 'thorough': 300}
CASE_TIMEOUT = 900
CASE_TIMEOUT_THOROUGH = 1800
MAX_INCONCLUSIVE_FRACTION = 0.03
N_SAMPLES = 4
ASSUMPTIONS = ['faults are dropped results at the thermodynamics boundary; failures inside pycalphad\'s solver state are not modelled',
               'admissible configuration = accepted by the library\'s own validation']
MANIFEST = {
    'text': 'Well-formedness of all 16 histories and of the size distributions is asserted after every step and every solve() call of sampled '
            'configurations; backend failures are injected at every one of the first K backend calls (exhaustive single-fault enumeration per '
            'fault kind on one base configuration per system) plus bursts and periodic schedules.',
    'note': 'trusted: the fault wrapper only replaces return values with the documented failure values of the thermodynamics layer',
    'technique': 'fault injection at the thermodynamics seam + per-step well-formedness invariants',
}

N_FREE = {'quick': 24, 'thorough': 240}
K_SINGLE = {'quick': 12, 'thorough': 200}
FAULT_KINDS = {'nialcr': ['growth_none', 'curvature_fail', 'df_none'], 'alzr': ['binary_unstable', 'df_none'],
               'almgsi': ['growth_none', 'curvature_fail'], 'cuti': ['df_none', 'binary_unstable']}
FAULT_METHOD = {'growth_none': 'getGrowthAndInterfacialComposition', 'binary_unstable': 'getInterfacialComposition',
                'df_none': 'getDrivingForce', 'curvature_fail': '_getCompositionSetsEq'}


def base_cfg(system):
    cfg = precip.default_cfg(system)
    cfg['iterator'] = 'euler'
    cfg['constraints'] = {'dtScale': 0.3}
    if system == 'nialcr':
        cfg['x0'] = [0.11, 0.08]
        cfg['schedule'] = {'kind': 'iso', 'T': 1050.0}
        cfg['segments'] = [30.0, 60.0]
    elif system == 'alzr':
        cfg['x0'] = [5e-3]
        cfg['schedule'] = {'kind': 'iso', 'T': 760.0}
        cfg['segments'] = [3e3, 3e4]
        cfg['pbm'] = {'cMin': 1e-10, 'cMax': 5e-9, 'bins': 40, 'minBins': 30, 'maxBins': 60, 'adaptive': True}
    elif system == 'cuti':
        cfg['schedule'] = {'kind': 'iso', 'T': 640.0}
        cfg['segments'] = [1e2, 1e3]
    else:
        cfg['schedule'] = {'kind': 'iso', 'T': 450.0}
        cfg['segments'] = [2e3, 2e4]
    cfg['max_steps'] = 200
    return cfg


def plan(tier, seed):
    cases = []
    for i in range(N_FREE[tier]):
        rng = core.case_rng(seed, PROPERTY, i)
        cfg = precip_gen.gen_config(rng, system=('cuti' if i % 7 == 3 else None), tier=tier, allow_noniso=(i % 4 == 0), out_of_window=(i % 5 == 1),
                                    grid_class=('out_of_range' if i % 6 == 2 else None), allow_beta2=True, allow_dtfrac=True, allow_elastic=True)
        cfg['max_steps'] = min(cfg['max_steps'], 800 if tier == 'quick' else 4000)
        cases.append({'kind': 'free', 'cfg': cfg, 'weight': precip_gen.cfg_weight(cfg)})
    # multi-phase Al-Mg-Si at temperatures where the first-listed phase is stable and a later-listed one has no two-phase
    # equilibrium at the initial state, and the reverse order (added after seeded change F10: setup() crashed when an
    # earlier-listed phase had been solved and a later-listed one was unstable)
    for j in range(2 if tier == 'quick' else 12):
        rng = core.case_rng(seed, PROPERTY, 6000 + j)
        cfg = precip_gen.gen_config(rng, system='almgsi', tier=tier, allow_noniso=False, grid_class='in_range', sites=['bulk', 'dislocations'])
        ph = ['MGSI_B_P', 'MG5SI6_B_DP'] if j % 2 == 0 else ['MG5SI6_B_DP', 'MGSI_B_P']
        if j % 4 >= 2:
            ph = ph + ['U2_PHASE']
        cfg['phases'] = ph
        cfg['gamma'] = {p: float(precip.ALMGSI_GAMMA[p]) for p in ph}
        cfg['VmBeta'] = {p: 1e-5 for p in ph}
        cfg['site'] = {p: 'dislocations' for p in ph}
        cfg['shape'], cfg['strain'] = {}, {}
        cfg.pop('parents', None)
        cfg.pop('volSpec', None)
        cfg['x0'] = [0.0072, 0.0057]
        cfg['schedule'] = {'kind': 'iso', 'T': float(rng.uniform(600, 640))}
        cfg['segments'] = [10.0, 20.0]
        cfg['max_steps'] = 150 if tier == 'quick' else 400
        cases.append({'kind': 'free', 'cfg': cfg, 'weight': 2e5})
    for j in range(2 if tier == 'quick' else 16):        # complete dissolution above the solvus
        rng = core.case_rng(seed, PROPERTY, 5000 + j)
        cfg = precip_gen.gen_dissolution_config(rng, ['nialcr', 'alzr', 'almgsi'][j % 3], tier)
        cfg['max_steps'] = min(cfg['max_steps'], 2500 if tier == 'quick' else 8000)
        cases.append({'kind': 'free', 'cfg': cfg, 'weight': 4e4 * cfg['max_steps'] / 100})
    K = K_SINGLE[tier]
    for system in ('nialcr', 'alzr', 'almgsi', 'cuti'):
        if system == 'almgsi' and tier == 'quick':
            kinds = ['growth_none']
        elif system == 'cuti' and tier == 'quick':
            kinds = ['df_none']          # binary, two precipitate phases: the fault hits the queries of both phases
        else:
            kinds = FAULT_KINDS[system]
        for kind in kinds:
            scheds = [{'type': 'single', 'k': k} for k in range(1, (K if system != 'almgsi' else K // 2) + 1)]
            rng = core.case_rng(seed, PROPERTY, 10000 + len(cases))
            for j in range(3 if tier == 'quick' else 40):
                start = int(rng.integers(1, 3 * K))
                scheds.append({'type': 'burst', 'start': start, 'len': int(rng.integers(2, 8))})
                scheds.append({'type': 'periodic', 'period': int(rng.integers(2, 12)), 'phase': int(rng.integers(0, 5))})
            if kind in ('growth_none', 'curvature_fail'):
                # fault on the growth evaluation that follows a change of the size-class grid (extension / re-mesh)
                scheds += [{'type': 'after_grid_change', 'which': w, 'small_grid': True} for w in (1, 2, 3, 'all')]
            if kind in ('growth_none', 'curvature_fail', 'df_none'):
                # the same faults on a non-isothermal base run (other incubation path), incl. failures from the very first call
                # (added after seeded change C03-c: NaN incubation time when the impingement rate is 0 in a non-isothermal run)
                scheds += [{'type': 'burst', 'start': 1, 'len': 3, 'noniso': True}, {'type': 'single', 'k': 1, 'noniso': True},
                           {'type': 'periodic', 'period': 2, 'phase': 1, 'noniso': True}, {'type': 'burst', 'start': 1, 'len': 40, 'noniso': True}]
            B = 6 if tier == 'quick' else 8
            for b in range(0, len(scheds), B):
                cases.append({'kind': 'fault', 'system': system, 'fault': kind, 'schedules': scheds[b:b + B],
                              'weight': 3e3 * B * {'alzr': 1, 'nialcr': 2, 'almgsi': 5, 'cuti': 2}[system]})
    return cases


def _fires(s, n):
    if s['type'] == 'after_grid_change':
        return False
    if s['type'] == 'single':
        return n == s['k']
    if s['type'] == 'burst':
        return s['start'] <= n < s['start'] + s['len']
    return n % s['period'] == s['phase'] % s['period']


def _make_fault(kind, sched, state, run):
    method = FAULT_METHOD[kind]

    def where():
        if run.steps == 0 and run.ctx is None and not run.in_iterator:
            return 'setup'
        return 'iterator' if run.in_iterator else 'postprocess'

    def grid_changed(a, k):
        R = a[3] if len(a) > 3 else k.get('R')
        ph = k.get('precPhase')
        L = int(np.size(R))
        prev = state.setdefault('lastR', {}).get(ph)
        state['lastR'][ph] = L
        if prev is not None and L > 1 and prev > 1 and L != prev:
            state['grid_events'] = state.get('grid_events', 0) + 1
            return sched['which'] == 'all' and state['grid_events'] <= 6 or sched['which'] == state['grid_events']
        return False

    def fault(name, n, a, k):
        if name != method:
            return None
        if sched['type'] == 'after_grid_change':
            if kind != 'growth_none' or not grid_changed(a, k):
                return None
        elif not _fires(sched, n):
            return None
        state['fired'] += 1
        if kind == 'growth_none':
            run.fault_info['hit'].add(where())
            return ('return', None)
        if kind == 'df_none':
            run.fault_info['hit'].add(where())
            return ('return', (None, None))
        if kind == 'binary_unstable':
            g = np.atleast_1d(np.asarray(a[1], dtype=float)) if len(a) > 1 else np.zeros(1)
            if g.size == 1:
                run.fault_info['hit'].add('planar')
                return ('return', (-1, -1))
            bins = [int(p.bins) for p in run.model.PBM]
            run.fault_info['hit'].add('full_table' if (g.size - 1) in bins else 'partial_table')
            return ('return', (-1 * np.ones(g.shape), -1 * np.ones(g.shape)))
        return None
    return fault


def run_case(case, R):
    from vlib.precip_run import TrajectoryRun
    from vlib.precip_monitors import C03Monitor
    if case['kind'] == 'free':
        cfg = case['cfg']
        run = TrajectoryRun(cfg, R, [C03Monitor()], max_steps=cfg['max_steps']).execute()
        R.info.update({'steps': run.steps, 'system': cfg['system'], 'iterator': cfg['iterator'], 'grid_class': cfg.get('grid_class'),
                       'rejected': run.rejected, 'error': None if run.error is None else type(run.error).__name__})
        R.set_nontrivial(run.steps >= 50 and not run.rejected)
        return
    nfired = 0
    for s in case['schedules']:
        cfg = base_cfg(case['system'])
        if s.get('noniso'):
            T0 = cfg['schedule']['T']
            dur = sum(cfg['segments'])
            cfg['schedule'] = {'kind': 'array', 'hours': [0.0, dur / 3600.0], 'temps': [T0, T0 + (25.0 if case['system'] != 'alzr' else 8.0)]}
        if s.get('small_grid'):
            cfg['pbm'] = {'cMin': 1e-10, 'cMax': 2.5e-9, 'bins': 40, 'minBins': 30, 'maxBins': 60, 'adaptive': True}
        state = {'fired': 0}
        kind = case['fault']
        if kind == 'curvature_fail':
            inner = precip.make_therm(cfg['system'], cfg['phases'])
            orig = inner._getCompositionSetsEq
            cnt = {'n': 0}

            run = TrajectoryRun(cfg, R, [C03Monitor()], max_steps=cfg['max_steps'], therm=inner)
            run.fault_active = True
            run.fault_info = {'kind': kind, 'hit': set()}
            _run = run

            armed = {'on': False, 'lastR': {}, 'events': 0}

            def before(name, a, k, _s=s):
                # arm the failpoint when a growth evaluation follows a change of the size-class grid
                if _s['type'] != 'after_grid_change' or name != 'getGrowthAndInterfacialComposition':
                    return
                L = int(np.size(a[3])) if len(a) > 3 else 0
                ph = k.get('precPhase')
                prev = armed['lastR'].get(ph)
                armed['lastR'][ph] = L
                if prev is not None and L > 1 and prev > 1 and L != prev:
                    armed['events'] += 1
                    if (_s['which'] == 'all' and armed['events'] <= 6) or _s['which'] == armed['events']:
                        armed['on'] = True

            def failing(*a, _o=orig, _s=s, **k):
                cnt['n'] += 1
                hit = _fires(_s, cnt['n'])
                if armed['on']:
                    armed['on'] = False
                    hit = True
                if hit:
                    state['fired'] += 1
                    _run.fault_info['hit'].add('setup' if _run.steps == 0 and _run.ctx is None and not _run.in_iterator else ('iterator' if _run.in_iterator else 'postprocess'))
                    return None
                return _o(*a, **k)
            inner._getCompositionSetsEq = failing
            run.extra_before = before
            run.execute()
        else:
            run = TrajectoryRun(cfg, R, [C03Monitor()], max_steps=cfg['max_steps'])
            run.fault = _make_fault(kind, s, state, run)
            run.fault_active = True
            run.fault_info = {'kind': kind, 'hit': set()}
            run.execute()
        R.observe('fault_runs')
        if state['fired']:
            nfired += 1
            R.observe('faults_fired', state['fired'])
            R.observe('fault_runs_fired')
        if run.error is not None:
            R.observe('fault_runs_ended_by_exception')
    R.info.update({'system': case['system'], 'fault': case['fault'], 'fired_runs': nfired, 'schedules': len(case['schedules'])})
    R.set_nontrivial(nfired > 0)
