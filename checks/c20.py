"""C20 - saved files and surrogates reproduce what they were made from.

Differential monitors over the real save/load code (GenericModel.save/load -> toDict/fromDict of PrecipitateModel,
PrecipitationData, DiffusionModel; StrengthModel.save/load; PopulationBalanceModel.saveRecordedPSD/loadRecordedPSD) and
over the real surrogate classes (kawin/thermo/Surrogate.py).  Nothing in the repository is edited or wrapped: the
oracles compare attributes of the original object with attributes of a *freshly constructed* object of the same
configuration (its own, freshly built thermodynamics object from the TDB string) after load().

Model files (case kinds 'precip', 'diffusion'); one save point after each of 1-3 solve() calls (a call ends by
reaching its end time or at a logical step cap raised from a coupling observer - both are quiescent end-of-step states):
  c20.load_no_exception   save() and load() of a model that has been solved at least once never raise (precipitation,
                          diffusion, strength model, recorded-PSD files); file names with and without '.npz'
  c20.prec_histories      each of the 16 recorded histories of the loaded model is bit-identical (shape, dtype, bytes) to
                          the original's; the step index n is equal
  c20.prec_state          current time and state (getCurrentX), and per phase the distribution, class boundaries, class
                          centres, aspect-ratio array and the grid scalars (min, max, number of classes) are bit-identical
  c20.strength_histories  the three histories of a coupled StrengthModel (rss, ls, solid-solution strength) reloaded into a
                          new StrengthModel are bit-identical
  c20.psd_record_file     (PSD recording on) the per-phase files written by saveRecordedPSD, loaded with loadRecordedPSD into
                          the fresh model's population balance, reproduce recorded times / boundaries / distributions bit for bit
  c20.diff_state          diffusion: current time (value), profile, recorded profiles and recorded times bit-identical;
                          with recording off the recorded arrays of the loaded model are None (or a saved None)

Several save points of ONE run (mech deferred=True): in runs with >= 2 solve calls every save point is additionally saved under a
name that contains dots and differs from the other save points' names only after its last dot (..._723.05K, ..._723.15K; the third
with the .npz suffix when the case uses suffixes); only after the LAST save are the files asserted to exist on disk (name + '.npz')
and each name loaded into a fresh model and compared bit for bit with the snapshot taken when it was saved.

Recording-option histories ("whatever the recording options ... or point between solve calls"): besides recording on / off for
the whole run, cases switch the public recording toggles between solve calls and save afterwards - recorded -> disableRecording
-> solved further -> saved; recorded -> disabled -> saved without another solve; not recorded -> enableRecording -> solved ->
saved; (diffusion only) recorded -> removeRecordedData -> saved.  Every recorded history that exists on the saved model must be
reproduced by the loaded one; None against an array is a difference in either direction.  The mech keys history / flag / arrays
name the history and the state of the switches at the save point.  Precipitation: setPSDrecording toggles; a population balance
that is recording must reproduce its recorded-PSD file; one that was switched off keeps its arrays but saveRecordedPSD is
documented to "do nothing" then (counted: recorded_psd_kept_but_not_written_while_disabled, nothing to compare).

Surrogates (case kind 'surrogate'; BinarySurrogate on Al-Zr, MulticomponentSurrogate on Ni-Al-Cr, MulticomponentSurrogate with
two precipitate phases on Al-Mg-Si, GeneralSurrogate on Fe-Cr-Ni whose two phases FCC_A1 / BCC_A2 both carry mobility data).
Every getter that takes a phase / precPhase argument is exercised with the argument left out AND with every admissible explicit
value (Al-Mg-Si: both precipitate phases; Fe-Cr-Ni: both phases; one-phase families: the first value by name); the Al-Mg-Si
and Fe-Cr-Ni cases train only the first, only the second, or both values, and the mech key 'phase' (default / explicit_first /
explicit_other) says which form failed.  INTERLEAVED phase order (input=interleaved): where two precipitate phases are trained on
one surrogate (Al-Mg-Si, binary Ni-Al) every trained getter is asked phase A then phase B (B-A, A-B-A, and the impingement A/B,
growth A/B pattern of a precipitation step) at the same point, point form and batched, default and explicit phase argument; each
answer must equal THAT phase's training data (original and rebuilt object), and at random points the interleaved answers of the
original must equal those of an independent rebuilt twin that is only ever asked phase by phase.  Query HISTORIES (state=query_history): on one shared backend object every public
pass-through getter of an untrained surrogate is called at a matrix-only (dilute, single-phase) point before anything was computed, at
a two-phase point (successful calculation), again at dilute points with removeCache False / True, after clearCache(), and with default
arguments - for the phase argument left out and for every explicit value - and compared bit for bit with a mirror backend that
received the same sequence (this is where results that a backend remembers from earlier calls, e.g. the impingement factor of the
last successful curvature calculation, must come through).  Training SUBSETS: every case draws which quantities are trained, per phase where the
API is per phase - e.g. interfacial composition (curvature) only, interfacial composition + diffusivity, driving force only,
diffusivity only, and on the two-precipitate systems (binary Ni-Al with FCC_L12 and BCC_B2 from the Ni-Cr-Al test database,
Al-Mg-Si) driving force for one phase and interfacial composition / curvature for the other.  All three clauses are asserted
for every subset: what is not trained (per phase and quantity) passes through bit for bit, what is trained reproduces its
training data, and the surrogate rebuilt from its file equals the original at the training points AND at random points between
them (where a silent fall-back to the thermodynamics shows):
  c20.untrained_passthrough  a getter whose quantity has not been trained (nothing trained; or only the driving force / only
                          another phase trained) returns bit for bit what the thermodynamics object returns for the SAME
                          quantity.  Surrogate and reference use two freshly built backends that receive the identical call
                          sequence (the reference backend is driven through a mirror surrogate where training is involved), so
                          equal inputs give equal bits; outputs must agree in shape and bytes.  Getters: driving force,
                          interfacial composition (binary), curvature factor / growth and interfacial composition /
                          impingement factor (multicomponent), interdiffusivity, tracer diffusivity.
  c20.trained_reproduces  every trained getter, evaluated at its own training inputs (vectorised with the documented array
                          shapes and point by point with the documented scalar / (e,) shapes), returns the stored training
                          outputs: |pred - y| <= 1e-6 * max(|y|, 1e-3 * column maximum)  (statement tolerance; measured worst
                          residual on the unchanged tree ~1e-12, see worst_residuals).  Growth rate / interfacial compositions
                          of a trained curvature surrogate are compared with the same closed formula
                          (_growthRateOutputFromCurvature) applied to the stored training curvature; impingement with stored beta.
  c20.json_rebuild        toJson -> new surrogate on a fresh backend -> fromJson: every trained getter gives the same predictions
                          as the original at the training inputs and at random points inside the training box
                          (1e-9 relative, same scale rule; measured: bit-identical)
  c20.surrogate_no_exception  training on an admissible grid (linear / log, broadcast on / off), querying a trained getter with
                          a documented input shape, toJson and fromJson never raise
Training sets have <= 40 points; grids: linear/log composition axis, broadcast grid or paired points, 1..4 temperatures
(single-axis training included), kernels cubic (default) / linear / thin-plate (all interpolating, normalised inputs).

Seen on the unchanged tree (triaged as genuine, reproducers and one fix diff each in /verif/proposed_fixes/C20-*):
  * diffusion model saved with recording off cannot be loaded (None stored as pickled object array; mech model=diffusion,
    op=load, record=False, exc=ValueError)                                          -> C20-diffusion-load-without-recording
  * untrained getTracerDiffusivity returns the backend's interdiffusivity (mech getter=getTracerDiffusivity, differs=shape)
                                                                                    -> C20-untrained-tracer-returns-interdiffusivity
  * trainInterfacialComposition(broadcast=True) with more than one temperature and more than one gExtra raises ValueError
    (T tiled into a 2-D array; mech op=train, quantity=interfacialComposition, grid=multi_T x multi_g)
                                                                                    -> C20-train-interfacial-composition-broadcast-grid
  * fromJson of a multicomponent surrogate with trained diffusivity raises AttributeError in _fitDiffusivity (list.shape)
                                                                                    -> C20-fromjson-multicomponent-diffusivity
  * trained getInterdiffusivity (multicomponent) / getTracerDiffusivity (both) raise IndexError/AttributeError for the
    documented float, (N,) and (e,) inputs (x.shape[1] of the raw argument)         -> C20-trained-diffusivity-getters-input-shape
  With the five diffs applied the check is silent (quick seeds 0,1,2,3,7; thorough seeds 0,1).
Harness note: the binary backend adds its 1 J/mol offset to the caller's gExtra array in place (C09); every call made by the
monitors therefore receives its own copy of the argument arrays.

Decisions where the statement is silent (NOT asserted, counted as information only):
  * what load() does to things that are not histories / state / distributions: the loaded population balance objects are
    new objects with default bin constraints and recording switched off (pbm_options_reset_by_load), the recorded PSD
    history is not part of the model file (it has its own file, checked by c20.psd_record_file), DiffusionModel.t becomes a
    0-d array (value compared only), internal caches (growth rates, interfacial tables) are not restored.
  * continuing a run after load (DESIGN: out of reach of the statement): observed on a fraction of the cases and reported
    as events continue_after_load_*.
  * StrengthModel.save('name') writes 'name.npz' but load('name') does not append the extension (numpy semantics): counted
    as strength_load_needs_extension; the asserted round trip uses the '.npz' name.
  * a solve() that raises is C03's subject: counted (solve_exception), the save points reached before it are still checked.
  * accuracy of a trained surrogate away from its training points, and kernels that do not interpolate.
"""
import os

import numpy as np

from vlib import core, precip, precip_gen
from vlib.core import StopRun

PROPERTY = 'C20'
LEVEL = 'exploration'
RULE = ('precipitation configurations from the shared generator {binary Al-Zr, binary two-precipitate Cu-Ti, ternary Ni-Al-Cr, 2-3 phase Al-Mg-Si} x PSD recording on/off x '
        '{Euler, RK4} x 1-3 solve calls (each ended by its end time or a step cap, <=150 steps in total) x file name with/without .npz x '
        'recording history {unchanged, on->off->solve, on->off->save, off->on->solve, (diffusion) removed before save}; '
        'diffusion configurations {single phase, homogenization x 5 rules} x {Ni-Cr, Ni-Cr-Al, Fe-Cr-Ni} x recording on/off x 1-3 calls, 8-24 nodes; '
        'surrogate cases {binary Al-Zr, multicomponent Ni-Al-Cr, two-precipitate Al-Mg-Si, two-phase Fe-Cr-Ni} x {linear, log} x {broadcast grid, '
        'paired points} x kernel x grid sizes (<=40 points) x training subset (which quantities for which phase; plus binary Ni-Al with two precipitates) '
        'x phase argument {left out, every explicit value}. '
        'Non-trivial sub-cases (each with its own key): a save point at which some phase has precipitates (density > 0 and a non-zero '
        'distribution) / at which the profile differs from the initial one and >= 3 steps were taken; a surrogate quantity with >= 4 stored '
        'training points whose outputs are not constant, or an untrained getter group that returned finite values')
REQUIRED_MONITORS = ['c20.load_no_exception', 'c20.prec_histories', 'c20.prec_state', 'c20.strength_histories', 'c20.psd_record_file',
                     'c20.diff_state', 'c20.untrained_passthrough', 'c20.trained_reproduces', 'c20.json_rebuild',
                     'c20.surrogate_no_exception']
REACH = ['GenericModel.py:GenericModel.save', 'GenericModel.py:GenericModel.load',
         'precipitation/KWNEuler.py:PrecipitateModel.toDict', 'precipitation/KWNEuler.py:PrecipitateModel.fromDict',
         'precipitation/PrecipitationParameters.py:PrecipitationData.toDict',
         'precipitation/PrecipitationParameters.py:PrecipitationData.fromDict',
         'precipitation/PopulationBalance.py:PopulationBalanceModel.saveRecordedPSD',
         'precipitation/PopulationBalance.py:PopulationBalanceModel.loadRecordedPSD',
         'precipitation/coupling/Strength.py:StrengthModel.save', 'precipitation/coupling/Strength.py:StrengthModel.load',
         'diffusion/Diffusion.py:DiffusionModel.toDict', 'diffusion/Diffusion.py:DiffusionModel.fromDict',
         'thermo/Surrogate.py:RBFKernel.predict', 'thermo/Surrogate.py:GeneralSurrogate.toJson',
         'thermo/Surrogate.py:GeneralSurrogate.fromJson', 'thermo/Surrogate.py:GeneralSurrogate.getDrivingForce',
         'thermo/Surrogate.py:GeneralSurrogate.getInterdiffusivity', 'thermo/Surrogate.py:GeneralSurrogate.getTracerDiffusivity',
         'thermo/Surrogate.py:BinarySurrogate.getInterfacialComposition', 'thermo/Surrogate.py:MulticomponentSurrogate.curvatureFactor',
         'thermo/Surrogate.py:MulticomponentSurrogate.getGrowthAndInterfacialComposition',
         'thermo/Surrogate.py:MulticomponentSurrogate.impingementFactor']
NCASES = {'quick': {'precip': 60, 'diffusion': 36, 'surrogate': 53}, 'thorough': {'precip': 1000, 'diffusion': 540, 'surrogate': 435}}
MIN_NONTRIVIAL = {'quick': 150, 'thorough': 2500}
CASE_TIMEOUT = 600
CASE_TIMEOUT_THOROUGH = 900
MAX_INCONCLUSIVE_FRACTION = 0.0
N_SAMPLES = 6
ASSUMPTIONS = ['"for all configurations / save points / grids" is sampled',
               'bitwise comparison of the untrained getters relies on kawin+pycalphad being deterministic for identical call sequences on '
               'freshly built backends (measured: bit-identical)',
               '"training data" = the inputs/outputs the surrogate stored when it was trained',
               'a save point is any state between two solve() calls, including a call ended by the harness step cap at the end of a step']
MANIFEST = {
    'text': 'Every model (precipitation with coupled strength model, single-phase and homogenization diffusion) is saved after each of 1-3 solve '
            'calls into the scratch directory and loaded into a freshly constructed model of the same configuration with its own thermodynamics '
            'object; all recorded histories, the current state and the per-phase distribution / grid / aspect-ratio arrays are compared bit for bit. '
            'Surrogates: untrained getters are compared bitwise with a twin backend receiving the same call sequence, trained getters with their '
            'stored training data at the training points (1e-6), JSON-rebuilt surrogates with the original at training and random points (1e-9).',
    'note': 'trusted: numpy file format, determinism of the backend for identical call sequences; sampled, not exhaustive',
    'technique': 'differential (saved vs. loaded, surrogate vs. twin backend, original vs. rebuilt) runtime monitor on attributes and query results',
}

TOL_TRAIN = 1e-6
TOL_JSON = 1e-9
FLOOR = 1e-3          # scale floor relative to the column maximum of the training outputs


# ================================================================================================
# helpers

def _scratch():
    d = os.environ.get('KAWIN_VERIF_SCRATCH') or os.path.join(core.VERIF, '.scratch', PROPERTY)
    os.makedirs(d, exist_ok=True)
    return d


def _rm(*paths):
    for p in paths:
        for q in (p, p + '.npz', p + '.json'):
            try:
                if os.path.isfile(q):
                    os.remove(q)
            except OSError:
                pass


def _biteq(a, b):
    """shape, dtype and bytes identical (None only equals None)"""
    if a is None or b is None:
        return a is None and b is None
    a, b = np.asarray(a), np.asarray(b)
    return a.shape == b.shape and a.dtype == b.dtype and a.tobytes() == b.tobytes()


def _describe(a):
    if a is None:
        return None
    a = np.asarray(a)
    return {'shape': list(a.shape), 'dtype': str(a.dtype)}


def _first_diff(a, b):
    try:
        a, b = np.asarray(a, dtype=float), np.asarray(b, dtype=float)
        if a.shape != b.shape:
            return {'shapes': [list(a.shape), list(b.shape)]}
        d = np.flatnonzero(~((a.ravel() == b.ravel()) | (np.isnan(a.ravel()) & np.isnan(b.ravel()))))
        if d.size == 0:
            return {'values_equal': True, 'dtypes': [str(np.asarray(a).dtype), str(np.asarray(b).dtype)]}
        i = int(d[0])
        return {'n_different': int(d.size), 'first_index': i, 'original': float(a.ravel()[i]), 'loaded': float(b.ravel()[i])}
    except Exception as e:          # diagnostic only
        return {'undescribable': repr(e)[:100]}


def _cp(a):
    return None if a is None else np.array(a, copy=True)


def _dotted_name(scratch, case, i, stem):
    """save-point names of ONE run that contain dots and differ only after their last dot (e.g. ..._723.05K, ..._723.15K); the first two
    never carry the .npz suffix, the third does when the case uses suffixes"""
    name = os.path.join(scratch, 'c20_%d_%d_%s_723.%d5K' % (os.getpid(), case['idx'], stem, i))
    return name + ('.npz' if (i >= 2 and case.get('ext')) else '')


def _deferred_files(R, names, mech):
    """every given name (+ '.npz' unless it already ends with it) is a file of its own on disk"""
    for i, name in names:
        path = name if name.endswith('.npz') else name + '.npz'
        R.check('c20.load_no_exception', os.path.isfile(path), dict(mech, op='file_present', deferred=True), save_point=i, expected=os.path.basename(path),
                present=sorted(f for f in os.listdir(os.path.dirname(path)) if f.startswith(os.path.basename(name).split('_723.')[0])))


def _deck(rng, options, n):
    idx = np.resize(np.arange(len(options)), n)
    return [options[int(i)] for i in rng.permutation(idx)]


def _loguniform(rng, lo, hi):
    return float(np.exp(rng.uniform(np.log(lo), np.log(hi))))


# ================================================================================================
# plan

DIFF_SYSTEMS = {
    'NiCr': {'elements': ['NI', 'CR'], 'db': 'NICRAL_TDB',
             'win': {'single': {'CR': (0.03, 0.40)}, 'homog': {'CR': (0.05, 0.55)}}},
    'NiCrAl': {'elements': ['NI', 'CR', 'AL'], 'db': 'NICRAL_TDB',
               'win': {'single': {'CR': (0.03, 0.35), 'AL': (0.02, 0.14)}, 'homog': {'CR': (0.03, 0.45), 'AL': (0.02, 0.20)}}},
    'FeCrNi': {'elements': ['FE', 'CR', 'NI'], 'db': 'FECRNI_DB',
               'win': {'single': {'CR': (0.05, 0.40), 'NI': (0.03, 0.30)}, 'homog': {'CR': (0.05, 0.45), 'NI': (0.03, 0.35)}}},
}
HFUNCS = ['wiener upper', 'wiener lower', 'hashin upper', 'hashin lower', 'lab']
KERNELS = [{'kernel': 'cubic', 'normalize': True}, {'kernel': 'cubic', 'normalize': True},
           {'kernel': 'linear', 'normalize': True}, {'kernel': 'thin_plate_spline', 'normalize': True}]


RECORD_HISTORIES = ['none', 'none', 'on_off_solve', 'on_off_save', 'off_on_solve', 'on_off_solve', 'off_on_solve', 'removed_before_save']


def _record_history(rng, name, nc):
    """recording-option history of one case -> (initial flag or None = keep the deck value, number of calls, per call [action before
    the solve call, action after it (before the save point)]); actions: 'on' / 'off' / 'remove'"""
    if name in ('on_off_solve', 'off_on_solve'):
        nc = max(nc, 2)
    tog = [[None, None] for _ in range(nc)]
    if name == 'none':
        return None, nc, tog
    if name == 'on_off_solve':        # recorded, switched off between two solve calls, solved further
        tog[int(rng.integers(1, nc))][0] = 'off'
        return True, nc, tog
    if name == 'on_off_save':         # recorded, switched off after a solve call, saved without solving further
        tog[int(rng.integers(0, nc))][1] = 'off'
        return True, nc, tog
    if name == 'off_on_solve':        # not recorded at first, switched on between two solve calls
        tog[int(rng.integers(1, nc))][0] = 'on'
        return False, nc, tog
    tog[nc - 1][1] = 'remove'         # 'removed_before_save': recorded data removed by the user before the last save point
    return True, nc, tog


def _plan_precip(rng, n, tier):
    n_cuti = 6 if tier == 'quick' else 100        # binary Cu-Ti with TWO precipitate phases (one interfacial table per phase)
    D = {'system': _deck(rng, ['alzr', 'nialcr', 'almgsi'], n - n_cuti) + ['cuti'] * n_cuti, 'record': _deck(rng, [True, False], n),
         'iterator': _deck(rng, ['euler', 'euler', 'rk4'], n), 'ncalls': _deck(rng, [1, 2, 3, 3, 2], n),
         'ext': _deck(rng, [True, False], n), 'hist': _deck(rng, RECORD_HISTORIES[:7], n)}
    cases = []
    for i in range(n):
        system, it = D['system'][i], D['iterator'][i]
        cfg = precip_gen.gen_config(rng, system=system, tier=tier, allow_noniso=(system not in ('alzr', 'cuti')), grid_class='in_range',
                                    sites=['bulk', 'dislocations', 'dislocations', 'grain boundaries'], iterator=it, max_steps=150)
        flag, nc, toggles = _record_history(rng, D['hist'][i], D['ncalls'][i])
        cfg['recordPSD'] = bool(D['record'][i]) if flag is None else flag
        cons = dict(cfg.get('constraints') or {})
        cons['dtScale'] = 0.3
        cfg['constraints'] = cons
        cfg.pop('segments', None)
        # nucleation within the step budget: keep the site densities at the upper end of the generator's range
        cfg['dislocationDensity'] = _loguniform(rng, 1e14, 1e15)
        if system == 'alzr':
            cfg['x0'] = [_loguniform(rng, 4e-3, 7e-3)]
            if cfg['schedule']['kind'] == 'iso':
                cfg['schedule']['T'] = float(rng.uniform(700, 770))
        # radius dependent aspect ratio for some shaped phases (aspect-ratio arrays that vary from class to class)
        arf = {}
        for p, s in (cfg.get('shape') or {}).items():
            if rng.random() < 0.5:
                arf[p] = {'a': float(s['ar']), 'b': float(rng.uniform(0.05, 0.3) * 1e9)}
        cfg['ar_func'] = arf
        total = 150 if it == 'euler' else 80
        w = rng.dirichlet(np.ones(nc) * 4.0)
        calls = []
        for j in range(nc):
            steps = max(8, int(total * w[j]))
            if rng.random() < 0.45:
                lo, hi = {'alzr': (1.0, 200.0), 'nialcr': (0.02, 5.0), 'almgsi': (50.0, 2e4), 'cuti': (1.0, 500.0)}[system]
                calls.append({'mode': 'natural', 'steps': steps, 'factor': float(_loguniform(rng, 0.3, 4.0)),
                              'first': float(_loguniform(rng, lo, hi))})
            else:
                calls.append({'mode': 'cap', 'steps': steps})
        ssw = {}
        for e in cfg['solutes']:
            if rng.random() < 0.7:
                ssw[e] = float(_loguniform(rng, 1e6, 1e9))
        cases.append({'kind': 'precip', 'cfg': cfg, 'calls': calls, 'history': D['hist'][i], 'toggles': toggles, 'ext': bool(D['ext'][i]), 'ssweights': ssw,
                      'ssexp': float(rng.choice([1.0, 2.0 / 3.0])), 'probe_continue': bool(rng.random() < 0.25),
                      'weight': (1.0 if it == 'euler' else 2.0) * (1.5 if system == 'almgsi' else 1.0) * 6.0})
    return cases


def _plan_diffusion(rng, n, tier):
    D = {'model': _deck(rng, ['single', 'homog'], n), 'system': _deck(rng, ['NiCr', 'NiCrAl', 'FeCrNi'], n),
         'record': _deck(rng, [True, False], n), 'ncalls': _deck(rng, [1, 2, 3], n),
         'iterator': _deck(rng, ['euler', 'rk4'], n), 'hfunc': _deck(rng, HFUNCS, n), 'ext': _deck(rng, [True, False], n),
         'hist': _deck(rng, RECORD_HISTORIES, n)}
    cases = []
    for i in range(n):
        model, system = D['model'][i], D['system'][i]
        els = DIFF_SYSTEMS[system]['elements'][1:]
        win = DIFF_SYSTEMS[system]['win'][model]
        N = int(rng.integers(8, 25 if tier == 'thorough' else 17))
        L = float(10 ** rng.uniform(-4.5, -2.7))
        prof = {}
        for e in els:
            lo, hi = win[e]
            a, b = float(rng.uniform(lo, hi)), float(rng.uniform(lo, hi))
            if rng.random() < 0.5:
                prof[e] = {'kind': 'linear', 'L': a, 'R': b}
            else:
                prof[e] = {'kind': 'step', 'L': a, 'R': b, 'u': float(rng.uniform(0.25, 0.75))}
        bc = {}
        if rng.random() < 0.35:
            e = els[int(rng.integers(0, len(els)))]
            bc[e] = {'side': str(rng.choice(['L', 'R'])), 'value': float(rng.uniform(*win[e]))}
        T0 = float(rng.uniform(1273.0, 1473.0))
        if rng.random() < 0.3:
            T = {'kind': 'array', 'frac': [0.0, float(rng.uniform(0.3, 1.2))], 'temps': [T0, float(T0 + rng.uniform(-50, 50))]}
        else:
            T = {'kind': 'const', 'T': T0}
        flag, nc, toggles = _record_history(rng, D['hist'][i], D['ncalls'][i])
        it = D['iterator'][i]
        c = {'kind': 'diffusion', 'model': model, 'system': system, 'N': N, 'zlim': [-0.5 * L, 0.5 * L], 'profiles': prof, 'bc': bc,
             'T': T, 'record': bool(D['record'][i]) if flag is None else flag, 'history': D['hist'][i], 'toggles': toggles, 'iterator': it, 'ext': bool(D['ext'][i]),
             'calls': [int(rng.integers(5, 22 if it == 'euler' else 12)) for _ in range(nc)],
             'use_cache': bool(rng.random() < 0.7), 'probe_continue': bool(rng.random() < 0.25)}
        if model == 'homog':
            c['hfunc'] = D['hfunc'][i]
            c['eps'] = float(np.round(rng.uniform(0.01, 0.05), 4))
        c['weight'] = 3.0 * (2.0 if model == 'homog' else 1.0) * (2.0 if it == 'rk4' else 1.0)
        cases.append(c)
    return cases


# training subsets: (quantities per admissible precPhase value, trained diffusivity phases); Q2 = interfacial composition (binary) / curvature
def _subsets(fam, q2):
    DF, ALL = ['drivingForce'], ['drivingForce', q2]
    if fam in ('binary', 'multi'):
        return [([ALL], [0]), ([[q2]], []), ([[q2]], [0]), ([DF], [0]), ([ALL], []), ([[]], [0]), ([DF], []), ([[q2]], [])]
    if fam in ('binary2', 'multiphase'):
        return [([DF, [q2]], [0]), ([[q2], DF], []), ([[q2], []], [0]), ([[], [q2]], []), ([ALL, ALL], [0]), ([[q2], [q2]], []),
                ([ALL, []], []), ([[], ALL], [0]), ([[], DF], [])]
    return [([], [1]), ([], [0, 1]), ([], [0])]                  # fecrni: only the second, both, only the first phase


def _plan_surrogate(rng, n, tier):
    # Al-Mg-Si (two precipitate phases), Fe-Cr-Ni (two phases with mobilities), binary Ni-Al (two precipitate phases)
    n_mp, n_fe, n_b2 = (6, 6, 9) if tier == 'quick' else (36, 45, 54)
    fams = _deck(rng, ['binary', 'multi'], n - n_mp - n_fe - n_b2) + ['multiphase'] * n_mp + ['fecrni'] * n_fe + ['binary2'] * n_b2
    m = len(fams)
    D = {'logX': _deck(rng, [False, True], m), 'broadcast': _deck(rng, [True, False], m), 'kernel': _deck(rng, KERNELS, m),
         'nT': _deck(rng, [1, 2, 3, 2, 3], m)}
    count = {}
    cases = []
    for i, fam in enumerate(fams):
        bc = D['broadcast'][i]
        nT = D['nT'][i]
        if bc:
            nx = int(rng.integers(3, 8)) if nT > 1 else int(rng.integers(4, 9))
            if nT >= 3 and rng.random() < 0.2:
                nx = 1                         # single composition, temperature axis only
            while nx * nT > 40:
                nx -= 1
            npts = None
        else:
            nx, npts = None, int(rng.integers(6, 16))
        subs = _subsets(fam, 'interfacialComposition' if fam in ('binary', 'binary2') else 'curvature')
        k = count.get(fam, 0)
        count[fam] = k + 1
        prec, diff = subs[k % len(subs)]
        cases.append({'kind': 'surrogate', 'family': fam, 'logX': bool(D['logX'][i]), 'broadcast': bool(bc),
                      'kernel': dict(D['kernel'][i]), 'nT': int(nT), 'nx': nx, 'npts': npts,
                      'ng': int(rng.integers(3, 7)), 'train': {'prec': [list(q) for q in prec], 'diff': list(diff)},
                      'weight': {'binary': 5.0, 'multi': 10.0, 'multiphase': 8.0, 'fecrni': 5.0, 'binary2': 12.0}[fam]})
    return cases


def plan(tier, seed):
    n = NCASES[tier]
    out = []
    for j, (kind, f) in enumerate((('precip', _plan_precip), ('diffusion', _plan_diffusion), ('surrogate', _plan_surrogate))):
        rng = np.random.default_rng(np.random.SeedSequence([int(seed) & 0xFFFFFFFF, 20, j, 1 if tier == 'thorough' else 0]))
        out += f(rng, n[kind], tier)
    return out


# ================================================================================================
# precipitation models

def _build_precip(cfg):
    th = precip.make_therm(cfg['system'], cfg['phases'])
    model = precip.build_model(cfg, th)
    for p, f in (cfg.get('ar_func') or {}).items():
        a, b = f['a'], f['b']
        model.setPrecipitateShape(cfg['shape'][p]['name'], phase=p, ratio=(lambda R, a=a, b=b: a + b * np.asarray(R)))
    return model


def _run_precip(case, R):
    from kawin.precipitation.coupling import StrengthModel
    cfg = case['cfg']
    scratch = _scratch()
    try:
        model = _build_precip(cfg)
    except ValueError as e:
        R.observe('rejected_config')
        R.info['rejected'] = str(e)[:200]
        return
    sm = StrengthModel()
    if case['ssweights']:
        sm.setSolidSolutionStrength(dict(case['ssweights']), case['ssexp'])
    model.addCouplingModel(sm)                 # first: updated on the capping step as well
    obs = precip.StepObserver(None, max_steps=None)
    model.addCouplingModel(obs)
    mech0 = {'model': 'precipitation', 'system': cfg['system'], 'recordPSD': bool(cfg.get('recordPSD')), 'nphases': len(cfg['phases']),
             'history': case.get('history', 'none')}
    R.info.update({'system': cfg['system'], 'phases': cfg['phases'], 'recordPSD': bool(cfg.get('recordPSD')), 'iterator': cfg['iterator'],
                   'history': case.get('history', 'none'), 'save_points': []})
    toggles = case.get('toggles') or [[None, None]] * len(case['calls'])

    def toggle(action):
        if action is not None:
            model.setPSDrecording(action == 'on')
            R.observe('psd_recording_switched_' + action)
    total_steps = 0
    deferred = []
    for i, call in enumerate(case['calls']):
        toggle(toggles[i][0])
        obs.steps, obs.max_steps, obs.capped = 0, int(call['steps']), False
        t_now = float(model.pData.time[model.pData.n])
        if call['mode'] == 'cap':
            dur = 1e7
        else:
            dur = call['first'] if t_now == 0 else call['factor'] * t_now
        capped = False
        try:
            model.solve(dur, solverType=precip.solver_type(cfg['iterator']))
        except StopRun:
            capped = True
        except Exception as e:                 # C03's subject
            R.observe('solve_exception')
            R.info['solve_exception'] = repr(e)[:200]
            break
        total_steps += obs.steps
        R.observe('steps', obs.steps)
        R.observe('save_points_after_capped_call' if capped else 'save_points_after_completed_call')
        toggle(toggles[i][1])
        nt = _check_precip_save_point(case, R, model, sm, i, mech0, scratch)
        if len(case['calls']) >= 2:
            name = _dotted_name(scratch, case, i, 'prec')
            try:
                model.save(name)
                deferred.append((i, name, {'hist': {k: _cp(getattr(model.pData, k)) for k in precip.HISTORIES}, 'n': int(model.pData.n),
                                           'pbm': [{a: _cp(getattr(pb, a)) for a in ('PSD', 'PSDbounds', 'PSDsize')} for pb in model.PBM],
                                           'ar': [_cp(a) for a in model.eqAspectRatio]}))
            except Exception as e:
                R.exception('c20.load_no_exception', e, dict(mech0, op='save', deferred=True))
        R.info['save_points'].append({'call': i, 'steps': obs.steps, 'capped': capped, 't': float(model.pData.time[model.pData.n]),
                                      'density': model.pData.precipitateDensity[model.pData.n], 'bins': [int(p.bins) for p in model.PBM],
                                      'nontrivial': nt})
        if nt:
            R.add_nontrivial('precip-%s-call%d' % (core.case_hash(cfg), i))
    # ---- several save points of this run under dotted names: all loaded back only now, each compared with its own snapshot
    if deferred:
        md = dict(mech0, deferred=True)
        try:
            _deferred_files(R, [(i, name) for i, name, _ in deferred], md)
            for i, name, snap in deferred:
                fresh = _build_precip(cfg)
                try:
                    fresh.load(name)
                except Exception as e:
                    R.exception('c20.load_no_exception', e, dict(md, op='load'))
                    continue
                R.count('c20.load_no_exception')
                for k in precip.HISTORIES:
                    a, b = snap['hist'][k], getattr(fresh.pData, k, None)
                    R.check('c20.prec_histories', _biteq(a, b), dict(md, attr=k), save_point=i, original=_describe(a), loaded=_describe(b),
                            diff=_first_diff(a, b) if b is not None else None)
                R.check('c20.prec_histories', int(fresh.pData.n) == snap['n'], dict(md, attr='n'), save_point=i, original=snap['n'], loaded=int(fresh.pData.n))
                for p, ph in enumerate(model.phases):
                    for a_ in ('PSD', 'PSDbounds', 'PSDsize'):
                        a, b = snap['pbm'][p][a_], getattr(fresh.PBM[p], a_, None)
                        R.check('c20.prec_state', _biteq(a, b), dict(md, attr=a_), save_point=i, phase=str(ph), original=_describe(a), loaded=_describe(b),
                                diff=_first_diff(a, b) if b is not None else None)
                    R.check('c20.prec_state', _biteq(snap['ar'][p], fresh.eqAspectRatio[p]), dict(md, attr='eqAspectRatio'), save_point=i, phase=str(ph))
        finally:
            _rm(*[name for _, name, _ in deferred])
        R.observe('deferred_save_points', len(deferred))
    R.set_nontrivial(False)


def _check_precip_save_point(case, R, model, sm, i, mech0, scratch):
    from kawin.precipitation.coupling import StrengthModel
    cfg = case['cfg']
    base = os.path.join(scratch, 'c20_%d_%d_%d' % (os.getpid(), case['idx'], i))
    fn = base + '_prec' + ('.npz' if case['ext'] else '')
    m1 = dict(mech0, filename='with_extension' if case['ext'] else 'without_extension')
    n = int(model.pData.n)
    dens = np.asarray(model.pData.precipitateDensity[n], dtype=float)
    nontrivial = bool(np.any(dens > 0)) and any(np.any(np.asarray(p.PSD) != 0) for p in model.PBM)
    try:
        # ---------------------------------------------------------------- model file
        try:
            model.save(fn)
        except Exception as e:
            R.exception('c20.load_no_exception', e, dict(m1, op='save'))
            return False
        fresh = _build_precip(cfg)
        try:
            fresh.load(fn)
        except Exception as e:
            R.exception('c20.load_no_exception', e, dict(m1, op='load'))
            return False
        R.count('c20.load_no_exception')
        for name in precip.HISTORIES:
            a, b = getattr(model.pData, name), getattr(fresh.pData, name, None)
            R.check('c20.prec_histories', _biteq(a, b), dict(mech0, attr=name), save_point=i, original=_describe(a), loaded=_describe(b),
                    diff=_first_diff(a, b) if b is not None else None)
        R.check('c20.prec_histories', int(fresh.pData.n) == n, dict(mech0, attr='n'), original=n, loaded=int(fresh.pData.n))
        tA, XA = model.getCurrentX()
        try:
            tB, XB = fresh.getCurrentX()
        except Exception as e:
            R.exception('c20.prec_state', e, dict(mech0, attr='getCurrentX'))
            tB, XB = None, None
        if XB is not None:
            R.check('c20.prec_state', _biteq(np.float64(tA), np.float64(tB)), dict(mech0, attr='currentTime'), original=tA, loaded=tB)
            R.check('c20.prec_state', len(XA) == len(XB) and all(_biteq(a, b) for a, b in zip(XA, XB)), dict(mech0, attr='currentX'))
        for p, ph in enumerate(model.phases):
            A, B = model.PBM[p], fresh.PBM[p]
            for attr in ('PSD', 'PSDbounds', 'PSDsize'):
                a, b = getattr(A, attr), getattr(B, attr, None)
                R.check('c20.prec_state', _biteq(a, b), dict(mech0, attr=attr), phase=str(ph), save_point=i, original=_describe(a),
                        loaded=_describe(b), diff=_first_diff(a, b) if b is not None else None)
            a, b = model.eqAspectRatio[p], fresh.eqAspectRatio[p]
            R.check('c20.prec_state', _biteq(a, b), dict(mech0, attr='eqAspectRatio'), phase=str(ph), original=_describe(a), loaded=_describe(b),
                    diff=_first_diff(a, b) if (a is not None and b is not None) else None)
            for attr in ('min', 'max', 'bins'):
                a, b = getattr(A, attr), getattr(B, attr, None)
                R.check('c20.prec_state', b is not None and float(a) == float(b), dict(mech0, attr='grid.' + attr), phase=str(ph), original=a, loaded=b)
            # information only: options of the population balance that the file does not carry
            if (A.minBins, A.maxBins, A._adaptiveBinSize, A._record) != (B.minBins, B.maxBins, B._adaptiveBinSize, B._record):
                R.observe('pbm_options_reset_by_load')
        # ---------------------------------------------------------------- strength model
        if sm.rss is not None:
            fs = base + '_str.npz'
            ms = {'model': 'strength', 'system': cfg['system']}
            ok = True
            try:
                sm.save(fs, compressed=bool(i % 2))
            except Exception as e:
                R.exception('c20.load_no_exception', e, dict(ms, op='save'))
                ok = False
            sm2 = StrengthModel()
            if ok:
                try:
                    sm2.load(fs)
                except Exception as e:
                    R.exception('c20.load_no_exception', e, dict(ms, op='load'))
                    ok = False
            if ok:
                R.count('c20.load_no_exception')
                for attr in ('rss', 'ls', 'solidStrength'):
                    a, b = getattr(sm, attr), getattr(sm2, attr)
                    R.check('c20.strength_histories', _biteq(a, b), dict(ms, attr=attr), original=_describe(a), loaded=_describe(b),
                            diff=_first_diff(a, b))
                if i == 0:                     # information: same name without extension
                    try:
                        sm.save(base + '_strx')
                        StrengthModel().load(base + '_strx')
                    except Exception:
                        R.observe('strength_load_needs_extension')
        # ---------------------------------------------------------------- recorded PSD files
        # every recorded PSD history that exists on the saved model: a population balance that is recording writes its file
        # (compared bit for bit); one whose recording is switched off keeps its arrays but saveRecordedPSD documents that it
        # "will do nothing" then - counted (recorded_psd_kept_but_not_written_while_disabled), nothing to compare
        recording = [bool(pb._record) for pb in model.PBM]
        kept = [pb._recordedPSD is not None for pb in model.PBM]
        if any(kept):
            R.observe('psd_history_not_in_model_file')
        if any(k and not r for k, r in zip(kept, recording)):
            R.observe('recorded_psd_kept_but_not_written_while_disabled')
        if any(recording):
            mr = {'model': 'recorded_psd', 'system': cfg['system'], 'history': case.get('history', 'none')}
            try:
                model.saveRecordedPSD(base + '_psd', compressed=bool((i + 1) % 2))
                for p, ph in enumerate(model.phases):
                    if recording[p]:
                        fresh.PBM[p].loadRecordedPSD(base + '_psd_' + str(ph) + '.npz')
                R.count('c20.load_no_exception')
            except Exception as e:
                R.exception('c20.load_no_exception', e, dict(mr, op='save_load'))
            else:
                for p, ph in enumerate(model.phases):
                    if not recording[p]:
                        continue
                    for attr in ('_recordedTime', '_recordedBins', '_recordedPSD'):
                        a, b = getattr(model.PBM[p], attr), getattr(fresh.PBM[p], attr)
                        R.check('c20.psd_record_file', _biteq(a, b), dict(mr, attr=attr), phase=str(ph), original=_describe(a),
                                loaded=_describe(b), diff=_first_diff(a, b) if (a is not None and b is not None) else None)
        # ---------------------------------------------------------------- information: continuing after load
        if case.get('probe_continue') and i == len(case['calls']) - 1:
            n0 = float(sum(np.sum(np.asarray(p.PSD)) for p in fresh.PBM))
            try:
                cap = precip.StepObserver(None, max_steps=3)
                fresh.addCouplingModel(cap)
                try:
                    fresh.solve(max(1e-3, 0.05 * float(model.pData.time[n])), solverType=precip.solver_type(cfg['iterator']))
                except StopRun:
                    pass
                R.observe('continue_after_load_ran')
                if n0 > 0 and len(fresh.pData.time) > n + 1 and float(np.sum(fresh.pData.precipitateDensity[n + 1])) < 0.5 * n0:
                    R.observe('continue_after_load_distribution_restarted_empty')
                if any(not _biteq(getattr(model.pData, k)[n], getattr(fresh.pData, k)[n]) for k in precip.HISTORIES):
                    R.observe('continue_after_load_rewrote_last_history_row')
            except Exception:
                R.observe('continue_after_load_raised')
    finally:
        _rm(fn, base + '_prec', base + '_str.npz', base + '_strx', base + '_strx.npz')
        for ph in model.phases:
            _rm(base + '_psd_' + str(ph) + '.npz')
    return nontrivial


# ================================================================================================
# diffusion models

def _build_diffusion(case, ttot=None):
    from kawin.thermo import GeneralThermodynamics
    from kawin.diffusion import SinglePhaseModel, HomogenizationModel
    from kawin.diffusion.DiffusionParameters import CompositionProfile, BoundaryConditions, TemperatureParameters
    from kawin.diffusion.HomogenizationParameters import HomogenizationParameters
    import kawin.tests.datasets as ds
    s = DIFF_SYSTEMS[case['system']]
    els_all = s['elements']
    therm = GeneralThermodynamics(getattr(ds, s['db']), els_all, ['FCC_A1', 'BCC_A2'])     # from the TDB string: a fresh database
    zL, zR = case['zlim']
    cp = CompositionProfile()
    for e, p in case['profiles'].items():
        if p['kind'] == 'linear':
            cp.addLinearCompositionStep(e, p['L'], p['R'])
        else:
            cp.addStepCompositionStep(e, p['L'], p['R'], zL + p['u'] * (zR - zL))
    bc = BoundaryConditions()
    for e, b in case['bc'].items():
        bc.setBoundaryCondition(BoundaryConditions.LEFT if b['side'] == 'L' else BoundaryConditions.RIGHT,
                                BoundaryConditions.COMPOSITION_BC, b['value'], e)
    T = case['T']
    if T['kind'] == 'const' or ttot is None:
        tp = TemperatureParameters(T['T'] if T['kind'] == 'const' else T['temps'][0])
    else:
        tp = TemperatureParameters([f * ttot / 3600.0 for f in T['frac']], list(T['temps']))
    kw = dict(thermodynamics=therm, compositionProfile=cp, boundaryConditions=bc, temperatureParameters=tp, record=case['record'])
    if case['model'] == 'single':
        m = SinglePhaseModel([zL, zR], case['N'], els_all, ['FCC_A1'], **kw)
    else:
        hp = HomogenizationParameters(case['hfunc'], eps=case['eps'])
        m = HomogenizationModel([zL, zR], case['N'], els_all, ['FCC_A1', 'BCC_A2'], homogenizationParameters=hp, **kw)
        m.constraints.maxCompositionChange = 0.002
    if not case['use_cache']:
        m.useCache(False)
    return m


def _none_like(a):
    if a is None:
        return True
    a = np.asarray(a)
    return a.dtype == object and a.shape == () and a.item() is None


def _run_diffusion(case, R):
    scratch = _scratch()
    it = precip.solver_type(case['iterator'])
    # the model's own first step size (probe object, discarded) fixes the durations
    probe = _build_diffusion(case)
    try:
        probe.setup()
        t, x = probe.getCurrentX()
        dt0 = float(probe.getDt(probe.getdXdt(t, x)))
    except Exception as e:             # the library cannot evaluate this configuration at all: not this property's subject
        R.observe('rejected_config')
        R.info['rejected'] = repr(e)[:200]
        return
    if not np.isfinite(dt0) or dt0 <= 0:
        R.observe('rejected_config')
        return
    ttot = dt0 * sum(case['calls'])
    model = _build_diffusion(case, ttot)
    obs = precip.StepObserver(None, max_steps=None)
    model.addCouplingModel(obs)
    mech0 = {'model': 'diffusion', 'kind': case['model'], 'record': bool(case['record']), 'history': case.get('history', 'none')}
    R.info.update({'model': case['model'], 'system': case['system'], 'record': case['record'], 'history': case.get('history', 'none'),
                   'save_points': []})
    toggles = case.get('toggles') or [[None, None]] * len(case['calls'])

    def toggle(action):
        # the public recording switches; enableRecording starts a new history, disableRecording keeps what was recorded
        if action == 'on':
            model.enableRecording()
        elif action == 'off':
            model.disableRecording()
        elif action == 'remove':
            model.removeRecordedData()
        if action is not None:
            R.observe('recording_switched_' + action)
    deferred = []
    for i, nsteps in enumerate(case['calls']):
        toggle(toggles[i][0])
        obs.steps, obs.max_steps, obs.capped = 0, 4 * int(nsteps) + 10, False
        try:
            model.solve(dt0 * nsteps, solverType=it)
        except StopRun:
            R.observe('save_points_after_capped_call')
        except Exception as e:
            R.observe('solve_exception')
            R.info['solve_exception'] = repr(e)[:200]
            break
        R.observe('steps', obs.steps)
        toggle(toggles[i][1])
        # structural state of the recording options at the save point (part of the failing mechanism)
        mech0 = dict(mech0, flag=bool(model._record), arrays='present' if model._recordedX is not None else 'none')
        m1 = dict(mech0, filename='with_extension' if case['ext'] else 'without_extension')
        base = os.path.join(scratch, 'c20_%d_%d_%d_diff' % (os.getpid(), case['idx'], i))
        fn = base + ('.npz' if case['ext'] else '')
        if len(case['calls']) >= 2:
            name = _dotted_name(scratch, case, i, 'diff')
            try:
                model.save(name)
                deferred.append((i, name, {'t': float(model.t), 'x': _cp(model.x), '_recordedX': _cp(model._recordedX),
                                           '_recordedTime': _cp(model._recordedTime), 'mech': dict(mech0, deferred=True)}))
            except Exception as e:
                R.exception('c20.load_no_exception', e, dict(mech0, op='save', deferred=True))
        try:
            try:
                model.save(fn)
            except Exception as e:
                R.exception('c20.load_no_exception', e, dict(m1, op='save'))
                continue
            fresh = _build_diffusion(case, ttot)
            try:
                fresh.load(fn)
            except Exception as e:
                R.exception('c20.load_no_exception', e, dict(m1, op='load'))
                continue
            R.count('c20.load_no_exception')
            try:
                tb = float(fresh.t)
            except Exception:
                tb = None
            R.check('c20.diff_state', tb is not None and _biteq(np.float64(model.t), np.float64(tb)), dict(mech0, attr='t'),
                    original=float(model.t), loaded=tb)
            R.check('c20.diff_state', _biteq(model.x, fresh.x), dict(mech0, attr='x'), original=_describe(model.x), loaded=_describe(fresh.x),
                    diff=_first_diff(model.x, fresh.x))
            for attr in ('_recordedX', '_recordedTime'):
                a, b = getattr(model, attr), getattr(fresh, attr)
                if a is None:
                    R.check('c20.diff_state', _none_like(b), dict(mech0, attr=attr, expected='none'), loaded=_describe(b))
                else:
                    R.check('c20.diff_state', _biteq(a, b), dict(mech0, attr=attr), original=_describe(a), loaded=_describe(b),
                            diff=_first_diff(a, b) if b is not None else None)
            finite = bool(np.all(np.isfinite(model.x)))
            ref = probe.x                      # initial profile after setup (probe object of the same configuration)
            changed = finite and float(np.max(np.abs(np.asarray(model.x) - np.asarray(ref)))) > 1e-9
            nt = changed and obs.steps >= 3
            R.info['save_points'].append({'call': i, 'steps': obs.steps, 't': float(model.t), 'nontrivial': nt,
                                          'recorded': None if model._recordedTime is None else int(len(model._recordedTime))})
            if nt:
                R.add_nontrivial('diff-%s-call%d' % (core.case_hash({k: v for k, v in case.items() if k not in ('idx', 'seed')}), i))
            if case.get('probe_continue') and i == len(case['calls']) - 1:
                try:
                    cap = precip.StepObserver(None, max_steps=2)
                    fresh.addCouplingModel(cap)
                    try:
                        fresh.solve(dt0 * 2, solverType=it)
                    except StopRun:
                        pass
                    R.observe('continue_after_load_ran')
                except Exception:
                    R.observe('continue_after_load_raised')
        finally:
            _rm(fn, base)
    # ---- several save points of this run under dotted names: all loaded back only now, each compared with its own snapshot
    if deferred:
        try:
            _deferred_files(R, [(i, name) for i, name, _ in deferred], dict(mech0, deferred=True))
            for i, name, snap in deferred:
                md = snap['mech']
                fresh = _build_diffusion(case, ttot)
                try:
                    fresh.load(name)
                except Exception as e:
                    R.exception('c20.load_no_exception', e, dict(md, op='load'))
                    continue
                R.count('c20.load_no_exception')
                try:
                    tb = float(fresh.t)
                except Exception:
                    tb = None
                R.check('c20.diff_state', tb is not None and _biteq(np.float64(snap['t']), np.float64(tb)), dict(md, attr='t'), save_point=i,
                        original=snap['t'], loaded=tb)
                R.check('c20.diff_state', _biteq(snap['x'], fresh.x), dict(md, attr='x'), save_point=i, diff=_first_diff(snap['x'], fresh.x))
                for attr in ('_recordedX', '_recordedTime'):
                    a, b = snap[attr], getattr(fresh, attr)
                    ok = _none_like(b) if a is None else _biteq(a, b)
                    R.check('c20.diff_state', ok, dict(md, attr=attr), save_point=i, original=_describe(a), loaded=_describe(b))
        finally:
            _rm(*[name for _, name, _ in deferred])
        R.observe('deferred_save_points', len(deferred))
    R.set_nontrivial(False)


# ================================================================================================
# surrogates

def _flat(out):
    """getter output -> list of float arrays (None stays None)"""
    if out is None:
        return None
    if isinstance(out, tuple):
        return [np.asarray(o, dtype=float) for o in out]
    return [np.asarray(out, dtype=float)]


def _same_bits(a, b):
    fa, fb = _flat(a), _flat(b)
    if fa is None or fb is None:
        return fa is None and fb is None
    return len(fa) == len(fb) and all(_biteq(u, v) for u, v in zip(fa, fb))


def _err(pred, ref, scale):
    """max |pred-ref| / max(|ref|, FLOOR*scale) over the finite reference entries; shapes must agree after squeezing (inf otherwise)"""
    pred, ref = np.squeeze(np.asarray(pred, dtype=float)), np.squeeze(np.asarray(ref, dtype=float))
    if pred.shape != ref.shape:
        return float('inf')
    if ref.size == 0:
        return 0.0
    sc = np.squeeze(np.asarray(scale, dtype=float))
    try:
        sc = np.broadcast_to(sc, ref.shape)
    except ValueError:
        sc = np.full(ref.shape, float(np.max(sc)))
    ok = np.isfinite(ref)
    if not np.all(np.isfinite(pred[ok])):
        return float('inf')
    den = np.maximum(np.abs(ref), FLOOR * np.abs(sc))[ok]
    d = np.abs(pred - ref)[ok]
    if d.size == 0:
        return 0.0
    r = np.where(den > 0, d / np.where(den > 0, den, 1.0), np.where(d == 0, 0.0, np.inf))
    return float(np.max(r))


def _colscale(y):
    """per output component: maximum magnitude over the training points (axis 0)"""
    y = np.asarray(y, dtype=float)
    return np.max(np.abs(y), axis=0) if y.ndim >= 1 and y.shape[0] > 0 else np.abs(y)


class _Fam:
    """what differs between the surrogate families.
    precs: every admissible explicit precPhase value; dphase_names: every admissible explicit phase value of the
    diffusivity getters (None: only the matrix phase therm.phases[0] carries mobility data)."""

    def __init__(self, case):
        self.case = case
        self.family = case['family']
        self.dphase_names = None
        if self.family == 'binary':
            self.system, self.phases, self.binary = 'alzr', None, True
            self.precs = ['AL3ZR']
        elif self.family == 'binary2':     # binary Ni-Al of the Ni-Cr-Al test database: two precipitate phases
            self.system, self.phases, self.binary = 'nial', None, True
            self.precs = ['FCC_L12', 'BCC_B2']
        elif self.family == 'multi':
            self.system, self.phases, self.binary = 'nialcr', None, False
            self.precs = ['FCC_L12']
        elif self.family == 'multiphase':
            self.system, self.phases, self.binary = 'almgsi', ['MGSI_B_P', 'MG5SI6_B_DP'], False
            self.precs = ['MGSI_B_P', 'MG5SI6_B_DP']
        else:                       # 'fecrni': GeneralSurrogate on two matrix-like phases that both have mobility data
            self.system, self.phases, self.binary = 'fecrni', None, False
            self.precs = []
            self.dphase_names = ['FCC_A1', 'BCC_A2']
        self.prec = self.precs[0] if self.precs else None

    def therm(self):
        if self.family == 'fecrni':
            from kawin.thermo import GeneralThermodynamics
            import kawin.tests.datasets as ds
            return GeneralThermodynamics(ds.FECRNI_DB, ['FE', 'CR', 'NI'], ['FCC_A1', 'BCC_A2'])      # TDB string: fresh database
        if self.family == 'binary2':
            from kawin.thermo import BinaryThermodynamics
            import kawin.tests.datasets as ds
            th = BinaryThermodynamics(ds.NICRAL_TDB, ['NI', 'AL'], ['FCC_A1', 'FCC_L12', 'BCC_B2'])
            th.setDFSamplingDensity(2000)
            th.setEQSamplingDensity(500)
            return th
        return precip.make_therm(self.system, self.phases)

    def surrogate(self, th):
        from kawin.thermo import BinarySurrogate, MulticomponentSurrogate
        from kawin.thermo.Surrogate import GeneralSurrogate
        cls = GeneralSurrogate if self.family == 'fecrni' else (BinarySurrogate if self.binary else MulticomponentSurrogate)
        return cls(th, kernelKwargs=dict(self.case['kernel']))

    # ---- admissible windows
    def box(self, rng):
        if self.family == 'binary':
            lo = _loguniform(rng, 3e-4, 1.5e-3)
            return {'x': [(lo, float(lo * rng.uniform(5, 12)))], 'T': (float(rng.uniform(650, 700)), float(rng.uniform(740, 800))),
                    'g': (float(rng.uniform(20, 200)), float(rng.uniform(2000, 8000)))}
        if self.family == 'binary2':
            lo = float(rng.uniform(0.12, 0.14))
            return {'x': [(lo, float(rng.uniform(0.18, 0.21)))], 'T': (float(rng.uniform(880, 920)), float(rng.uniform(980, 1040))),
                    'g': (float(rng.uniform(20, 100)), float(rng.uniform(500, 900)))}
        if self.family == 'multi':
            a = float(rng.uniform(0.09, 0.10))
            c = float(rng.uniform(0.06, 0.07))
            return {'x': [(a, a + float(rng.uniform(0.02, 0.035))), (c, c + float(rng.uniform(0.02, 0.03)))],
                    'T': (float(rng.uniform(1000, 1040)), float(rng.uniform(1070, 1110)))}
        if self.family == 'fecrni':
            a = float(rng.uniform(0.18, 0.22))
            c = float(rng.uniform(0.03, 0.04))
            return {'x': [(a, a + float(rng.uniform(0.06, 0.10))), (c, c + float(rng.uniform(0.02, 0.04)))],
                    'T': (float(rng.uniform(1150, 1220)), float(rng.uniform(1320, 1400)))}
        return {'x': [(0.006, 0.009), (0.005, 0.008)], 'T': (440.0, 470.0)}

    def grid(self, rng, box):
        """training inputs (x, T) as the user would pass them, plus gExtra / T for the binary interfacial composition"""
        c = self.case
        ne = len(box['x'])

        def axis(lo, hi, n, log):
            if n == 1:
                return np.array([0.5 * (lo + hi)])
            return np.logspace(np.log10(lo), np.log10(hi), n) if log else np.linspace(lo, hi, n)
        Tlo, Thi = box['T']
        if c['broadcast']:
            nx = c['nx']
            if ne == 1:
                x = axis(box['x'][0][0], box['x'][0][1], nx, c['logX'])
            else:
                # nx points on a jittered lattice in composition space
                k = int(np.ceil(np.sqrt(nx)))
                pts = [(i, j) for i in range(k) for j in range(k)]
                sel = rng.permutation(len(pts))[:nx]
                x = np.array([[box['x'][d][0] + (pts[s][d] + rng.uniform(0.2, 0.8)) / k * (box['x'][d][1] - box['x'][d][0]) for d in range(ne)]
                              for s in sel])
                if nx == 1:
                    x = x[0]
            T = axis(Tlo, Thi, c['nT'], False)
            if c['nT'] == 1:
                T = float(T[0])
        else:
            n = c['npts']
            # paired points: stratified in every coordinate, shuffled independently (latin hypercube) => no near duplicates
            def lhs(lo, hi, log):
                u = (rng.permutation(n) + rng.uniform(0.15, 0.85, n)) / n
                return np.exp(np.log(lo) + u * (np.log(hi) - np.log(lo))) if log else lo + u * (hi - lo)
            cols = [lhs(box['x'][d][0], box['x'][d][1], c['logX']) for d in range(ne)]
            x = cols[0] if ne == 1 else np.stack(cols, axis=1)
            T = lhs(Tlo, Thi, False)
        out = {'x': x, 'T': T}
        if self.binary:
            glo, ghi = box['g']
            if c['broadcast']:
                out['g'] = axis(glo, ghi, c['ng'], True)
                out['Tg'] = T
            else:
                out['g'] = np.exp(np.log(glo) + (rng.permutation(n) + rng.uniform(0.15, 0.85, n)) / n * (np.log(ghi) - np.log(glo)))
                out['Tg'] = T
        return out

    def dilute(self, rng):
        """a matrix-only (single-phase) composition: no two-phase equilibrium with any precipitate phase exists there"""
        f = float(rng.uniform(1.0, 2.0))
        if self.family == 'binary':
            return 1e-5 * f
        if self.family == 'binary2':
            return 0.008 * f
        if self.family == 'multi':
            return np.array([0.01 * f, 0.006 * f])
        if self.family == 'multiphase':
            return np.array([1e-4 * f, 8e-5 * f])
        return np.array([0.02 * f, 0.01 * f])

    def random_points(self, rng, box, n):
        ne = len(box['x'])
        if self.case['logX']:
            cols = [np.exp(rng.uniform(np.log(box['x'][d][0]), np.log(box['x'][d][1]), n)) for d in range(ne)]
        else:
            cols = [rng.uniform(box['x'][d][0], box['x'][d][1], n) for d in range(ne)]
        x = cols[0] if ne == 1 else np.stack(cols, axis=1)
        T = rng.uniform(box['T'][0], box['T'][1], n)
        g = np.exp(rng.uniform(np.log(box['g'][0]), np.log(box['g'][1]), n)) if 'g' in box else None
        return x, T, g


def _sel(values, v):
    """structural label of a phase argument: default / first / other (position in the list of admissible values)"""
    if v is None:
        return 'default'
    return 'explicit_first' if (not values or v == values[0]) else 'explicit_other'


def _untrained_calls(F, rng, box, dnames, precs=None, dphases=None, default_prec=True, default_diff=True, groups=None):
    """(group, getter name, args, kwargs, phase label): documented call forms of every getter, with the phase / precPhase
    argument left out (if asked for) and with EVERY admissible explicit value in precs / dphases"""
    x, T, g = F.random_points(rng, box, 3)
    x0 = float(x[0]) if F.binary else np.array(x[0])
    precs = F.precs if precs is None else precs
    dphases = dnames if dphases is None else dphases
    calls = []
    pk = ([None] if (default_prec and F.precs) else []) + list(precs)
    for p in pk:
        kw = {} if p is None else {'precPhase': p}
        lab = _sel(F.precs, p)
        calls += [('drivingForce', 'getDrivingForce', (x, T), dict(kw), lab),
                  ('drivingForce', 'getDrivingForce', (x0, float(T[0])), dict(kw), lab),
                  ('drivingForce', 'getDrivingForce', (x, float(T[1])), dict(kw, removeCache=True), lab)]
        if F.binary:
            calls += [('interfacialComposition', 'getInterfacialComposition', (T, g), dict(kw), lab),
                      ('interfacialComposition', 'getInterfacialComposition', (float(T[0]), g), dict(kw), lab),
                      ('interfacialComposition', 'getInterfacialComposition', (float(T[1]),), dict(kw), lab)]
        else:
            R_ = np.array([0.6e-9, 1e-9, 3e-9])
            gE = 2 * 0.023 * 6.57e-6 / R_
            calls += [('curvature', 'curvatureFactor', (x0, float(T[0])), dict(kw), lab),
                      ('curvature', 'curvatureFactor', (np.array(x[1]), float(T[1])), dict(kw, removeCache=True), lab),
                      ('growth', 'getGrowthAndInterfacialComposition', (x0, float(T[0]), 900.0, R_, gE), dict(kw), lab),
                      ('growth', 'getGrowthAndInterfacialComposition', (np.array(x[2]), float(T[2]), 400.0, 1e-9, 1000.0), dict(kw), lab),
                      ('impingement', 'impingementFactor', (x0, float(T[0])), dict(kw), lab),
                      ('impingement', 'impingementFactor', (np.array(x[1]), float(T[1])), dict(kw), lab)]
    dk = ([None] if default_diff else []) + list(dphases)
    for ph in dk:
        kw = {} if ph is None else {'phase': ph}
        lab = _sel(dnames, ph)
        calls += [('interdiffusivity', 'getInterdiffusivity', (x, T), dict(kw), lab),
                  ('interdiffusivity', 'getInterdiffusivity', (x0, float(T[0])), dict(kw, removeCache=False), lab),
                  ('tracerDiffusivity', 'getTracerDiffusivity', (x, T), dict(kw), lab),
                  ('tracerDiffusivity', 'getTracerDiffusivity', (x0, float(T[0])), dict(kw), lab)]
    if groups is not None:
        calls = [c for c in calls if c[0] in groups]
    return calls


CLEAR = ('clear', None, (), {}, '')


def _history_calls(F, rng, box, dnames):
    """query HISTORY on one backend object: dilute (matrix-only) point before anything was computed, a successful two-phase
    calculation, dilute points afterwards with removeCache False / True, clearCache(), default arguments, again - for the phase
    argument left out and for every admissible explicit value; every public pass-through getter takes part"""
    x, T, g = F.random_points(rng, box, 2)
    two = float(x[0]) if F.binary else np.array(x[0])
    dil = F.dilute(rng)
    T0, T1 = float(T[0]), float(T[1])
    R_ = np.array([0.6e-9, 1e-9, 3e-9])
    gE = 2 * 0.023 * 6.57e-6 / R_

    def prec_block(x_, T_, kw, lab, rc):
        k = dict(kw) if rc is None else dict(kw, removeCache=rc)
        out = [('drivingForce', 'getDrivingForce', (x_, T_), dict(k), lab)]
        if F.binary:
            out.append(('interfacialComposition', 'getInterfacialComposition', (T_, np.array(g)), dict(kw), lab))
        else:
            out += [('curvature', 'curvatureFactor', (x_, T_), dict(k), lab),
                    ('impingement', 'impingementFactor', (x_, T_), dict(k), lab),
                    ('growth', 'getGrowthAndInterfacialComposition', (x_, T_, 600.0, R_, gE), dict(k), lab),
                    ('impingement', 'impingementFactor', (x_, T_), dict(k), lab)]
        return out

    def diff_block(x_, T_, kw, lab, rc):
        k = dict(kw) if rc is None else dict(kw, removeCache=rc)
        return [('interdiffusivity', 'getInterdiffusivity', (x_, T_), dict(k), lab), ('tracerDiffusivity', 'getTracerDiffusivity', (x_, T_), dict(k), lab)]

    calls = []
    for p in (([None] + list(F.precs)) if F.precs else []):
        kw, lab = ({} if p is None else {'precPhase': p}), _sel(F.precs, p)
        for x_, T_, rc in ((dil, T0, True), (two, T0, False), (dil, T0, False), (dil, T1, True)):
            calls += prec_block(x_, T_, kw, lab, rc)
        calls.append(CLEAR)
        for x_, T_, rc in ((dil, T0, None), (two, T1, True), (dil, T1, True), (dil, T0, None)):
            calls += prec_block(x_, T_, kw, lab, rc)
    for ph in [None] + list(dnames):
        kw, lab = ({} if ph is None else {'phase': ph}), _sel(dnames, ph)
        for x_, T_, rc in ((two, T0, False), (dil, T0, False), (dil, T1, True)):
            calls += diff_block(x_, T_, kw, lab, rc)
        calls.append(CLEAR)
        calls += diff_block(dil, T0, kw, lab, None)
    return calls


def _copyargs(args):
    return tuple(np.array(v, copy=True) if isinstance(v, np.ndarray) else v for v in args)


def _passthrough(F, R, surr, ref, calls, state):
    """surr: surrogate under test (own backend); ref: twin backend that has received the same call sequence.
    Every call gets its own copies of the argument arrays (a backend that writes into its arguments - C09 - must not
    couple the two calls)."""
    seen_groups = {}
    for group, name, args0, kw, lab in calls:
        if group == 'clear':         # the user clears the caches of the shared backend object (both twins)
            ref.clearCache()
            surr.therm.clearCache()
            continue
        mech = {'family': F.family, 'getter': name, 'state': state, 'phase': lab}
        if state == 'query_history':
            mech['removeCache'] = kw.get('removeCache', 'default')
        args = _copyargs(args0)
        try:
            b = getattr(ref, name)(*_copyargs(args0), **kw)
        except Exception as e:       # the backend itself refuses the input: outside the statement
            R.observe('backend_rejected_query')
            try:                     # keep the two backends on the same call history
                getattr(surr, name)(*args, **kw)
            except Exception:
                pass
            continue
        try:
            a = getattr(surr, name)(*args, **kw)
        except Exception as e:
            R.exception('c20.untrained_passthrough', e, mech, args=[_describe(v) if np.ndim(v) else v for v in args], kwargs=kw)
            continue
        fa, fb = _flat(a), _flat(b)
        ok = _same_bits(a, b)
        detail = {}
        if not ok:
            detail = {'surrogate': fa, 'backend': fb, 'args': [np.asarray(v) if np.ndim(v) else v for v in args], 'kwargs': kw}
            kind = 'shape' if (fa is None or fb is None or len(fa) != len(fb) or any(u.shape != v.shape for u, v in zip(fa, fb))) else 'values'
            mech = dict(mech, differs=kind)
            if kind == 'values':
                R.worst('untrained_rel_diff', max(_err(u, v, np.max(np.abs(v)) if v.size else 0.0) for u, v in zip(fa, fb)))
        R.check('c20.untrained_passthrough', ok, mech, **detail)
        if fb is not None and all(np.all(np.isfinite(v)) for v in fb):
            seen_groups[group + ('' if lab != 'explicit_other' else '_other_phase')] = True
    return seen_groups


def _train_all(F, R, s, grid, what=('drivingForce', 'interfacialComposition', 'curvature', 'diffusivity'), prec=None, dphase=None, plabel='explicit_first',
               dlabel='default'):
    """trains the requested quantities (precipitate quantities for precPhase=prec, diffusivity for phase=dphase; None: argument
    left out); returns the list of those that succeeded"""
    c = F.case
    done = []
    prec = F.prec if prec is None else prec
    mech = {'family': F.family, 'op': 'train', 'broadcast': c['broadcast'], 'log': c['logX']}
    shape = {'x_points': int(np.size(grid['x'])) if F.binary else (1 if np.ndim(grid['x']) == 1 else int(len(grid['x']))),
             'T_points': int(np.size(grid['T']))}
    dkw = {} if dphase is None else {'phase': dphase}
    jobs = []
    if 'drivingForce' in what and F.precs:
        jobs.append(('drivingForce', plabel, lambda: s.trainDrivingForce(grid['x'], grid['T'], precPhase=prec, logX=c['logX'], broadcast=c['broadcast'])))
    if F.binary and 'interfacialComposition' in what:
        jobs.append(('interfacialComposition', plabel, lambda: s.trainInterfacialComposition(grid['Tg'], grid['g'], precPhase=prec, logY=c['logX'],
                                                                                            broadcast=c['broadcast'])))
    if not F.binary and F.precs and 'curvature' in what:
        jobs.append(('curvature', plabel, lambda: s.trainCurvature(grid['x'], grid['T'], precPhase=prec, logX=c['logX'], broadcast=c['broadcast'])))
    if 'diffusivity' in what:
        jobs.append(('diffusivity', dlabel, lambda: s.trainDiffusivity(grid['x'], grid['T'], logX=c['logX'], broadcast=c['broadcast'], **dkw)))
    for q, lab, job in jobs:
        m = dict(mech, quantity=q, phase=lab)
        if q == 'interfacialComposition':
            m['grid'] = '%s_T x %s_g' % ('multi' if np.size(grid['Tg']) > 1 else 'single', 'multi' if np.size(grid['g']) > 1 else 'single')
        else:
            m['grid'] = '%s_x x %s_T' % ('multi' if shape['x_points'] > 1 else 'single', 'multi' if shape['T_points'] > 1 else 'single')
        try:
            job()
        except Exception as e:
            R.exception('c20.surrogate_no_exception', e, m, grid={k: _describe(v) if np.ndim(v) else v for k, v in grid.items()})
            continue
        R.count('c20.surrogate_no_exception')
        done.append(q)
    return done


def _query(R, F, s, getter, args, quantity, form, kw=None, lab='default', monitor='c20.surrogate_no_exception'):
    """a trained getter must accept the documented input shapes (and every admissible phase argument)"""
    try:
        out = getattr(s, getter)(*_copyargs(args), **(kw or {}))
    except Exception as e:
        R.exception(monitor, e, {'family': F.family, 'op': 'query', 'getter': getter, 'input': form, 'phase': lab},
                    args=[_describe(v) if np.ndim(v) else v for v in args], kwargs=kw)
        return None
    R.count(monitor)
    return out


def _predictions(R, F, s, trained, pts, tag, pkw=None, dkw=None, plab='default', dlab='default'):
    """all trained getters of surrogate s at the points pts=(x, T, g): dict label -> array; vectorised call forms"""
    x, T, g = pts
    out = {}
    if 'drivingForce' in trained:
        r = _query(R, F, s, 'getDrivingForce', (x, T), 'drivingForce', tag, pkw, plab)
        if r is not None:
            out['dg'], out['xp'] = np.asarray(r[0], dtype=float), np.asarray(r[1], dtype=float)
    if 'interfacialComposition' in trained and g is not None:
        r = _query(R, F, s, 'getInterfacialComposition', (T, g), 'interfacialComposition', tag, pkw, plab)
        if r is not None:
            out['xpalpha'], out['xpbeta'] = np.asarray(r[0], dtype=float), np.asarray(r[1], dtype=float)
    if 'diffusivity' in trained:
        r = _query(R, F, s, 'getInterdiffusivity', (x, T), 'diffusivity', tag, dkw, dlab)
        if r is not None:
            out['dnkj'] = np.asarray(r, dtype=float)
        r = _query(R, F, s, 'getTracerDiffusivity', (x, T), 'diffusivity', tag, dkw, dlab)
        if r is not None:
            out['dtracer'] = np.asarray(r, dtype=float)
    if 'curvature' in trained:
        X = np.atleast_2d(x)
        Tv = np.atleast_1d(T)
        for i in range(min(len(X), 6)):
            r = _query(R, F, s, 'curvatureFactor', (np.array(X[i]), float(Tv[i])), 'curvature', 'point(e,)', pkw, plab)
            if r is not None:
                for f in r._fields:
                    out['curvature.%s#%d' % (f, i)] = np.asarray(getattr(r, f), dtype=float)
            Rr = np.array([0.7e-9, 1.5e-9])
            r = _query(R, F, s, 'getGrowthAndInterfacialComposition', (np.array(X[i]), float(Tv[i]), 700.0, Rr, 3e-7 / Rr * 1e0), 'curvature', 'point(e,)',
                       pkw, plab)
            if r is not None:
                for f in r._fields:
                    out['growth.%s#%d' % (f, i)] = np.asarray(getattr(r, f), dtype=float)
            r = _query(R, F, s, 'impingementFactor', (np.array(X[i]), float(Tv[i])), 'curvature', 'point(e,)', pkw, plab)
            if r is not None:
                out['impingement.beta#%d' % i] = np.asarray(r, dtype=float)
    return out


def _check_trained(R, F, s, trained, prec=None, dkey=None, vec_pkw=None, vec_dkw=None, dnames=None):
    """trained getters at their own training inputs vs. the stored training outputs.
    prec / dkey: the phase whose models are checked (precipitate quantities / diffusivity).  Vectorised queries use the phase
    arguments vec_pkw / vec_dkw (empty: argument left out, only admissible for the default phase), point queries always name
    the phase explicitly."""
    from kawin.thermo.MultiTherm import CurvatureOutput, _growthRateOutputFromCurvature
    prec = F.prec if prec is None else prec
    dkey = (list(s.diffusivityData)[0] if len(s.diffusivityData) else None) if dkey is None else dkey
    vec_pkw, vec_dkw = dict(vec_pkw or {}), dict(vec_dkw or {})
    pt_pkw, pt_dkw = {'precPhase': prec}, {'phase': dkey}
    plv, plp = _sel(F.precs, vec_pkw.get('precPhase')), _sel(F.precs, prec)
    dlv, dlp = _sel(dnames or [dkey], vec_dkw.get('phase')), _sel(dnames or [dkey], dkey)
    mech0 = {'family': F.family, 'log': F.case['logX'], 'broadcast': F.case['broadcast']}
    nt = []

    def judge(quantity, label, pred, ref, scale, form, lab):
        e = _err(pred, ref, scale)
        R.worst('trained_rel_residual', e if np.isfinite(e) else 1e300)
        R.check('c20.trained_reproduces', e <= TOL_TRAIN, dict(mech0, quantity=quantity, output=label, input=form, phase=lab,
                                                               cause='shape' if not np.isfinite(e) else 'value'),
                rel_error=e, predicted=np.asarray(pred), training=np.asarray(ref))

    if 'drivingForce' in trained:
        d = s.drivingForceData[prec]
        x = np.asarray(d['x'], dtype=float)
        T = np.ravel(np.asarray(d['T'], dtype=float))
        xin = np.ravel(x) if F.binary else x
        dg, xp = np.asarray(d['dg'], dtype=float), np.asarray(d['xp'], dtype=float)
        r = _query(R, F, s, 'getDrivingForce', (xin, T), 'drivingForce', 'vector', vec_pkw, plv)
        if r is not None:
            judge('drivingForce', 'dg', r[0], dg, _colscale(dg), 'vector', plv)
            judge('drivingForce', 'xp', r[1], xp, _colscale(xp), 'vector', plv)
        for i in list(range(len(T)))[:3]:
            xi = float(xin[i]) if F.binary else np.array(xin[i])
            r = _query(R, F, s, 'getDrivingForce', (xi, float(T[i])), 'drivingForce', 'point', pt_pkw, plp)
            if r is not None:
                judge('drivingForce', 'dg', r[0], dg[i], _colscale(dg), 'point', plp)
                judge('drivingForce', 'xp', r[1], xp[i], _colscale(xp), 'point', plp)
        if len(T) >= 4 and np.ptp(dg) > 0:
            nt.append('drivingForce')
    if 'interfacialComposition' in trained:
        d = s.interfacialCompositionData[prec]
        T = np.ravel(np.asarray(d['T'], dtype=float))
        g = np.ravel(np.asarray(d['gExtra'], dtype=float))
        xa, xb = np.ravel(np.asarray(d['xpalpha'], dtype=float)), np.ravel(np.asarray(d['xpbeta'], dtype=float))
        if len(T) >= 2:
            r = _query(R, F, s, 'getInterfacialComposition', (T, g), 'interfacialComposition', 'vector', vec_pkw, plv)
            if r is not None:
                judge('interfacialComposition', 'xpalpha', r[0], xa, _colscale(xa), 'vector', plv)
                judge('interfacialComposition', 'xpbeta', r[1], xb, _colscale(xb), 'vector', plv)
            for i in list(range(len(T)))[:3]:
                r = _query(R, F, s, 'getInterfacialComposition', (float(T[i]), float(g[i])), 'interfacialComposition', 'point', pt_pkw, plp)
                if r is not None:
                    judge('interfacialComposition', 'xpalpha', r[0], xa[i], _colscale(xa), 'point', plp)
                    judge('interfacialComposition', 'xpbeta', r[1], xb[i], _colscale(xb), 'point', plp)
            if len(T) >= 4 and np.ptp(xa) > 0:
                nt.append('interfacialComposition')
        else:
            R.observe('training_set_filtered_to_less_than_two')
    if 'diffusivity' in trained:
        d = s.diffusivityData[dkey]
        x = np.asarray(d['x'], dtype=float)
        T = np.ravel(np.asarray(d['T'], dtype=float))
        xin = np.ravel(x) if F.binary else x
        dn, dtr = np.asarray(d['dnkj'], dtype=float), np.asarray(d['dtracer'], dtype=float)
        r = _query(R, F, s, 'getInterdiffusivity', (xin, T), 'diffusivity', 'vector', vec_dkw, dlv)
        if r is not None:
            judge('interdiffusivity', 'dnkj', r, dn, _colscale(dn), 'vector', dlv)
        r = _query(R, F, s, 'getTracerDiffusivity', (xin, T), 'diffusivity', 'vector', vec_dkw, dlv)
        if r is not None:
            judge('tracerDiffusivity', 'dtracer', r, dtr, _colscale(dtr), 'vector', dlv)
        for i in list(range(len(T)))[:3]:
            xi = float(xin[i]) if F.binary else np.array(xin[i])
            r = _query(R, F, s, 'getInterdiffusivity', (xi, float(T[i])), 'diffusivity', 'point', pt_dkw, dlp)
            if r is not None:
                judge('interdiffusivity', 'dnkj', r, dn[i], _colscale(dn), 'point', dlp)
            r = _query(R, F, s, 'getTracerDiffusivity', (xi, float(T[i])), 'diffusivity', 'point', pt_dkw, dlp)
            if r is not None:
                judge('tracerDiffusivity', 'dtracer', r, dtr[i], _colscale(dtr), 'point', dlp)
        if len(T) >= 4 and np.ptp(dn) > 0:
            nt.append('diffusivity')
    if 'curvature' in trained:
        d = s.curvatureData[prec]
        X = np.asarray(d['x'], dtype=float)
        T = np.ravel(np.asarray(d['T'], dtype=float))
        names = {'dc': 'dc', 'mc': 'mc', 'gba': 'gba', 'beta': 'beta', 'c_eq_alpha': 'xEqAlpha', 'c_eq_beta': 'xEqBeta'}
        ref = {f: np.asarray(d[k], dtype=float) for f, k in names.items()}
        if len(T) >= 2:
            for i in range(len(T)):
                kw, lab = (vec_pkw, plv) if i % 2 == 0 else (pt_pkw, plp)       # alternate: argument as in the vector form / named explicitly
                c = _query(R, F, s, 'curvatureFactor', (np.array(X[i]), float(T[i])), 'curvature', 'point(e,)', kw, lab)
                if c is None:
                    continue
                for f in names:
                    judge('curvature', f, getattr(c, f), ref[f][i], _colscale(ref[f]), 'point', lab)
                if i < 4:
                    stored = CurvatureOutput(**{f: ref[f][i] for f in names})
                    Rr = np.array([0.6e-9, 1e-9, 4e-9])
                    gE = 2 * 0.023 * 6.57e-6 / Rr
                    exp = _growthRateOutputFromCurvature(np.array(X[i]), 800.0, Rr, gE, stored)
                    got = _query(R, F, s, 'getGrowthAndInterfacialComposition', (np.array(X[i]), float(T[i]), 800.0, Rr, gE), 'curvature', 'point(e,)', kw, lab)
                    if got is not None:
                        for f in exp._fields:
                            ev = np.asarray(getattr(exp, f), dtype=float)
                            judge('growth', f, getattr(got, f), ev, np.max(np.abs(ev)), 'point', lab)
                    b = _query(R, F, s, 'impingementFactor', (np.array(X[i]), float(T[i])), 'curvature', 'point(e,)', kw, lab)
                    if b is not None:
                        judge('impingement', 'beta', b, ref['beta'][i], _colscale(ref['beta']), 'point', lab)
            if len(T) >= 4 and np.ptp(ref['mc']) > 0:
                nt.append('curvature')
        else:
            R.observe('training_set_filtered_to_less_than_two')
    return nt


def _check_interleaved(R, F, s, trained, obj, monitor, rng, box, twin=None):
    """two precipitate phases trained on ONE surrogate: the trained getters are queried phase A, phase B (B, A; A, B, A) at the same
    point - what a multi-phase precipitation step does - and every answer is compared with THAT phase's own training data (1e-6);
    at random points the interleaved answers of s are compared with those of `twin` (an independent object holding the same models,
    here the surrogate rebuilt from the file) that is only ever asked phase by phase (1e-9).  Point form and, where the API allows,
    batched form; phase A with the argument left out and named explicitly."""
    from kawin.thermo.MultiTherm import CurvatureOutput, _growthRateOutputFromCurvature
    if len(F.precs) < 2:
        return 0
    A, B = F.precs[0], F.precs[1]
    qa, qb = trained.get(('prec', A)) or [], trained.get(('prec', B)) or []
    common = [q for q in qa if q in qb]
    if not common:
        return 0
    mech0 = {'family': F.family, 'input': 'interleaved', 'object': obj}
    n_eval = [0]

    def kwof(p, explicit):
        return {'precPhase': p} if (p != A or explicit) else {}

    def judge(quantity, label, pred, ref, scale, order, p, tol=TOL_TRAIN, points='training'):
        e = _err(pred, ref, scale)
        n_eval[0] += 1
        R.worst('interleaved_rel_residual', e if np.isfinite(e) else 1e300)
        R.check(monitor, e <= tol, dict(mech0, quantity=quantity, output=label, order=order, asked='first' if p == A else 'other', points=points,
                                        cause='shape' if not np.isfinite(e) else 'value'), rel_error=e, predicted=np.asarray(pred), reference=np.asarray(ref))

    def common_points(store):
        """indices (ia, ib) of training points both phases were trained on"""
        xa, Ta = _stored_inputs(F, store[A])
        xb, Tb = _stored_inputs(F, store[B])
        out = []
        for i in range(len(Ta)):
            for j in range(len(Tb)):
                if Ta[i] == Tb[j] and np.array_equal(np.atleast_1d(xa[i]), np.atleast_1d(xb[j])):
                    out.append((i, j))
                    break
        return xa, Ta, out

    orders = [('AB', [A, B]), ('BA', [B, A]), ('ABA', [A, B, A])]
    names = {'dc': 'dc', 'mc': 'mc', 'gba': 'gba', 'beta': 'beta', 'c_eq_alpha': 'xEqAlpha', 'c_eq_beta': 'xEqBeta'}
    Rr = np.array([0.6e-9, 1e-9, 4e-9])
    gE = 2 * 0.023 * 6.57e-6 / Rr
    if 'drivingForce' in common:
        xa, Ta, pairs = common_points(s.drivingForceData)
        ref = {p: (np.asarray(s.drivingForceData[p]['dg'], dtype=float), np.asarray(s.drivingForceData[p]['xp'], dtype=float)) for p in (A, B)}
        for k, (i, j) in enumerate(pairs[:6]):
            oname, order = orders[k % 3]
            xi = float(xa[i]) if F.binary else np.array(xa[i])
            for p in order:
                idx = i if p == A else j
                r = _query(R, F, s, 'getDrivingForce', (xi, float(Ta[i])), 'drivingForce', 'interleaved', kwof(p, k % 2 == 1), _sel(F.precs, p))
                if r is not None:
                    judge('drivingForce', 'dg', r[0], ref[p][0][idx], _colscale(ref[p][0]), oname, p)
                    judge('drivingForce', 'xp', r[1], ref[p][1][idx], _colscale(ref[p][1]), oname, p)
        if len(pairs) >= 2:                               # batched: the whole common set, phase after phase after phase
            ia, ib = [i for i, _ in pairs], [j for _, j in pairs]
            for p in (A, B, A):
                idx = ia if p == A else ib
                r = _query(R, F, s, 'getDrivingForce', (xa[ia], Ta[ia]), 'drivingForce', 'interleaved_batch', kwof(p, True), _sel(F.precs, p))
                if r is not None:
                    judge('drivingForce', 'dg', r[0], ref[p][0][idx], _colscale(ref[p][0]), 'ABA_batched', p)
    if 'interfacialComposition' in common:
        dA, dB = s.interfacialCompositionData[A], s.interfacialCompositionData[B]
        Ta, ga = np.ravel(np.asarray(dA['T'], dtype=float)), np.ravel(np.asarray(dA['gExtra'], dtype=float))
        Tb, gb = np.ravel(np.asarray(dB['T'], dtype=float)), np.ravel(np.asarray(dB['gExtra'], dtype=float))
        ref = {A: (np.ravel(np.asarray(dA['xpalpha'], dtype=float)), np.ravel(np.asarray(dA['xpbeta'], dtype=float))),
               B: (np.ravel(np.asarray(dB['xpalpha'], dtype=float)), np.ravel(np.asarray(dB['xpbeta'], dtype=float)))}
        pairs = []
        for i in range(len(Ta)):
            for j in range(len(Tb)):
                if Ta[i] == Tb[j] and ga[i] == gb[j]:
                    pairs.append((i, j))
                    break
        for k, (i, j) in enumerate(pairs[:6]):
            oname, order = orders[k % 3]
            for p in order:
                idx = i if p == A else j
                r = _query(R, F, s, 'getInterfacialComposition', (float(Ta[i]), float(ga[i])), 'interfacialComposition', 'interleaved',
                           kwof(p, k % 2 == 1), _sel(F.precs, p))
                if r is not None:
                    judge('interfacialComposition', 'xpalpha', r[0], ref[p][0][idx], _colscale(ref[p][0]), oname, p)
                    judge('interfacialComposition', 'xpbeta', r[1], ref[p][1][idx], _colscale(ref[p][1]), oname, p)
        if len(pairs) >= 2:
            ia, ib = [i for i, _ in pairs], [j for _, j in pairs]
            for p in (B, A, B):
                idx = ia if p == A else ib
                r = _query(R, F, s, 'getInterfacialComposition', (Ta[ia], ga[ia]), 'interfacialComposition', 'interleaved_batch', kwof(p, True),
                           _sel(F.precs, p))
                if r is not None:
                    judge('interfacialComposition', 'xpalpha', r[0], ref[p][0][idx], _colscale(ref[p][0]), 'BAB_batched', p)
    if 'curvature' in common:
        xa, Ta, pairs = common_points(s.curvatureData)
        ref = {p: {f: np.asarray(s.curvatureData[p][k], dtype=float) for f, k in names.items()} for p in (A, B)}
        for k, (i, j) in enumerate(pairs[:9]):
            oname, order = orders[k % 3]
            xi, Ti = np.array(xa[i]), float(Ta[i])
            getter = ['curvatureFactor', 'impingementFactor', 'getGrowthAndInterfacialComposition'][(k // 3) % 3]
            for p in order:
                idx = i if p == A else j
                kw, lab = kwof(p, k % 2 == 1), _sel(F.precs, p)
                if getter == 'curvatureFactor':
                    c = _query(R, F, s, getter, (xi, Ti), 'curvature', 'interleaved', kw, lab)
                    if c is not None:
                        for f in names:
                            judge('curvature', f, getattr(c, f), ref[p][f][idx], _colscale(ref[p][f]), oname, p)
                elif getter == 'impingementFactor':
                    b = _query(R, F, s, getter, (xi, Ti), 'curvature', 'interleaved', kw, lab)
                    if b is not None:
                        judge('impingement', 'beta', b, ref[p]['beta'][idx], _colscale(ref[p]['beta']), oname, p)
                else:
                    stored = CurvatureOutput(**{f: ref[p][f][idx] for f in names})
                    exp = _growthRateOutputFromCurvature(xi, 800.0, Rr, gE, stored)
                    got = _query(R, F, s, getter, (xi, Ti, 800.0, Rr, gE), 'curvature', 'interleaved', kw, lab)
                    if got is not None:
                        for f in exp._fields:
                            ev = np.asarray(getattr(exp, f), dtype=float)
                            judge('growth', f, getattr(got, f), ev, np.max(np.abs(ev)), oname, p)
        # mixed getters at one point, as a precipitation step does: impingement A, impingement B, growth A, growth B
        for (i, j) in pairs[:3]:
            xi, Ti = np.array(xa[i]), float(Ta[i])
            for getter in ('impingementFactor', 'getGrowthAndInterfacialComposition'):
                for p in (A, B):
                    idx = i if p == A else j
                    if getter == 'impingementFactor':
                        b = _query(R, F, s, getter, (xi, Ti), 'curvature', 'interleaved', kwof(p, True), _sel(F.precs, p))
                        if b is not None:
                            judge('impingement', 'beta', b, ref[p]['beta'][idx], _colscale(ref[p]['beta']), 'step_ABAB', p)
                    else:
                        stored = CurvatureOutput(**{f: ref[p][f][idx] for f in names})
                        exp = _growthRateOutputFromCurvature(xi, 800.0, Rr, gE, stored)
                        got = _query(R, F, s, getter, (xi, Ti, 800.0, Rr, gE), 'curvature', 'interleaved', kwof(p, True), _sel(F.precs, p))
                        if got is not None:
                            judge('growth', 'growth_rate', got.growth_rate, np.asarray(exp.growth_rate, dtype=float),
                                  np.max(np.abs(np.asarray(exp.growth_rate, dtype=float))), 'step_ABAB', p)
    # random points: interleaved answers of s vs. a twin object that is asked phase by phase
    if twin is not None:
        xr, Tr, gr = F.random_points(rng, box, 4)
        seq = {p: [] for p in (A, B)}
        for p in (A, B):                                 # twin: all points of A, then all points of B
            for m in range(len(Tr)):
                xi = float(xr[m]) if F.binary else np.array(xr[m])
                seq[p].append(_predictions(core.CaseResult({}), F, twin, common, (xi, float(Tr[m]), None if gr is None else float(gr[m])), 'point',
                                           pkw={'precPhase': p}, plab=_sel(F.precs, p)))
        for m in range(len(Tr)):
            xi = float(xr[m]) if F.binary else np.array(xr[m])
            for p in orders[m % 3][1]:
                got = _predictions(R, F, s, common, (xi, float(Tr[m]), None if gr is None else float(gr[m])), 'interleaved', pkw=kwof(p, m % 2 == 0),
                                   plab=_sel(F.precs, p))
                for label, a in got.items():
                    if label in seq[p][m]:
                        b = seq[p][m][label]
                        judge(label.split('#')[0].split('.')[0], label.split('#')[0], a, b, np.max(np.abs(b)) if b.size else 0.0, orders[m % 3][0], p,
                              tol=TOL_JSON, points='random_vs_twin')
    return n_eval[0]


def _stored_inputs(F, d):
    x = np.asarray(d['x'], dtype=float)
    return (np.ravel(x) if F.binary else x), np.ravel(np.asarray(d['T'], dtype=float))


def _run_surrogate(case, R):
    F = _Fam(case)
    rng = core.case_rng(case['seed'], PROPERTY, case['idx'])
    scratch = _scratch()
    box = F.box(rng)
    key0 = 'surr-%s-%s-%s-%s-%d' % (F.family, 'log' if case['logX'] else 'lin', 'bc' if case['broadcast'] else 'pair', case['kernel']['kernel'], case['idx'])
    R.info.update({'family': F.family, 'logX': case['logX'], 'broadcast': case['broadcast'], 'kernel': case['kernel']})
    quiet = core.CaseResult({})

    # ---------------------------------------------------------------- (a) nothing trained: every getter, every admissible phase argument
    th0 = F.therm()
    dnames = list(F.dphase_names) if F.dphase_names else [th0.phases[0]]
    sA = F.surrogate(th0)
    thB = F.therm()
    groups = _passthrough(F, R, sA, thB, _untrained_calls(F, rng, box, dnames), 'nothing_trained')
    for gname in groups:
        R.add_nontrivial(key0 + '-untrained-' + gname)

    # ---------------------------------------------------------------- (a2) nothing trained: query histories on the shared backend
    sH, thH = F.surrogate(F.therm()), F.therm()
    groups = _passthrough(F, R, sH, thH, _history_calls(F, rng, box, dnames), 'query_history')
    for gname in groups:
        R.add_nontrivial(key0 + '-history-' + gname)

    # ---------------------------------------------------------------- (b) trained reproduces its training data
    # which quantities are trained, per admissible phase value: case['train'] = {'prec': [quantities of precs[0], of precs[1], ...],
    # 'diff': [indices into dnames]} (older descriptions: 'train_prec' / 'train_diff' = phases for which everything is trained)
    allq = ['drivingForce', 'interfacialComposition' if F.binary else 'curvature']
    spec = case.get('train')
    if spec is None:
        spec = {'prec': [allq if i in case.get('train_prec', [0]) else [] for i in range(len(F.precs))], 'diff': case.get('train_diff', [0])}
    tspec = [(F.precs[i], [q for q in qs if q in allq]) for i, qs in enumerate(spec['prec'][:len(F.precs)])]
    tdiff = [dnames[i] for i in spec['diff'] if i < len(dnames)]
    R.info['train_spec'] = {'prec': {p: qs for p, qs in tspec}, 'phase': tdiff}
    grid = F.grid(rng, box)
    s, sM = F.surrogate(F.therm()), F.surrogate(F.therm())      # sM: mirror, drives a twin backend through the same training calls
    trained = {}                                                # (kind, phase) -> quantities trained
    for p, qs in tspec:
        if not qs:
            continue
        for S_, R_ in ((s, R), (sM, quiet)):
            done = _train_all(F, R_, S_, grid, what=tuple(qs), prec=p, plabel=_sel(F.precs, p))
            if S_ is s:
                trained[('prec', p)] = done
    for ph in tdiff:
        # the matrix phase of the one-phase families is trained with the argument left out, everything else by name
        dph = None if (F.dphase_names is None) else ph
        for S_, R_ in ((s, R), (sM, quiet)):
            done = _train_all(F, R_, S_, grid, what=('diffusivity',), dphase=dph, dlabel=_sel(dnames, dph))
            if S_ is s:
                trained[('diff', ph)] = done
    R.info['trained'] = {'%s:%s' % k: v for k, v in trained.items()}
    # what was NOT trained - per phase value and per quantity - still passes through (before the trained getters are queried:
    # same backend history as the mirror)
    calls = []
    for p in F.precs:
        have = trained.get(('prec', p)) or []
        open_groups = ([] if 'drivingForce' in have else ['drivingForce']) + ([] if 'interfacialComposition' in have else ['interfacialComposition']) \
            + ([] if 'curvature' in have else ['curvature', 'growth', 'impingement'])
        if open_groups:
            calls += _untrained_calls(F, rng, box, dnames, precs=[p], dphases=[], default_prec=(p == F.precs[0]), default_diff=False,
                                      groups=open_groups)
    rest_d = [ph for ph in dnames if not trained.get(('diff', ph))]
    if rest_d:
        calls += _untrained_calls(F, rng, box, dnames, precs=[], dphases=rest_d, default_prec=False, default_diff=dnames[0] in rest_d)
    if calls:
        groups = _passthrough(F, R, s, sM.therm, calls, 'partly_trained' if any(trained.values()) else 'nothing_trained')
        for gname in groups:
            R.add_nontrivial(key0 + '-rest-' + gname)
    nt_all = []
    for (kind, ph), qs in trained.items():
        if not qs:
            continue
        first = (ph == F.precs[0]) if kind == 'prec' else (ph == dnames[0])
        if kind == 'prec':
            nt = _check_trained(R, F, s, qs, prec=ph, vec_pkw={} if first else {'precPhase': ph}, dnames=dnames)
        else:
            nt = _check_trained(R, F, s, qs, dkey=ph, vec_dkw={} if first else {'phase': ph}, dnames=dnames)
            if first and F.dphase_names:           # first phase named explicitly in the vector form as well
                _check_trained(R, F, s, qs, dkey=ph, vec_dkw={'phase': ph}, dnames=dnames)
        for q in nt:
            nt_all.append((kind, ph, q))
            R.add_nontrivial(key0 + '-trained-%s-%s' % (q, _sel(F.precs if kind == 'prec' else dnames, ph)))
    if _check_interleaved(R, F, s, trained, 'original', 'c20.trained_reproduces', rng, box) > 0:
        R.add_nontrivial(key0 + '-interleaved-original')
    R.info['training_points'] = {'%s:%s' % (k, p): int(len(np.ravel(np.asarray(st[p]['T'], dtype=float))))
                                 for k, st in (('drivingForce', s.drivingForceData), ('diffusivity', s.diffusivityData),
                                               ('curvature', getattr(s, 'curvatureData', {})),
                                               ('interfacialComposition', getattr(s, 'interfacialCompositionData', {}))) for p in st}

    # ---------------------------------------------------------------- (c) rebuilt from its JSON file
    if any(trained.values()):
        fn = os.path.join(scratch, 'c20_%d_%d_surr' % (os.getpid(), case['idx'])) + ('.json' if case['idx'] % 2 else '')
        tdesc = '+'.join(sorted(set(q for qs in trained.values() for q in qs)))
        mj = {'family': F.family, 'op': 'json'}
        s2 = None
        try:
            try:
                s.toJson(fn)
            except Exception as e:
                R.exception('c20.surrogate_no_exception', e, dict(mj, step='toJson', trained=tdesc))
            else:
                s2 = F.surrogate(F.therm())
                try:
                    s2.fromJson(fn)
                    R.count('c20.surrogate_no_exception')
                except Exception as e:
                    R.exception('c20.surrogate_no_exception', e, dict(mj, step='fromJson', trained=tdesc))
                    s2 = None
        finally:
            _rm(fn)
        if s2 is not None:
            rnd = F.random_points(rng, box, 8)
            for (kind, ph), qs in trained.items():
                if not qs:
                    continue
                lab = _sel(F.precs if kind == 'prec' else dnames, ph)
                first = lab == 'explicit_first'
                sets = []
                if kind == 'prec':
                    kws = [dict(pkw={'precPhase': ph}, plab=lab)] + ([dict(pkw={}, plab='default')] if first else [])
                    nonic = [q for q in qs if q != 'interfacialComposition']
                    store = s.drivingForceData if 'drivingForce' in qs else getattr(s, 'curvatureData', {})
                    if nonic and ph in store:
                        xt, Tt = _stored_inputs(F, store[ph])
                        sets.append(('training', (xt, Tt, None), nonic))
                    if 'interfacialComposition' in qs:
                        d = s.interfacialCompositionData[ph]
                        Ti, gi = np.ravel(np.asarray(d['T'], dtype=float)), np.ravel(np.asarray(d['gExtra'], dtype=float))
                        if len(Ti) >= 1:
                            sets.append(('training', (None, Ti, gi), ['interfacialComposition']))
                else:
                    kws = [dict(dkw={'phase': ph}, dlab=lab)] + ([dict(dkw={}, dlab='default')] if first else [])
                    xt, Tt = _stored_inputs(F, s.diffusivityData[ph])
                    sets.append(('training', (xt, Tt, None), qs))
                sets.append(('random', rnd, qs))
                for kwi, kw in enumerate(kws):
                    for tag, pts, tr in sets:
                        A = _predictions(R, F, s, tr, pts, 'vector', **kw)
                        B = _predictions(R, F, s2, tr, pts, 'vector', **kw)
                        for label in A:
                            a = A[label]
                            mj2 = {'family': F.family, 'output': label.split('#')[0], 'points': tag, 'log': case['logX'],
                                   'phase': kw.get('plab', kw.get('dlab'))}
                            if label not in B:
                                R.check('c20.json_rebuild', False, dict(mj2, cause='rebuilt_getter_raised'))
                                continue
                            b = B[label]
                            e = _err(b, a, np.max(np.abs(a)) if a.size else 0.0)
                            R.worst('json_rel_diff', e if np.isfinite(e) else 1e300)
                            R.check('c20.json_rebuild', e <= TOL_JSON, mj2, rel_error=e, original=a, rebuilt=b)
            # the rebuilt surrogate reproduces the training data of every phase as well (explicit phase arguments)
            for (kind, ph), qs in trained.items():
                if qs and kind == 'diff':
                    _check_trained(R, F, s2, qs, dkey=ph, vec_dkw={'phase': ph}, dnames=dnames)
                elif qs and kind == 'prec':
                    _check_trained(R, F, s2, qs, prec=ph, vec_pkw={'precPhase': ph}, dnames=dnames)
            # interleaved phase order on the rebuilt object (vs. the training data) and on the original vs. the rebuilt twin
            if _check_interleaved(R, F, s2, trained, 'rebuilt', 'c20.json_rebuild', rng, box) > 0:
                R.add_nontrivial(key0 + '-interleaved-rebuilt')
            s3 = F.surrogate(F.therm())
            try:
                s.toJson(fn)
                s3.fromJson(fn)
            except Exception:
                s3 = None
            finally:
                _rm(fn)
            if s3 is not None:
                _check_interleaved(R, F, s, {k: v for k, v in trained.items()}, 'original_vs_twin', 'c20.json_rebuild', rng, box, twin=s3)
            for kind, ph, q in nt_all:
                R.add_nontrivial(key0 + '-json-%s-%s' % (q, _sel(F.precs if kind == 'prec' else dnames, ph)))

    # ---------------------------------------------------------------- (d) only the driving force trained: the rest still passes through
    if F.precs:
        sA, sB = F.surrogate(F.therm()), F.surrogate(F.therm())
        _train_all(F, R, sA, grid, what=('drivingForce',))
        _train_all(F, quiet, sB, grid, what=('drivingForce',))
        only = ('interfacialComposition', 'curvature', 'growth', 'impingement', 'interdiffusivity', 'tracerDiffusivity')
        groups = _passthrough(F, R, sA, sB.therm, _untrained_calls(F, rng, box, dnames, groups=only), 'driving_force_trained')
        for gname in groups:
            R.add_nontrivial(key0 + '-partial-' + gname)
    R.set_nontrivial(False)


# ================================================================================================

def run_case(case, R):
    if case['kind'] == 'precip':
        return _run_precip(case, R)
    if case['kind'] == 'diffusion':
        return _run_diffusion(case, R)
    return _run_surrogate(case, R)
