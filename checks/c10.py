"""C10 - diffusivities are physically valid and match the free-energy curvature.

Workload: random (x, T) in the matrix-phase region of the shipped databases (Ni-Cr-Al mobility and diffusivity
variants, Fe-Cr-Ni fcc and bcc, Al-Mg-Si, Cu-Ti, Al-Zr; ternary and every binary sub-system; several element
orders, i.e. several reference elements; General/Binary/Multicomponent classes, with and without a precipitate
phase, which switches the matrix to kawin's DIS_<matrix> copy).  A point is *admitted* only if the backend
itself (a pycalphad global equilibrium over ALL phases of a fresh copy of the database, independent of the kawin
object) reports exactly one composition set and that set is the matrix phase.  pycalphad removes the disordered
phase from the candidates when its ordered partner (FCC_L12 for FCC_A1) is present; the ordered partner with
identical site fractions on its substitutional sublattices IS the disordered matrix (same Gibbs energy by
construction of the partitioned model) and is accepted, an ordered state is rejected.  Rejects are counted.

Monitors (all on the real code; every observation is a return value of a kawin function - getLocalEq,
getInterdiffusivity, getTracerDiffusivity, FreeEnergyHessian.dMudX, Mobility.mobility_matrix /
mobility_from_composition_set called with the object's own callables):
  call_succeeds      getLocalEq / dMudX / mobility_matrix / getTracerDiffusivity / getInterdiffusivity return without
                     raising at an admitted point
  hessian_fd         FreeEnergyHessian.dMudX(mu, composition set, ref) for EVERY element as reference equals the
                     central finite difference of (mu_A - mu_ref) from getLocalEq at x +- h (steps h, h/2, h/4 with
                     h = 3.2e-2 min(x_j, x_ref); the Richardson values of (h, h/2) and (h/2, h/4) must agree to 5e-7;
                     this is done for two independent step-size sets whose results must agree to 1e-6 and whose mean
                     is the oracle; otherwise the point is 'fd_unresolved' and not judged).
                     Entry (i,j) is compared relative to sqrt(H_ii H_jj) (the natural scale of an SPD matrix),
                     tolerance 1e-4.  Rows/columns are labelled by the documented order (alphabetical, reference
                     removed).
                     The finite-difference clause is judged only where the Gibbs-energy model is smooth across the
                     stencil (kawin-independent probe _model_smooth; the IHJ magnetic model makes d2G/dx2 jump on the
                     surfaces T = Tc(x), Tc(x) = 0, beta(x) = 0, and a central difference across such a surface
                     converges to the mean of the two one-sided values for every h); excluded points are counted.
  hessian_reference  the same clause with an analytic reference instead of a numerical derivative: for a matrix phase
                     whose site fractions are fixed by the composition (one substitutional sublattice + vacancy-only
                     sublattices: all matrix phases used here) d(mu_A - mu_ref)/dx_B is the Hessian of the phase's own
                     Gibbs energy (pycalphad phase record, no kawin code) projected on the simplex; dMudX must equal it
                     to 1e-9 (measured 8e-15), for every reference element.  Sharper than the finite difference
                     (solver noise limits that to ~2e-6) and independent of the equilibrium solver.
  hessian_symmetric  |H_ij - H_ji| <= 1e-8 sqrt(H_ii H_jj)
  hessian_posdef     smallest eigenvalue of (H + H^T)/2 > 0
  interdiff_eigen    public getInterdiffusivity: binary scalar > 0; ternary matrix eigenvalues |Im| <= 1e-12 |Re|, Re > 0
  tracer_positive    public getTracerDiffusivity > 0 for every element
  tracer_rtm         (mobility databases) tracer diffusivity of the element listed at position i equals R T M_i, with
                     M_i the database mobility expression of THAT element evaluated symbolically at the equilibrium
                     state (also: kawin's compiled mobility vector equals the symbolic value, 1e-10).  The statement
                     does not fix the digits of R: any R_eff = D*/(T M) within 8.3145 +- 1e-3 (all values that agree
                     with the gas constant to four significant digits; kawin uses 8.314, pycalphad 8.3145) is
                     accepted, and all elements of one point must show the same R_eff (1e-10).
  darken_binary      (binary, mobility databases) D~ R_eff T = (x_B D*_A + x_A D*_B) x_A x_B G'' with the public D~
                     and D*, G'' = dMudX, R_eff the value observed in tracer_rtm (so the identity is tested
                     independently of the digits of R), 1e-6 relative
  flux_sum_zero      Mobility.mobility_matrix: column sums over substitutional rows vanish - the sum of the
                     substitutional fluxes J_k = -sum_b M_kb grad mu_b is zero for every grad mu.  Tolerance 1e-12 of
                     X_b M_b per column b (the magnitude of the terms that cancel).  DESIGN quoted '1e-12 of the
                     largest entry'; that scale is unsound in dilute alloys: all entries are ~ x_solute M while the
                     rounding error of the solvent column is eps * x_solvent M_solvent (measured 7e-14 of the largest
                     entry at x_solute = 3e-4, growing as 1/x_solute), so the floating-point scale is used instead.

  interdiff_tracer_consistency
                     (mobility databases, binary and ternary; added on the coordinator's request after a seeded change that
                     dropped mobility_correction inside Mobility.interdiffusivity went unnoticed) the public
                     interdiffusivity equals the volume-fixed-frame combination of the public tracer diffusivities and the
                     curvature, D^n_kj = sum_i (delta_ik - x_k) x_i D*_i/(R_eff T) dmu_i/d(x_j - x_n) (Darken's equation
                     for a binary), with dmu_i/dx from the phase record Hessian (no kawin code), entry by entry in the
                     element order of the object, 1e-6 of sqrt(D_kk D_jj) (measured 4e-10).
  phase_argument_reference
                     (added on the coordinator's request after a seeded change that used the first listed phase for the
                     local equilibrium of getInterdiffusivity(..., phase=p) went unnoticed)  Ten Fe-Cr-Ni variants use
                     objects that list two or three phases, two of them with mobility data (['FCC_A1','BCC_A2'],
                     ['BCC_A2','FCC_A1'], ['SIGMA','FCC_A1','BCC_A2']; ternary, Fe-Cr, Fe-Ni) and address the judged phase
                     through the explicit phase= argument of getInterdiffusivity / getTracerDiffusivity, as the first and
                     as a later entry of the list.  The judged phase must be the single stable phase (same admission
                     filter); ALL clauses above are evaluated for it - curvature, finite differences and reference
                     Hessian from getLocalEq(..., [p]) of that phase, tracer = R T M with that phase's mobility model,
                     Darken, interdiff_tracer_consistency, flux_sum_zero - and in addition both public results must equal
                     those of an object that lists only this phase (default call), 1e-6 (two separate solver runs: worst seen 9e-10; same corrections
                     are set on both objects).
  user_tracer / user_interdiff
                     (configuration class 'user-defined kinetics', added on the coordinator's request after a seeded
                     late-binding lambda in setMobility/setDiffusivity(dict) went unnoticed - tracer and interdiffusivity
                     stayed consistent with each other)  On dedicated objects (Al-Zr with and without database kinetics,
                     Cu-Ti, Fe-Cr, Fe-Ni, Ni-Cr-Al, Fe-Cr-Ni, Al-Mg-Si, Ni-Cr-Al DIFF; binary and ternary) mobilities or
                     diffusivities are set through every public form - single function, dictionary in five key orders
                     (input, reversed, alphabetical, rotated, random), element=... one at a time, each overwriting the
                     previous setting - with a distinct random Arrhenius function per element.  After every setting step,
                     with scalar and array T: setMobility: D*_e = R_eff T M_e(T) (R band and spread as tracer_rtm) and
                     D^n_kj = sum_i (delta_ik - x_k) x_i M_i(T) dmu_i/d(x_j - x_n) with the PRESCRIBED M_i and the phase
                     record Hessian (1e-6; binary also Darken with G'' = dMudX); setDiffusivity (documented: the callable
                     is the element's diffusivity): D*_e = D_e(T) and interdiffusivity = diag(D_e) over the non-reference
                     elements in input order, 1e-12.
  Mobility corrections: two thirds of the cases on mobility databases run after therm.setMobilityCorrection - uniform
  ('all', f) or on one/two elements (reference element included in ~half of them), f log-uniform in 0.2..8 - and every
  mobility clause is evaluated with the corrected mobility f_i M_i: tracer = R T f_i M_i, compiled mobility vector,
  Darken, flux_sum_zero (mobility_matrix called with the object's correction) and interdiff_tracer_consistency.  The
  cached objects are reset to 1 after every case.

Deliberately NOT asserted (statement silent): values with
removeCache=False (history dependence is C09's subject - all public calls use the default removeCache=True);
tracer = R T M and Darken for diffusivity-only databases (Al-Zr, Ni-Cr-Al 'DIFF' variant: no mobility exists, only
positivity is asserted there); anything outside the region where the backend reports the matrix as the single stable
phase.  A local equilibrium that does not converge or does not sit at the requested composition is counted and
skipped (backend failure, not the property).
"""
import math

import numpy as np

PROPERTY = 'C10'
LEVEL = 'exploration'
RULE = ('cases = (database, matrix phase, thermodynamics class, element order/reference element, block) x 12 random '
        '(x, T) candidates drawn half log-uniform, half uniform in a per-system box; a candidate is judged only if a '
        'pycalphad global equilibrium over all database phases reports the matrix as the single stable phase. A case '
        'is non-trivial when at least one admitted point has every mole fraction (reference included) > 1e-4, its '
        'finite-difference oracle resolved (model smooth across the stencil, Richardson values of two step-size pairs '
        'agree to 5e-7) and all clauses applicable to the database kind were evaluated; distinct by (system, variant, '
        'block).')
REQUIRED_MONITORS = ['call_succeeds', 'hessian_fd', 'hessian_reference', 'hessian_symmetric', 'hessian_posdef',
                     'interdiff_eigen', 'tracer_positive', 'tracer_rtm', 'darken_binary', 'flux_sum_zero',
                     'interdiff_tracer_consistency', 'phase_argument_reference', 'user_tracer', 'user_interdiff']
REACH = ['thermo/FreeEnergyHessian.py:hessian', 'thermo/FreeEnergyHessian.py:totalddx',
         'thermo/FreeEnergyHessian.py:dMudX', 'thermo/FreeEnergyHessian.py:partialdMudX',
         'thermo/Mobility.py:mobility_from_composition_set', 'thermo/Mobility.py:tracer_diffusivity',
         'thermo/Mobility.py:mobility_matrix', 'thermo/Mobility.py:chemical_diffusivity',
         'thermo/Mobility.py:interdiffusivity', 'thermo/Mobility.py:inverseMobility',
         'thermo/Mobility.py:interdiffusivity_from_diff', 'thermo/Mobility.py:tracer_diffusivity_from_diff',
         'thermo/Thermodynamics.py:GeneralThermodynamics.getInterdiffusivity',
         'thermo/Thermodynamics.py:GeneralThermodynamics._interdiffusivitySingle',
         'thermo/Thermodynamics.py:GeneralThermodynamics.getTracerDiffusivity',
         'thermo/Thermodynamics.py:GeneralThermodynamics._tracerDiffusivitySingle',
         'thermo/Thermodynamics.py:GeneralThermodynamics.getLocalEq',
         'thermo/LocalEquilibrium.py:local_equilibrium',
         'thermo/Thermodynamics.py:GeneralThermodynamics.setMobilityCorrection',
         'thermo/Thermodynamics.py:GeneralThermodynamics.setMobility',
         'thermo/Thermodynamics.py:GeneralThermodynamics.setDiffusivity']
POINTS_PER_CASE = 12
N_BLOCKS = {'quick': 20, 'thorough': 200}
MIN_NONTRIVIAL = {'quick': 500, 'thorough': 5000}
CASE_TIMEOUT = 300
MAX_INCONCLUSIVE_FRACTION = 0.0
N_SAMPLES = 6
ASSUMPTIONS = [
    'for all (x,T) is sampled; admissibility (matrix = single stable phase) is decided by a pycalphad global '
    'equilibrium over all phases of the database (sampling density of its starting grid limits what it can see)',
    'an ordered partner phase (FCC_L12) reported with identical sublattice occupations is the disordered matrix',
    'the gas constant is accepted to four significant digits (8.3145 +- 1e-3)',
    'finite differences of converged local equilibria are the reference for the curvature; points whose Richardson '
    'values disagree by more than 5e-7, or whose stencil crosses a surface where the Gibbs-energy model is not smooth '
    '(magnetic transitions; fourth-difference probe on the phase record Hessian), are counted and not judged by the '
    'finite-difference clause (the analytic reference clause still judges them)',
    'pycalphad phase-record gradients/Hessians and symengine evaluation of the mobility expressions are trusted',
]

# ------------------------------------------------------------------------------------------------ tolerances
TOL_FD = 1e-4          # worst on the unchanged tree: 5.5e-7 (quick, seeds 0,1,2,3,7), 1.0e-6 (thorough, seeds 0,1);
                       # solver-noise limited; seeded breaks shift entries by 1e-3..1
TOL_FD_CONSIST = 5e-7  # two-h consistency needed before the FD value is used as an oracle
TOL_SYM = 1e-8
TOL_SMOOTH_D4 = 4e-6   # fourth difference of the analytic curvature over the widest stencil, relative, for h = 3.2e-2 x
                       # (scaled with h^4); smooth points: 1.56e-6 (ideal term) .. 2.8e-6 (concentrated magnetic bcc)
TOL_REF = 1e-9         # dMudX vs analytic projected Hessian of the phase record (floating point; measured 8e-15)
TOL_IMAG = 1e-12
TOL_COLSUM = 1e-12
TOL_DARKEN = 1e-6
TOL_R_ABS = 1e-3       # |R_eff - 8.3145|
TOL_R_SAME = 1e-10     # all elements of a point show the same R_eff; compiled vs symbolic mobility
R_NOMINAL = 8.3145
H_REL_SETS = [[3.2e-2, 1.6e-2, 8e-3], [2.6e-2, 1.3e-2, 6.5e-3], [2.9e-2, 1.45e-2, 7.25e-3], [2.2e-2, 1.1e-2, 5.5e-3]]
# FD step / min(x_j, x_ref): h, h/2, h/4.  Two sets must resolve and agree; later sets are retries (never wider than
# the first: the smoothness probe loses sensitivity as h^4)
TOL_FD_PAIR = 1e-6     # agreement of the Richardson values of two independent step-size sets
CORR_MODES = ['none', 'all', 'elements']   # setMobilityCorrection: untouched / ('all', f) / one or two elements
CORR_RANGE = (0.2, 8.0)                    # f log-uniform
TOL_PHASE_REF = 1e-6                       # phase= argument vs object listing only that phase: two separate solver runs
                                           # (noise class; worst seen 8.9e-10 over quick seeds 0,1,2,3,7; break effect 1.4-2.3x)
TOL_CONSIST = 1e-6                         # interdiffusivity vs tracer diffusivities x analytic curvature
NT_XMIN = 1e-4

# ------------------------------------------------------------------------------------------------ systems
# box: solute -> (lo, hi) mole fraction; solvent = 1 - sum(solutes)
SYSTEMS = {
    'NiCrAl': {'src': ('dataset', 'NICRAL_TDB'), 'T': (900.0, 1650.0),
               'box': {'NI': None, 'CR': (1.2e-4, 0.42), 'AL': (1.2e-4, 0.20)}, 'model': 'mobility'},
    'NiCrAl_file': {'src': ('file', 'NiCrAl.tdb'), 'T': (900.0, 1650.0),
                    'box': {'NI': None, 'CR': (1.2e-4, 0.42), 'AL': (1.2e-4, 0.20)}, 'model': 'mobility'},
    'NiCrAl_diff': {'src': ('dataset', 'NICRAL_TDB_DIFF'), 'T': (900.0, 1650.0),
                    'box': {'NI': None, 'CR': (1.2e-4, 0.42), 'AL': (1.2e-4, 0.20)}, 'model': 'diffusivity'},
    'FeCrNi_fcc': {'src': ('dataset', 'FECRNI_DB'), 'T': (1000.0, 1750.0),
                   'box': {'FE': None, 'CR': (1.2e-4, 0.35), 'NI': (1.2e-4, 0.62)}, 'model': 'mobility'},
    'FeCrNi_bcc': {'src': ('file', 'FeCrNi.tdb'), 'T': (900.0, 1800.0),
                   'box': {'FE': None, 'CR': (1.2e-4, 0.75), 'NI': (1.2e-4, 0.06)}, 'model': 'mobility'},
    'AlMgSi': {'src': ('dataset', 'ALMGSI_DB'), 'T': (550.0, 900.0),
               'box': {'AL': None, 'MG': (1.2e-4, 0.14), 'SI': (1.2e-4, 0.016)}, 'model': 'mobility'},
    'AlMgSi_file': {'src': ('file', 'AlMgSi.tdb'), 'T': (550.0, 900.0),
                    'box': {'AL': None, 'MG': (1.2e-4, 0.14), 'SI': (1.2e-4, 0.016)}, 'model': 'mobility'},
    'CuTi': {'src': ('file', 'CuTi.tdb'), 'T': (650.0, 1330.0),
             'box': {'CU': None, 'TI': (1.2e-4, 0.08)}, 'model': 'mobility'},
    'AlZr_nokin': {'src': ('dataset', 'ALZR_TDB_NO_MOB'), 'T': (800.0, 932.0),
                   'box': {'AL': None, 'ZR': (1.02e-4, 9e-4)}, 'model': 'none'},
    'AlZr': {'src': ('dataset', 'ALZR_TDB'), 'T': (800.0, 932.0),
             'box': {'AL': None, 'ZR': (1.02e-4, 9e-4)}, 'model': 'diffusivity'},
}

# (system, class, elements (first = reference), phases (first = matrix)[, phase addressed with phase=])
VARIANTS = [
    # --- Ni-Cr-Al, ternary
    ('NiCrAl', 'general', ['NI', 'CR', 'AL'], ['FCC_A1']),
    ('NiCrAl', 'multi', ['NI', 'CR', 'AL'], ['FCC_A1', 'FCC_L12']),
    ('NiCrAl', 'multi', ['NI', 'AL', 'CR'], ['FCC_A1', 'FCC_L12']),
    ('NiCrAl', 'general', ['AL', 'CR', 'NI'], ['FCC_A1']),
    ('NiCrAl', 'general', ['CR', 'NI', 'AL'], ['FCC_A1']),
    ('NiCrAl_file', 'general', ['NI', 'AL', 'CR'], ['FCC_A1']),
    ('NiCrAl_diff', 'general', ['NI', 'CR', 'AL'], ['FCC_A1']),
    ('NiCrAl_diff', 'multi', ['NI', 'AL', 'CR'], ['FCC_A1', 'FCC_L12']),
    # --- Ni-Cr-Al, binaries
    ('NiCrAl', 'general', ['NI', 'CR'], ['FCC_A1']),
    ('NiCrAl', 'general', ['NI', 'AL'], ['FCC_A1']),
    ('NiCrAl', 'binary', ['NI', 'AL'], ['FCC_A1', 'FCC_L12']),
    ('NiCrAl', 'general', ['CR', 'NI'], ['FCC_A1']),
    ('NiCrAl_diff', 'general', ['NI', 'CR'], ['FCC_A1']),
    # --- Fe-Cr-Ni
    ('FeCrNi_fcc', 'general', ['FE', 'CR', 'NI'], ['FCC_A1']),
    ('FeCrNi_fcc', 'general', ['NI', 'FE', 'CR'], ['FCC_A1', 'BCC_A2']),
    ('FeCrNi_fcc', 'general', ['CR', 'NI', 'FE'], ['FCC_A1']),
    ('FeCrNi_bcc', 'general', ['FE', 'CR', 'NI'], ['BCC_A2', 'FCC_A1']),
    ('FeCrNi_bcc', 'general', ['CR', 'FE', 'NI'], ['BCC_A2']),
    ('FeCrNi_fcc', 'general', ['FE', 'NI'], ['FCC_A1']),
    ('FeCrNi_fcc', 'general', ['NI', 'FE'], ['FCC_A1']),
    ('FeCrNi_fcc', 'general', ['FE', 'CR'], ['FCC_A1']),
    ('FeCrNi_bcc', 'general', ['FE', 'CR'], ['BCC_A2']),
    ('FeCrNi_bcc', 'general', ['CR', 'FE'], ['BCC_A2', 'SIGMA']),
    # --- Fe-Cr-Ni, objects listing two phases that both carry mobility data; the judged phase is addressed through
    #     the explicit phase= argument (5th entry), as the first or as a later entry of the list, both list orders
    ('FeCrNi_bcc', 'general', ['FE', 'CR', 'NI'], ['FCC_A1', 'BCC_A2'], 'BCC_A2'),
    ('FeCrNi_bcc', 'general', ['CR', 'FE', 'NI'], ['BCC_A2', 'FCC_A1'], 'BCC_A2'),
    ('FeCrNi_fcc', 'general', ['FE', 'CR', 'NI'], ['BCC_A2', 'FCC_A1'], 'FCC_A1'),
    ('FeCrNi_fcc', 'general', ['NI', 'FE', 'CR'], ['FCC_A1', 'BCC_A2'], 'FCC_A1'),
    ('FeCrNi_bcc', 'general', ['FE', 'CR'], ['FCC_A1', 'BCC_A2'], 'BCC_A2'),
    ('FeCrNi_bcc', 'general', ['CR', 'FE'], ['BCC_A2', 'FCC_A1'], 'BCC_A2'),
    ('FeCrNi_bcc', 'general', ['FE', 'CR'], ['SIGMA', 'FCC_A1', 'BCC_A2'], 'BCC_A2'),
    ('FeCrNi_fcc', 'general', ['FE', 'NI'], ['BCC_A2', 'FCC_A1'], 'FCC_A1'),
    ('FeCrNi_fcc', 'general', ['FE', 'CR'], ['BCC_A2', 'FCC_A1'], 'FCC_A1'),
    ('FeCrNi_fcc', 'general', ['NI', 'FE'], ['FCC_A1', 'BCC_A2'], 'FCC_A1'),
    # --- Al-Mg-Si
    ('AlMgSi', 'multi', ['AL', 'MG', 'SI'], ['FCC_A1', 'MG2SI_B']),
    ('AlMgSi', 'general', ['AL', 'SI', 'MG'], ['FCC_A1']),
    ('AlMgSi', 'general', ['MG', 'AL', 'SI'], ['FCC_A1']),
    ('AlMgSi_file', 'general', ['SI', 'MG', 'AL'], ['FCC_A1']),
    ('AlMgSi', 'general', ['AL', 'MG'], ['FCC_A1']),
    ('AlMgSi', 'general', ['AL', 'SI'], ['FCC_A1']),
    ('AlMgSi', 'general', ['SI', 'AL'], ['FCC_A1']),
    # --- Cu-Ti
    ('CuTi', 'binary', ['CU', 'TI'], ['FCC_A1', 'CU4TI']),
    ('CuTi', 'general', ['CU', 'TI'], ['FCC_A1']),
    ('CuTi', 'general', ['TI', 'CU'], ['FCC_A1']),
    # --- Al-Zr (diffusivity only)
    ('AlZr', 'binary', ['AL', 'ZR'], ['FCC_A1', 'AL3ZR']),
    ('AlZr', 'general', ['ZR', 'AL'], ['FCC_A1']),
]


# user-defined kinetics: (system, class, elements, phases, mode); 'diff' only where the phase has no mobility data
# (kawin prefers mobilities when both exist)
USER_VARIANTS = [
    ('AlZr', 'binary', ['AL', 'ZR'], ['FCC_A1', 'AL3ZR'], 'mob'),
    ('AlZr', 'binary', ['AL', 'ZR'], ['FCC_A1', 'AL3ZR'], 'diff'),
    ('AlZr_nokin', 'general', ['ZR', 'AL'], ['FCC_A1'], 'mob'),
    ('AlZr_nokin', 'general', ['AL', 'ZR'], ['FCC_A1'], 'diff'),
    ('CuTi', 'binary', ['CU', 'TI'], ['FCC_A1', 'CU4TI'], 'mob'),
    ('CuTi', 'general', ['TI', 'CU'], ['FCC_A1'], 'mob'),
    ('FeCrNi_bcc', 'general', ['FE', 'CR'], ['BCC_A2'], 'mob'),
    ('FeCrNi_fcc', 'general', ['NI', 'FE'], ['FCC_A1'], 'mob'),
    ('NiCrAl', 'general', ['NI', 'CR', 'AL'], ['FCC_A1'], 'mob'),
    ('NiCrAl', 'multi', ['NI', 'AL', 'CR'], ['FCC_A1', 'FCC_L12'], 'mob'),
    ('FeCrNi_fcc', 'general', ['CR', 'NI', 'FE'], ['FCC_A1'], 'mob'),
    ('AlMgSi', 'general', ['AL', 'SI', 'MG'], ['FCC_A1'], 'mob'),
    ('NiCrAl_diff', 'general', ['NI', 'CR', 'AL'], ['FCC_A1'], 'diff'),
    ('NiCrAl_diff', 'multi', ['AL', 'NI', 'CR'], ['FCC_A1', 'FCC_L12'], 'diff'),
    ('NiCrAl_diff', 'general', ['CR', 'NI'], ['FCC_A1'], 'diff'),
]
N_USER_BLOCKS = {'quick': 8, 'thorough': 80}
TOL_USER_EXACT = 1e-12     # setDiffusivity: the public values ARE the prescribed function values


def plan(tier, seed):
    cases = _plan_standard(tier, seed)
    for b in range(N_USER_BLOCKS[tier]):
        for vi, (sysname, cls, els, phases, mode) in enumerate(USER_VARIANTS):
            cases.append({'kind': 'user', 'system': sysname, 'variant': vi, 'cls': cls, 'elements': els,
                          'phases': phases, 'mode': mode, 'block': b, 'program': (b + vi) % 4, 'n': 8,
                          'weight': 0.5})
    return cases


def _plan_standard(tier, seed):
    cases = []
    nb = N_BLOCKS[tier]
    for b in range(nb):
        for vi, var in enumerate(VARIANTS):
            sysname, cls, els, phases = var[:4]
            target = var[4] if len(var) > 4 else phases[0]
            cases.append({'system': sysname, 'variant': vi, 'cls': cls, 'elements': els, 'phases': phases,
                          'target': target, 'phase_arg': ('none' if len(var) == 4 else
                                                          'first' if target == phases[0] else 'later'),
                          'block': b, 'n': POINTS_PER_CASE, 'api': 'array' if (b + vi) % 3 == 0 else 'single',
                          'correction': (CORR_MODES[(b // 3 + vi) % 3] if SYSTEMS[sysname]['model'] == 'mobility'
                                         else 'none'),
                          'weight': 2.0 if len(els) == 3 else 1.0})
    return cases


# ------------------------------------------------------------------------------------------------ per-worker caches
_THERM = {}
_FILTER = {}
_SRC = {}


def _source(sysname):
    if sysname not in _SRC:
        kind, name = SYSTEMS[sysname]['src']
        if kind == 'dataset':
            import kawin.tests.datasets as ds
            _SRC[sysname] = getattr(ds, name)
        else:
            import os
            import kawin
            root = os.path.dirname(os.path.dirname(os.path.abspath(kawin.__file__)))
            path = os.path.join(root, 'examples', name)
            if not os.path.exists(path):        # scratch copies made for monitor validation hold only kawin/
                path = os.path.join('/repo', 'examples', name)
            with open(path) as f:
                _SRC[sysname] = f.read()
    return _SRC[sysname]


def _therm(case):
    key = (case['system'], case['cls'], tuple(case['elements']), tuple(case['phases']),
           case.get('kind', 'standard'), case.get('mode', ''))     # 'user' objects get their kinetics overwritten
    if key not in _THERM:
        from pycalphad import Database
        from kawin.thermo import GeneralThermodynamics, BinaryThermodynamics, MulticomponentThermodynamics
        cls = {'general': GeneralThermodynamics, 'binary': BinaryThermodynamics,
               'multi': MulticomponentThermodynamics}[case['cls']]
        # built from the TDB *string* (re-parsed for every object, as the repository tests do): kawin inserts a
        # DIS_<matrix> copy of the matrix parameters into the Database object it is given, so a parsed Database must
        # never be shared between objects
        _THERM[key] = cls(_source(case['system']), list(case['elements']), list(case['phases']))
    return _THERM[key]


def _filter_ctx(sysname, comps):
    key = (sysname, tuple(sorted(comps)))
    if key not in _FILTER:
        from pycalphad import Database
        from pycalphad.core.utils import filter_phases, unpack_species
        db = Database(_source(sysname))
        cv = sorted(comps) + ['VA']
        phases = sorted(filter_phases(db, unpack_species(db, cv), list(db.phases.keys())))
        _FILTER[key] = {'db': db, 'cv': cv, 'phases': phases, 'models': None, 'prf': None}
    return _FILTER[key]


def _disordered_partner_state(db, cs, matrix):
    """True if composition set `cs` belongs to the ordered partner of `matrix` and is in the disordered state."""
    name = cs.phase_record.phase_name
    hints = db.phases[name].model_hints
    if hints.get('disordered_phase') != matrix or hints.get('ordered_phase') != name:
        return False
    nsv = len(cs.phase_record.state_variables)
    y = np.array(cs.dof)[nsv:]
    cons = db.phases[name].constituents
    base = cons[0]
    occ = {}
    for var, val in zip(cs.phase_record.variables, y):
        if var.species.name == 'VA':
            continue
        if cons[var.sublattice_index] == base:
            occ.setdefault(var.species.name, []).append(float(val))
    nsub = sum(1 for c in cons if c == base)
    if nsub < 2:
        return False
    spread = max((max(vs) - min(vs)) if len(vs) == nsub else 1.0 for vs in occ.values())
    return spread < 1e-6


def _admissible(sysname, matrix, X, T):
    """Global equilibrium over all database phases (independent of the kawin object) -> (ok, reason)."""
    from pycalphad import Workspace, variables as v
    ctx = _filter_ctx(sysname, list(X.keys()))
    comps = sorted(X.keys())
    cond = {v.X(e): float(X[e]) for e in comps[1:]}
    cond.update({v.T: float(T), v.P: 101325, v.N: 1})
    try:
        if ctx['models'] is None:
            w = Workspace(ctx['db'], ctx['cv'], ctx['phases'], cond)
        else:
            w = Workspace(ctx['db'], ctx['cv'], ctx['phases'], cond, models=ctx['models'],
                          phase_record_factory=ctx['prf'])
        css = w.get_composition_sets()
        if ctx['models'] is None:
            ctx['models'] = w.models
            ctx['prf'] = w.phase_record_factory
    except Exception:
        return False, 'filter_error'
    if len(css) == 0:
        return False, 'filter_no_solution'
    if len(css) > 1:
        return False, 'not_single_phase'
    cs = css[0]
    xs = np.array(cs.X)
    lab = list(cs.phase_record.nonvacant_elements)
    if any(abs(xs[lab.index(e)] - X[e]) > 1e-8 for e in comps):
        return False, 'filter_off_composition'
    name = cs.phase_record.phase_name
    if name == matrix:
        return True, 'matrix'
    if _disordered_partner_state(ctx['db'], cs, matrix):
        return True, 'matrix_as_disordered_partner'
    return False, 'other_phase_stable'


# ------------------------------------------------------------------------------------------------ sampling
def _sample_point(sysname, els, rng):
    box = SYSTEMS[sysname]['box']
    solvent = [e for e, b in box.items() if b is None][0]
    if solvent not in els:      # binary sub-system without the nominal solvent: not used
        raise ValueError('variant without solvent')
    for _ in range(100):
        X = {}
        for e in els:
            if e == solvent:
                continue
            lo, hi = box[e]
            if rng.random() < 0.5:
                X[e] = float(10 ** rng.uniform(math.log10(lo), math.log10(hi)))
            else:
                X[e] = float(rng.uniform(lo, hi))
        s = 1.0 - sum(X.values())
        if s >= 0.03:
            X[solvent] = s
            T0, T1 = SYSTEMS[sysname]['T']
            return X, float(rng.uniform(T0, T1))
    raise RuntimeError('sampler failed')


# ------------------------------------------------------------------------------------------------ oracles
def _mu(therm, phase, x, T):
    res, css = therm.getLocalEq(x, T, 0, [phase])
    mu = np.array(res.chemical_potentials, dtype=float)
    ok = bool(res.converged) and np.all(np.isfinite(mu))
    return ok, mu, css[0]


def _projected_hessian(cs, labels, ref):
    """Second derivative of the phase's own Gibbs energy (pycalphad phase record, no kawin code) projected on the
    composition simplex, d2G/dx_a dx_b with x_ref dependent.  Only defined for phases whose site fractions are fixed
    by the composition: one substitutional sublattice holding every element, all other sublattices vacancy only
    (true for every matrix phase used here: FCC_A1, BCC_A2, DIS_FCC_A1).  Returns None otherwise."""
    pr = cs.phase_record
    dof = np.array(cs.dof, dtype=float)
    ns = len(pr.state_variables)
    idx = {}
    for k, var in enumerate(pr.variables):
        if var.species.name == 'VA':
            if var.sublattice_index == 0:
                return None
            continue
        if var.sublattice_index != 0 or var.species.name in idx:
            return None
        idx[var.species.name] = ns + k
    if sorted(idx) != sorted(labels):
        return None
    d2g = np.zeros((len(dof), len(dof)))
    pr.formulahess(d2g, dof)
    rest = [e for e in labels if e != ref]
    ir = idx[ref]
    H = np.zeros((len(rest), len(rest)))
    for a, ea in enumerate(rest):
        for b, eb in enumerate(rest):
            H[a, b] = d2g[idx[ea], idx[eb]] - d2g[idx[ea], ir] - d2g[ir, idx[eb]] + d2g[ir, ir]
    return H


def _dmu_all(cs, labels, ref):
    """d mu_i / d(x_j - x_ref) for EVERY element i (rows, order of `labels`) and every j != ref, from the phase
    record's Hessian Hy with respect to the site fractions of the substitutional sublattice:
    mu_i = G + sum_l (delta_il - x_l) dG/dy_l  =>  d mu_i along v (sum v = 0) = sum_l (delta_il - x_l) (Hy v)_l.
    Same applicability as _projected_hessian.  -> list over i of dict j -> value, or None"""
    pr = cs.phase_record
    dof = np.array(cs.dof, dtype=float)
    ns = len(pr.state_variables)
    idx = {}
    for k, var in enumerate(pr.variables):
        if var.species.name == 'VA':
            if var.sublattice_index == 0:
                return None
            continue
        if var.sublattice_index != 0 or var.species.name in idx:
            return None
        idx[var.species.name] = ns + k
    if sorted(idx) != sorted(labels):
        return None
    d2g = np.zeros((len(dof), len(dof)))
    pr.formulahess(d2g, dof)
    y = np.array([dof[idx[e]] for e in labels])
    out = []
    for i, ei in enumerate(labels):
        row = {}
        for ej in labels:
            if ej == ref:
                continue
            hv = np.array([d2g[idx[el], idx[ej]] - d2g[idx[el], idx[ref]] for el in labels])
            row[ej] = float(sum(((1.0 if l == i else 0.0) - y[l]) * hv[l] for l in range(len(labels))))
        out.append(row)
    return out


def _fd_G(therm, phase, els, X, T, hrel):
    """G[i, j] = d mu_i / d(e_j - e_ref0) by central differences; i alphabetical, j over els[1:] (input order).

    The backend realises a requested composition only to its own mass-balance tolerance (seen: 8e-7 relative on a
    1e-4 solute), so the displacement actually realised (composition of the returned composition sets) is used:
    dMU = G dP with dP the realised differences of the independent mole fractions.
    Also returns the composition sets at the stencil ends [(cs+, cs-) per direction] for the smoothness probe."""
    ref0 = els[0]
    x0 = np.array([X[e] for e in els[1:]], dtype=float)
    n = len(els)
    dMU = np.zeros((n, n - 1))
    dP = np.zeros((n - 1, n - 1))
    ends = []
    for j, e in enumerate(els[1:]):
        h = hrel * min(X[e], X[ref0])
        xp = x0.copy()
        xm = x0.copy()
        xp[j] += h
        xm[j] -= h
        okp, mup, csp = _mu(therm, phase, xp, T)
        okm, mum, csm = _mu(therm, phase, xm, T)
        if not (okp and okm):
            return None, None
        lab = list(csp.phase_record.nonvacant_elements)
        rp = np.array(csp.X, dtype=float)
        rm = np.array(csm.X, dtype=float)
        real = np.array([rp[lab.index(el)] - rm[lab.index(el)] for el in els[1:]])
        if abs(real[j] / (2 * h) - 1.0) > 1e-3:       # the backend did not go where it was asked to
            return None, None
        dMU[:, j] = mup - mum
        dP[:, j] = real
        ends.append((csp, csm))
    return dMU @ np.linalg.inv(dP), ends


def _model_smooth(cs0, ends0, ends1, labels, ref0, hrel0):
    """Kawin-independent probe: is the Gibbs-energy model smooth across the finite-difference stencil?

    The IHJ magnetic model of the shipped databases is only piecewise smooth in composition (surfaces T = Tc(x),
    Tc(x) = 0, beta(x) = 0: the second derivative of G jumps there - measured 7e-6 relative at beta = 0 in Ni-Cr,
    ~10 % at the Curie surface of bcc Fe-Cr).  A central difference whose stencil contains such a surface converges
    to the mean of the two one-sided curvatures for all h, so the two-h test cannot see it.  Probe: the fourth
    difference of the analytic curvature Hp of the phase record over the five equally spaced stencil points
    x-h, x-h/2, x, x+h/2, x+h equals a^4 d4Hp/dx4 for a smooth model (1.6e-6 of Hp for the ideal-solution term
    with h = 3.2e-2 x) and is at least |J| if Hp jumps by J anywhere inside the stencil.
    -> (ok, worst fourth difference relative to the curvature scale, normalised to h = 3.2e-2 x)"""
    H0 = _projected_hessian(cs0, labels, ref0)
    if H0 is None:
        return None, None
    scale = np.sqrt(np.abs(np.outer(np.diag(H0), np.diag(H0))))
    worst = 0.0
    for (p0, m0), (p1, m1) in zip(ends0, ends1):
        d4 = (_projected_hessian(p0, labels, ref0) + _projected_hessian(m0, labels, ref0)
              - 4.0 * (_projected_hessian(p1, labels, ref0) + _projected_hessian(m1, labels, ref0)) + 6.0 * H0)
        worst = max(worst, float(np.max(np.abs(d4) / scale)))
    worst *= (3.2e-2 / hrel0) ** 4
    return worst <= TOL_SMOOTH_D4, worst


def _H_from_G(G, labels, els, ref):
    """Finite-difference d(mu_a - mu_ref)/d x_b (x_ref dependent), a,b alphabetical without ref."""
    # direction e_b - e_ref = (e_b - e_ref0) - (e_ref - e_ref0); column of e_ref0 - e_ref0 is zero
    col = {els[0]: np.zeros(G.shape[0])}
    for j, e in enumerate(els[1:]):
        col[e] = G[:, j]
    rest = [e for e in labels if e != ref]
    ir = labels.index(ref)
    H = np.zeros((len(rest), len(rest)))
    for a, ea in enumerate(rest):
        ia = labels.index(ea)
        for b, eb in enumerate(rest):
            d = col[eb] - col[ref]
            H[a, b] = d[ia] - d[ir]
    return H


def _scaled_diff(A, B, S):
    """max_ij |A_ij - B_ij| / sqrt(|S_ii S_jj|)"""
    d = np.sqrt(np.abs(np.outer(np.diag(S), np.diag(S))))
    d = np.where(d > 0, d, np.inf)
    return float(np.max(np.abs(A - B) / d))


def _fd_oracle(therm, phase, els, labels, cs0, X, T, R):
    """Finite-difference oracle for dMudX, for every reference element.

    One step-size set gives three central differences D(h), D(h/2), D(h/4) and the Richardson values R01, R12; the set
    *resolves* if (a) the model is smooth across its widest stencil (_model_smooth) and (b) R01 and R12 agree to
    TOL_FD_CONSIST for every reference element (two-h consistency test on the extrapolated values).  The solver
    reports chemical potentials that are off by 1e-6..1e-4 J/mol in 11 % of the calls (measured against the gradient
    of the phase's Gibbs energy at the returned state; the reported potentials lag the reported site fractions by one
    damped Newton step); such a glitch enters R01 and R12 with different weights and shows up in the consistency
    value, but combinations of glitches were seen to leave 3.7e-6 with a consistency of 5e-7 once in 150 000
    evaluations.  Therefore TWO independent step-size sets must resolve and agree to TOL_FD_PAIR; the oracle is their
    mean.  -> (dict ref -> H_fd | None, consistency, reason)"""
    worst = None
    passed = []
    for attempt, hset in enumerate(H_REL_SETS):
        Gs, ends = [], []
        for hrel in hset:
            G, e = _fd_G(therm, phase, els, X, T, hrel)
            if G is None:
                break
            Gs.append(G)
            ends.append(e)
        if len(Gs) < 3:
            continue
        smooth, dev = _model_smooth(cs0, ends[0], ends[1], labels, els[0], hset[0])
        if smooth is None:
            return None, None, 'fd_probe_not_applicable'
        if not smooth:
            R.info.setdefault('nonsmooth_at', []).append({'x': X, 'T': T, 'd4': dev})
            return None, None, 'fd_model_nonsmooth_in_stencil'
        R.worst('smooth_d4', dev)
        out = {}
        worst = 0.0
        for ref in labels:
            D0, D1, D2 = (_H_from_G(G, labels, els, ref) for G in Gs)
            R01 = (4.0 * D1 - D0) / 3.0
            R12 = (4.0 * D2 - D1) / 3.0
            worst = max(worst, _scaled_diff(R01, R12, R12))
            out[ref] = R12
        if worst > TOL_FD_CONSIST:
            continue
        for prev_attempt, prev, prev_worst in passed:
            pair = max(_scaled_diff(prev[ref], out[ref], out[ref]) for ref in labels)
            if pair <= TOL_FD_PAIR:
                R.worst('fd_consistency', max(worst, prev_worst))
                R.worst('fd_pair_agreement', pair)
                R.observe('fd_resolved_sets_%d%d' % (prev_attempt, attempt))
                return {ref: 0.5 * (prev[ref] + out[ref]) for ref in labels}, max(worst, prev_worst), 'fd_resolved'
        passed.append((attempt, out, worst))
    return None, worst, 'fd_unresolved'


def _sym_mobility(therm, phase, cs, el):
    mm = therm.mobModels[phase]
    names = list(cs.phase_record.state_variables) + list(cs.phase_record.variables)
    sub = {s: float(val) for s, val in zip(names, np.array(cs.dof))}
    return float(mm.mobility[el].xreplace(sub))


# ------------------------------------------------------------------------------------------------ user-defined kinetics
def _arrhenius(A, Q, as_mobility):
    """Distinct Arrhenius function of T per element (closure over its OWN A, Q)."""
    def f(T):
        val = A * np.exp(-Q / (8.314 * T))
        return val / (8.314 * T) if as_mobility else val
    f.A, f.Q = A, Q
    return f


def _run_user(case, R):
    """Configuration class 'user-defined kinetics': mobilities (mode 'mob') or diffusivities (mode 'diff') are set
    through every public form of setMobility / setDiffusivity (single function; dictionary in several key orders;
    element=... one at a time; overwriting an earlier setting) with a distinct Arrhenius function per element, and
    after every setting step the public tracer diffusivity and interdiffusivity are compared with the PRESCRIBED
    functions: mode 'mob': D*_e = R_eff T M_e(T) and D^n_kj = sum_i (delta_ik - x_k) x_i M_i(T) dmu_i/d(x_j - x_n)
    (binary: also Darken with G'' = dMudX); mode 'diff' (documented: the callable IS the diffusivity of the element):
    D*_e = D_e(T) and the interdiffusivity is diag(D_e(T)) over the non-reference elements in input order."""
    from vlib import core
    from kawin.thermo.FreeEnergyHessian import dMudX
    rng = core.case_rng(case['seed'], PROPERTY, case['idx'])
    sysname, els, mode = case['system'], list(case['elements']), case['mode']
    n = len(els)
    therm = _therm(case)
    phase = therm.phases[0]
    matrix = case['phases'][0]
    ref0 = els[0]
    mob = mode == 'mob'
    setter = therm.setMobility if mob else therm.setDiffusivity
    mech0 = {'system': sysname, 'cls': case['cls'], 'elements': '-'.join(els), 'n_elements': n, 'kinetics': 'user',
             'mode': mode, 'kawin_phase': phase}
    R.observe('cases_user_' + mode)

    # ---- admitted points (same admission filter)
    pts = []
    for _ in range(case['n']):
        X, T = _sample_point(sysname, els, rng)
        R.observe('candidates')
        ok, why = _admissible(sysname, matrix, X, T)
        R.observe(('admitted_' if ok else 'rejected_') + why)
        if ok and len(pts) < 4:
            pts.append((X, T))
    if not pts:
        R.set_nontrivial(False)
        return
    state = []
    for X, T in pts:
        x = [X[e] for e in els[1:]]
        try:
            ok, mu0, cs = _mu(therm, phase, x, T)
            R.count('call_succeeds')
        except Exception as e:
            R.exception('call_succeeds', e, dict(mech0, call='getLocalEq'))
            continue
        labels = list(cs.phase_record.nonvacant_elements)
        xcs = np.array(cs.X, dtype=float)
        if not ok or sorted(labels) != sorted(els) or max(abs(xcs[labels.index(e)] - X[e]) for e in els) > 1e-9:
            R.observe('skipped_local_eq')
            continue
        Phi = _dmu_all(cs, labels, ref0)
        if Phi is None:
            R.observe('consistency_reference_not_applicable')
            continue
        G2 = float(np.array(dMudX(mu0, cs, ref0))[0, 0]) if n == 2 else None
        state.append((X, T, x, labels, xcs, Phi, G2))
    if not state:
        R.set_nontrivial(False)
        return

    # ---- program of setting steps; `cur` = functions that must be in force after each step
    def fresh():
        return {e: _arrhenius(float(10 ** rng.uniform(-5, -3)), float(rng.uniform(1.2e5, 3.0e5)), mob) for e in els}

    def order(kind):
        if kind == 'input':
            return list(els)
        if kind == 'reversed':
            return list(els)[::-1]
        if kind == 'alphabetical':
            return sorted(els)
        if kind == 'rotated':
            return list(els[1:]) + [els[0]]
        return [els[i] for i in rng.permutation(n)]

    orders = ['input', 'reversed', 'alphabetical', 'rotated', 'random']
    prog = case['program']
    steps = []          # (form label, callable performing the public call, expected dict afterwards)
    cur = {}

    def step_single():
        f = fresh()[els[0]]
        steps.append(('single', lambda: setter(f, phase), {e: f for e in els}))

    def step_dict(kind):
        fs = fresh()
        d = {e: fs[e] for e in order(kind)}
        steps.append(('dict_' + kind, lambda: setter(d, phase), dict(fs)))

    def step_element(e, base):
        fs = fresh()                       # dictionary with new functions for every key, only `e` is to be taken
        exp = dict(base)
        exp[e] = fs[e]
        steps.append(('element', lambda: setter(fs, phase, element=e), exp))
        return exp

    k0 = orders[(case['block'] + case['variant']) % len(orders)]
    k1 = orders[(case['block'] + case['variant'] + 2) % len(orders)]
    if prog == 0:
        step_single()
        step_dict(k0)
    elif prog == 1:
        step_dict(k0)
        base = steps[-1][2]
        for e in order('random'):
            base = step_element(e, base)
    elif prog == 2:
        step_dict(k0)
        step_single()
    else:
        step_dict(k0)
        step_dict(k1)
        step_element(ref0, steps[-1][2])

    all_ok_steps = 0
    history = []
    for form, do, exp in steps:
        history.append(form)
        mech = dict(mech0, form=form, after='>'.join(history[:-1]) or 'initial')
        try:
            do()
            R.count('call_succeeds')
        except Exception as e:
            R.exception('call_succeeds', e, dict(mech, call='set'))
            break
        cur = exp
        R.observe('user_steps_' + form.split('_')[0])
        # ---- public results: scalar T per point, then one array call
        results = []
        try:
            for (X, T, x, labels, xcs, Phi, G2) in state:
                xa = x[0] if (n == 2 and case['block'] % 2 == 0) else x
                results.append(('scalar', np.asarray(therm.getInterdiffusivity(xa, T), dtype=float),
                                np.asarray(therm.getTracerDiffusivity(xa, T), dtype=float)))
            if len(state) >= 2:
                xs = [s[2] for s in state]
                Ts = [s[1] for s in state]
                Da = therm.getInterdiffusivity(xs, Ts)
                Ta = therm.getTracerDiffusivity(xs, Ts)
                for i in range(len(state)):
                    results.append(('array', np.asarray(Da[i], dtype=float), np.asarray(Ta[i], dtype=float)))
            R.count('call_succeeds')
        except Exception as e:
            R.exception('call_succeeds', e, dict(mech, call='public'))
            break
        for ri, (targ, D, Dt) in enumerate(results):
            X, T, x, labels, xcs, Phi, G2 = state[ri % len(state)]
            m = dict(mech, T_arg=targ)
            val = np.array([float(cur[e](T)) for e in els])          # prescribed, input order
            shape_ok = Dt.shape == (n,) and (D.shape == (() if n == 2 else (n - 1, n - 1)))
            if not shape_ok or not np.all(np.isfinite(Dt)) or not np.all(np.isfinite(D)):
                R.check('user_tracer', False, m, tracer=Dt, D=D, x=X, T=T)
                continue
            Dm = np.atleast_2d(D)
            if mob:
                Reffs = Dt / (T * val)
                dev_R = float(np.max(np.abs(Reffs - R_NOMINAL)))
                spread = float((np.max(Reffs) - np.min(Reffs)) / np.mean(Reffs))
                R.worst('user_tracer_R_spread', spread)
                R.check('user_tracer', dev_R <= TOL_R_ABS and spread <= TOL_R_SAME and bool(np.all(Dt > 0)), m,
                        tracer=Dt, prescribed_mobility=val, R_eff=Reffs, elements=els, x=X, T=T)
                xl = np.array([xcs[labels.index(e)] for e in labels])
                Ml = np.array([val[els.index(e)] for e in labels])
                rest = els[1:]
                Dref = np.zeros((n - 1, n - 1))
                Sabs = np.zeros((n - 1, n - 1))
                for k, ek in enumerate(rest):
                    for j, ej in enumerate(rest):
                        terms = [((1.0 if ei == ek else 0.0) - xl[labels.index(ek)]) * xl[i] * Ml[i] * Phi[i][ej] for i, ei in enumerate(labels)]
                        Dref[k, j] = sum(terms)
                        # conditioning: the curvature row of a dilute species holds RT/x_i (1e7 ... 1e8) next to entries of 1e3;
                        # both routes obtain the small ones with an absolute noise of ~1e-11 of the largest entry of the row
                        Sabs[k, j] = sum(abs(((1.0 if ei == ek else 0.0) - xl[labels.index(ek)]) * xl[i] * Ml[i]) * 1e-5 * max(abs(v) for v in Phi[i].values())
                                         for i, ei in enumerate(labels))
                # scale of an entry: sqrt(D_kk D_jj), but never below the conditioning floor computed above (prescribed mobilities
                # may differ by ten orders of magnitude and the fastest species may be dilute: a thorough run raised a false
                # alarm at 8.8e-5 relative on an entry that is 1e-10 of the largest one)
                sc = np.maximum(np.sqrt(np.abs(np.outer(np.diag(Dref), np.diag(Dref)))), Sabs)
                rel = float(np.max(np.abs(Dm - Dref) / sc)) if np.all(sc > 0) else float('inf')
                if n == 2:      # Darken with kawin's own curvature and the prescribed mobilities
                    a, b = els[0], els[1]
                    xa_, xb_ = float(xcs[labels.index(a)]), float(xcs[labels.index(b)])
                    dark = xa_ * xb_ * G2 * (xb_ * val[0] + xa_ * val[1])
                    rel = max(rel, abs(float(D) - dark) / abs(dark))
                R.worst('user_interdiff_rel_mob', rel if math.isfinite(rel) else 1e300)
                R.check('user_interdiff', rel <= TOL_CONSIST and bool(np.all(np.linalg.eigvals(Dm).real > 0)), m,
                        D=Dm, expected=Dref, rel=rel, prescribed_mobility=val, elements=els, x=X, T=T)
            else:
                relT = float(np.max(np.abs(Dt / val - 1.0)))
                R.worst('user_tracer_rel_diff', relT)
                R.check('user_tracer', relT <= TOL_USER_EXACT and bool(np.all(Dt > 0)), m, tracer=Dt,
                        prescribed_diffusivity=val, elements=els, x=X, T=T)
                Dref = np.diag(val[1:])
                rel = float(np.max(np.abs(Dm - Dref)) / np.min(val[1:]))
                R.worst('user_interdiff_rel_diff', rel)
                R.check('user_interdiff', rel <= TOL_USER_EXACT, m, D=Dm, expected=Dref, rel=rel, elements=els,
                        x=X, T=T)
        all_ok_steps += 1
    R.info['user_program'] = history
    R.set_nontrivial(all_ok_steps == len(steps) and any(min(s[0].values()) > NT_XMIN for s in state))


# ------------------------------------------------------------------------------------------------ the case
def run_case(case, R):
    from vlib import core
    if case.get('kind') == 'user':
        return _run_user(case, R)
    therm = _therm(case)
    els = list(case['elements'])
    # independent reference for the phase= argument: an object that lists only the judged phase
    ref_therm = None
    if case.get('phase_arg', 'none') != 'none':
        ref_therm = _therm({'system': case['system'], 'cls': 'general', 'elements': els, 'phases': [case['target']]})
    objs = [therm] + ([ref_therm] if ref_therm is not None else [])
    # ---- mobility corrections through the public API (objects are cached per worker: always reset)
    fac = {e: 1.0 for e in els}
    mode = case.get('correction', 'none')
    if mode != 'none':
        crng = core.case_rng(case['seed'], PROPERTY, case['idx'], extra=1)
        lo, hi = math.log(CORR_RANGE[0]), math.log(CORR_RANGE[1])
        if mode == 'all':
            f = float(math.exp(crng.uniform(lo, hi)))
            fac = {e: f for e in els}
        else:
            k = 1 if len(els) == 2 else int(crng.integers(1, 3))
            chosen = [els[i] for i in crng.permutation(len(els))[:k]]
            if crng.random() < 0.4 and els[0] not in chosen:     # make sure the reference element is often included
                chosen[0] = els[0]
            for e in chosen:
                fac[e] = float(math.exp(crng.uniform(lo, hi)))
    try:
        for t in objs:
            t.setMobilityCorrection('all', 1)
            if mode == 'all':
                t.setMobilityCorrection('all', fac[els[0]])
            elif mode == 'elements':
                for e in els:
                    if fac[e] != 1.0:
                        t.setMobilityCorrection(e, fac[e])
        R.info['correction'] = {'mode': mode, 'factors': fac}
        R.observe('cases_correction_' + mode)
        R.observe('cases_phase_arg_' + case.get('phase_arg', 'none'))
        _run_body(case, R, therm, fac, ref_therm)
    finally:
        for t in objs:
            t.setMobilityCorrection('all', 1)


def _run_body(case, R, therm, fac, ref_therm=None):
    from vlib import core
    from kawin.thermo.FreeEnergyHessian import dMudX
    from kawin.thermo import Mobility as kmob

    rng = core.case_rng(case['seed'], PROPERTY, case['idx'])
    sysname = case['system']
    els = list(case['elements'])
    n = len(els)
    model_kind = SYSTEMS[sysname]['model']
    matrix = case.get('target', case['phases'][0])      # the phase that must be the single stable one
    # kawin's name of the judged phase: first entry ('FCC_A1' or kawin's 'DIS_FCC_A1') or the later entry itself
    phase = therm.phases[0] if matrix == case['phases'][0] else matrix
    phase_arg = case.get('phase_arg', 'none')
    kw = {} if phase_arg == 'none' else {'phase': phase}
    ref0 = els[0]
    mode = case.get('correction', 'none')
    corr_mech = mode if mode != 'elements' else ('elements_incl_ref' if fac[ref0] != 1.0 else 'elements_solute_only')
    mech0 = {'system': sysname, 'matrix': matrix, 'kawin_phase': phase, 'cls': case['cls'], 'n_elements': n,
             'elements': '-'.join(els), 'model': model_kind, 'correction': corr_mech, 'phase_arg': phase_arg}
    fvec = np.array([fac[e] for e in els])          # input order
    R.info['phase'] = phase

    admitted = []
    for _ in range(case['n']):
        X, T = _sample_point(sysname, els, rng)
        R.observe('candidates')
        ok, why = _admissible(sysname, matrix, X, T)
        R.observe(('admitted_' if ok else 'rejected_') + why)
        if ok:
            admitted.append((X, T))
            R.observe('admitted[%s,%d]' % (sysname, n))
    R.info['admitted'] = len(admitted)
    if not admitted:
        R.set_nontrivial(False)
        return

    def xin(X):
        x = [X[e] for e in els[1:]]
        if n == 2 and case['block'] % 2 == 0:
            return x[0]          # scalar form for binaries
        return x

    # ---- public diffusivities, one array call or point by point (default removeCache=True)
    pubD, pubT = [None] * len(admitted), [None] * len(admitted)
    if case['api'] == 'array' and len(admitted) >= 2:
        xs = [[X[e] for e in els[1:]] for X, _ in admitted]
        Ts = [T for _, T in admitted]
        try:
            Dall = therm.getInterdiffusivity(xs, Ts, **kw)
            Tall = therm.getTracerDiffusivity(xs, Ts, **kw)
            R.count('call_succeeds', 2)
            for i in range(len(admitted)):
                pubD[i] = np.asarray(Dall[i], dtype=float)
                pubT[i] = np.asarray(Tall[i], dtype=float)
            R.observe('array_api_calls', 2)
        except Exception as e:  # the statement gives values everywhere in the region
            R.exception('call_succeeds', e, dict(mech0, call='public_array'))
            return
    nt = False
    for i, (X, T) in enumerate(admitted):
        mech = dict(mech0)
        x = [X[e] for e in els[1:]]
        # ---------------------------------------------------------------- local equilibrium at (x, T)
        try:
            ok, mu0, cs = _mu(therm, phase, x, T)
            R.count('call_succeeds')
        except Exception as e:
            R.exception('call_succeeds', e, dict(mech, call='getLocalEq'))
            continue
        if not ok:
            R.observe('skipped_local_eq_unconverged')
            continue
        labels = list(cs.phase_record.nonvacant_elements)
        xcs = np.array(cs.X, dtype=float)
        if sorted(labels) != sorted(els) or max(abs(xcs[labels.index(e)] - X[e]) for e in els) > 1e-9:
            R.observe('skipped_local_eq_off_composition')
            R.info.setdefault('off_composition_at', []).append({'x': X, 'T': T, 'realised': xcs, 'labels': labels})
            continue
        R.observe('points_judged')
        solutes_ok = min(X.values()) > NT_XMIN

        # ---------------------------------------------------------------- curvature
        Hk = {}
        try:
            for ref in labels:
                Hk[ref] = np.array(dMudX(mu0, cs, ref), dtype=float)
            R.count('call_succeeds')
        except Exception as e:
            R.exception('call_succeeds', e, dict(mech, call='dMudX'))
            continue
        for ref in labels:
            H = Hk[ref]
            m = dict(mech, ref='first_listed' if ref == ref0 else 'other')
            dg = np.diag(H)
            finite = bool(np.all(np.isfinite(H)))
            if finite and np.all(dg != 0):
                asym = _scaled_diff(H, H.T, H)
            else:
                asym = float('inf')
            R.worst('asym_rel', asym if math.isfinite(asym) else 1e300)
            R.check('hessian_symmetric', asym <= TOL_SYM, m, H=H, asym=asym, x=X, T=T, ref_element=ref)
            if finite:
                ev = np.linalg.eigvalsh(0.5 * (H + H.T))
                R.check('hessian_posdef', bool(ev[0] > 0), m, H=H, eigenvalues=ev, x=X, T=T, ref_element=ref)
                if ev[0] > 0:
                    R.worst('posdef_log10_cond', math.log10(ev[-1] / ev[0]))
            else:
                R.check('hessian_posdef', False, m, H=H, x=X, T=T, ref_element=ref)
        fd, cons, why = _fd_oracle(therm, phase, els, labels, cs, X, T, R)
        for ref in labels:
            Hp = _projected_hessian(cs, labels, ref)
            if Hp is None:
                R.observe('reference_hessian_not_applicable')
                break
            m = dict(mech, ref='first_listed' if ref == ref0 else 'other')
            err = _scaled_diff(Hk[ref], Hp, Hp) if np.all(np.isfinite(Hk[ref])) else float('inf')
            R.worst('hessian_reference_rel', err if math.isfinite(err) else 1e300)
            R.check('hessian_reference', err <= TOL_REF, m, dMudX=Hk[ref], phase_record_hessian=Hp, rel=err,
                    x=X, T=T, ref_element=ref)
        if fd is None:
            R.observe(why)
            if why == 'fd_unresolved':
                R.info.setdefault('fd_unresolved_at', []).append({'x': X, 'T': T, 'consistency': cons})
        else:
            R.observe('fd_resolved')
            for ref in labels:
                m = dict(mech, ref='first_listed' if ref == ref0 else 'other')
                err = _scaled_diff(Hk[ref], fd[ref], fd[ref]) if np.all(np.isfinite(Hk[ref])) else float('inf')
                R.worst('fd_rel', err if math.isfinite(err) else 1e300)
                R.check('hessian_fd', err <= TOL_FD, m, dMudX=Hk[ref], finite_difference=fd[ref], rel=err,
                        consistency=cons, x=X, T=T, ref_element=ref)

        # ---------------------------------------------------------------- public diffusivities
        if pubD[i] is None:
            try:
                pubD[i] = np.asarray(therm.getInterdiffusivity(xin(X), T, **kw), dtype=float)
                pubT[i] = np.asarray(therm.getTracerDiffusivity(xin(X), T, **kw), dtype=float)
                R.count('call_succeeds', 2)
            except Exception as e:
                R.exception('call_succeeds', e, dict(mech, call='public_single'))
                continue
        D, Dt = pubD[i], pubT[i]
        m_api = dict(mech, api=case['api'] if len(admitted) >= 2 else 'single')
        # interdiffusivity: real positive spectrum
        if n == 2:
            okD = D.shape == () and math.isfinite(float(D)) and float(D) > 0
            R.check('interdiff_eigen', okD, m_api, D=D, x=X, T=T)
        else:
            okshape = D.shape == (n - 1, n - 1) and bool(np.all(np.isfinite(D)))
            if okshape:
                ev = np.linalg.eigvals(D)
                im = float(np.max(np.abs(ev.imag) / np.abs(ev.real))) if np.all(ev.real != 0) else float('inf')
                R.worst('eig_imag_rel', im if math.isfinite(im) else 1e300)
                R.check('interdiff_eigen', bool(np.all(ev.real > 0)) and im <= TOL_IMAG, m_api, D=D, eigenvalues=ev,
                        x=X, T=T)
                if np.all(ev.real > 0):
                    R.worst('interdiff_log10_eig_ratio', math.log10(max(ev.real) / min(ev.real)))
            else:
                R.check('interdiff_eigen', False, m_api, D=D, x=X, T=T)
        # tracer diffusivity: positive
        okT = Dt.shape == (n,) and bool(np.all(np.isfinite(Dt))) and bool(np.all(Dt > 0))
        R.check('tracer_positive', okT, m_api, tracer=Dt, x=X, T=T)

        # phase= argument: same values as an object that lists only this phase (default call)
        if ref_therm is not None:
            try:
                D0 = np.asarray(ref_therm.getInterdiffusivity(xin(X), T), dtype=float)
                Dt0 = np.asarray(ref_therm.getTracerDiffusivity(xin(X), T), dtype=float)
            except Exception as e:
                R.exception('call_succeeds', e, dict(mech, call='reference_object'))
                continue
            if D0.shape == D.shape and Dt0.shape == Dt.shape and np.all(np.isfinite(D0)) and np.all(Dt0 > 0):
                dd = np.atleast_2d(D) - np.atleast_2d(D0)
                sc = np.sqrt(np.abs(np.outer(np.diag(np.atleast_2d(D0)), np.diag(np.atleast_2d(D0)))))
                relD = float(np.max(np.abs(dd) / sc)) if np.all(sc > 0) and np.all(np.isfinite(dd)) else float('inf')
                relT = float(np.max(np.abs(Dt / Dt0 - 1.0))) if np.all(np.isfinite(Dt)) else float('inf')
            else:
                relD = relT = float('inf')
            R.worst('phase_arg_vs_single_phase_object', max(relD, relT) if math.isfinite(max(relD, relT)) else 1e300)
            R.check('phase_argument_reference', relD <= TOL_PHASE_REF and relT <= TOL_PHASE_REF, m_api,
                    D=D, D_single_phase_object=D0, tracer=Dt, tracer_single_phase_object=Dt0, relD=relD, relT=relT,
                    x=X, T=T)

        clauses_done = fd is not None
        if therm.mobCallables.get(phase) is None:
            R.observe('diffusivity_only_points')
        else:
            # ------------------------------------------------------------ tracer = R T M, element by element
            try:
                Mvec = np.array(kmob.mobility_from_composition_set(cs, therm.mobCallables[phase],
                                                                   therm.mobility_correction, therm._parameters), dtype=float)
                Mmat = np.array(kmob.mobility_matrix(cs, therm.mobCallables[phase],
                                                     mobility_correction=therm.mobility_correction,
                                                     vacancy_poor_interstitial_sublattice=False,
                                                     parameters=therm._parameters), dtype=float)
                R.count('call_succeeds', 2)
            except Exception as e:
                R.exception('call_succeeds', e, dict(mech, call='mobility'))
                continue
            # database mobility of each element times the correction set through setMobilityCorrection
            Msym = fvec * np.array([_sym_mobility(therm, phase, cs, e) for e in els])    # input order
            Mcomp = np.array([Mvec[labels.index(e)] for e in els])
            Reff = None
            if okT and np.all(Msym > 0):
                Reffs = Dt / (T * Msym)
                dev_R = float(np.max(np.abs(Reffs - R_NOMINAL)))
                same = float((np.max(Reffs) - np.min(Reffs)) / np.mean(Reffs))
                comp = float(np.max(np.abs(Mcomp / Msym - 1.0)))
                R.worst('tracer_R_dev', dev_R)
                R.worst('tracer_R_spread', same)
                R.worst('mobility_compiled_vs_symbolic', comp)
                okR = dev_R <= TOL_R_ABS and same <= TOL_R_SAME and comp <= TOL_R_SAME
                R.check('tracer_rtm', okR, m_api, tracer=Dt, mobility_symbolic=Msym, mobility_compiled=Mcomp,
                        R_eff=Reffs, elements=els, x=X, T=T)
                if okR:
                    Reff = float(np.mean(Reffs))
            else:
                R.check('tracer_rtm', False, m_api, tracer=Dt, mobility_symbolic=Msym, elements=els, x=X, T=T)
            # ------------------------------------------------------------ fluxes sum to zero (volume-fixed frame)
            # column b consists of (delta_ab - U_a) * X_b M_b: its rounding error is a few ulp of X_b M_b (the
            # magnitude of the cancelling terms), NOT of the largest matrix entry, which in a dilute alloy is
            # (1 - U_solvent) X M << X M; each column is therefore judged on its own scale X_b M_b.
            subs = [k for k, e in enumerate(labels) if e not in kmob.interstitials]
            colsum = np.sum(Mmat[subs, :][:, subs], axis=0)
            Msym_lab = np.array([Msym[els.index(e)] for e in labels])
            scale = np.abs(xcs * Msym_lab)[subs]
            if np.all(np.isfinite(Mmat)) and np.all(scale > 0):
                rel = float(np.max(np.abs(colsum) / scale))
            else:
                rel = float('inf')
            R.worst('colsum_rel', rel if math.isfinite(rel) else 1e300)
            R.check('flux_sum_zero', rel <= TOL_COLSUM, mech, mobility_matrix=Mmat, column_sums=colsum,
                    column_scale=scale, x=X, T=T)
            # ------------------------------------------------------------ Darken (binary)
            if n == 2:
                if Reff is not None and D.shape == ():
                    a, b = els[0], els[1]
                    G2 = float(Hk[a][0, 0])      # d(mu_b - mu_a)/dx_b
                    # composition of the equilibrium state itself (the backend realises the requested x only to
                    # its mass-balance tolerance, 8e-7 relative on a 1e-4 solute)
                    xa, xb = float(xcs[labels.index(a)]), float(xcs[labels.index(b)])
                    rhs = (xb * Dt[0] + xa * Dt[1]) * xa * xb * G2 / (Reff * T)
                    rel = abs(float(D) - rhs) / abs(rhs) if rhs != 0 else float('inf')
                    R.worst('darken_rel', rel if math.isfinite(rel) else 1e300)
                    R.check('darken_binary', rel <= TOL_DARKEN, m_api, D=float(D), darken=rhs, rel=rel, tracer=Dt,
                            G2=G2, R_eff=Reff, x=X, T=T)
                else:
                    R.observe('darken_skipped_no_R')
                    clauses_done = False
            # ------------------------------------------------------------ interdiffusivity vs tracer diffusivities
            # D^n_kj = sum_i (delta_ik - x_k) x_i D*_i/(R T) dmu_i/d(x_j - x_n); dmu_i along e_j - e_n from the phase
            # record Hessian Hy: sum_l (delta_il - x_l)(Hy_lj - Hy_ln)  (no kawin code); binary: Darken's equation
            Phi = _dmu_all(cs, labels, ref0)
            if Phi is None:
                R.observe('consistency_reference_not_applicable')
            elif Reff is not None and (D.shape == () or D.shape == (n - 1, n - 1)):
                xl = np.array([xcs[labels.index(e)] for e in labels])
                Ml = np.array([Dt[els.index(e)] for e in labels]) / (Reff * T)
                rest = els[1:]
                Dref = np.zeros((n - 1, n - 1))
                for k, ek in enumerate(rest):
                    for j, ej in enumerate(rest):
                        Dref[k, j] = sum(((1.0 if ei == ek else 0.0) - xl[labels.index(ek)]) * xl[i] * Ml[i]
                                         * Phi[i][ej] for i, ei in enumerate(labels))
                Dm = np.atleast_2d(D)
                sc = np.sqrt(np.abs(np.outer(np.diag(Dref), np.diag(Dref))))
                rel = float(np.max(np.abs(Dm - Dref) / sc)) if np.all(sc > 0) and np.all(np.isfinite(Dm)) else float('inf')
                R.worst('interdiff_consistency_rel', rel if math.isfinite(rel) else 1e300)
                R.check('interdiff_tracer_consistency', rel <= TOL_CONSIST, m_api, D=Dm, expected=Dref, rel=rel,
                        tracer=Dt, factors=fvec, elements=els, x=X, T=T)
            else:
                clauses_done = False
        if solutes_ok and clauses_done:
            nt = True
            R.observe('nontrivial_points')
    R.set_nontrivial(nt)


MANIFEST = {
    'text': 'Random (x,T) in the matrix region of the five shipped databases (ternary and binary sub-systems, several '
            'reference elements, FCC and BCC matrices, mobility and diffusivity databases), admitted only where a pycalphad '
            'global equilibrium over all database phases reports the matrix as the single stable phase. At every admitted '
            'point dMudX (for every reference element) is compared with Richardson-extrapolated central differences of the '
            'local-equilibrium chemical potentials and with the analytic projected Hessian of the phase record, checked for '
            'symmetry and positive definiteness; the public '
            'interdiffusivity must have a real positive spectrum, tracer diffusivities must be positive and equal R T times '
            'the symbolically evaluated database mobility of the same element, the binary interdiffusivity must satisfy the '
            'Darken identity, the public interdiffusivity must equal the volume-fixed-frame combination of the public tracer '
            'diffusivities and the analytic curvature, and the columns of the mobility matrix must sum to zero over '
            'substitutional rows; two thirds of the mobility cases run with uniform or per-element mobility corrections '
            'set through setMobilityCorrection.',
    'note': 'trusted: pycalphad equilibrium solver (admissibility filter and chemical potentials at x+-h), symengine '
            'evaluation of the mobility expressions; the universal quantifier is sampled; points whose finite differences '
            'do not resolve to 5e-7 are counted and not judged for the curvature clause',
    'technique': 'reference-model monitor (finite-difference and closed-form oracles) on return values of the public '
                 'thermodynamics/mobility functions at backend-certified single-phase states',
}
