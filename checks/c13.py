"""C13 - temperature schedules are followed faithfully.

Monitors:
  c13.recorded_T      at every accepted step the recorded temperature equals the user schedule evaluated (by an
                      independent interpolation in hours) at the recorded time (1e-9 relative); precipitation
                      models, all three ways of specifying temperature, binary / ternary / two-phase
  c13.equivalent_runs the same schedule given (a) through the setter, (b) through a TemperatureParameters object
                      passed to the constructor, (c) as a function that performs the same interpolation: all
                      16 histories and the final distributions are bit-identical (each run uses a freshly built
                      thermodynamics object, so equal inputs give equal bits); this is what "same
                      isothermal/non-isothermal treatment of incubation" means observably
  c13.table_fresh     binary non-isothermal runs: at every step the temperature of the most recent *full* build of
                      the interfacial-composition table (seen at the thermodynamics seam) is within
                      maxTempChange (1+1e-9) of the recorded temperature - heating, cooling, fast and slow ramps
  c13.solvus_window   the recorded planar equilibrium matrix composition lies between fresh evaluations of the
                      backend at T[n]-maxTempChange and T[n]+maxTempChange (sampled steps)
  c13.diffusion_T     diffusion models: the temperature passed to the backend for node i at a stage equals the
                      user's schedule/field at (z_i, stage time)
Not asserted: multicomponent precipitation runs have no table (only c13.recorded_T / c13.equivalent_runs apply).
"""
import numpy as np

from vlib import core, precip, precip_gen

PROPERTY = 'C13'
LEVEL = 'exploration'
RULE = ('binary Al-Zr non-isothermal runs (ramps of both signs 1e-3..10 K/s, holds, multi-segment, slow ramps forced below the refresh '
        'threshold per step through maxDtFrac, maxTempChange in {0.5,1,2,5} K), ternary/two-phase schedule-following runs, triples of '
        'equivalent specifications, diffusion models with T(t) arrays and T(z,t) fields; non-trivial = total |dT| >= 5 maxTempChange over the '
        'observed steps (schedule cases) / nucleation rate > 0 on a step where T differs from its initial value (triples); distinct by configuration hash')
REQUIRED_MONITORS = ['c13.recorded_T', 'c13.equivalent_runs', 'c13.table_fresh', 'c13.solvus_window', 'c13.diffusion_T', 'c13.schedule_value']
REACH = ['precipitation/PrecipitationParameters.py:TemperatureParameters.setTemperatureArray',
         'precipitation/KWNEuler.py:PrecipitateModel._growthRateBinary', 'precipitation/KWNEuler.py:PrecipitateModel._createLookupBinary',
         'precipitation/NucleationRate.py:incubationTimeNonIsothermal']
MIN_NONTRIVIAL = {'quick': 20, 'thorough': 140}
CASE_TIMEOUT = 1200
CASE_TIMEOUT_THOROUGH = 2400
MAX_INCONCLUSIVE_FRACTION = 0.05
N_SAMPLES = 3
ASSUMPTIONS = ['a "full table build" is an array-valued interfacial-composition query with one value per class boundary',
               'the planar solvus of Al-Zr is monotone in temperature over the sampled window']
MANIFEST = {
    'text': 'Recorded temperatures are compared with an independent evaluation of the schedule at every step; equivalent specifications are '
            'run as triples with fresh backends and compared bitwise; the temperature of every interfacial-composition table build is observed '
            'at the thermodynamics seam and compared with the current temperature at every step of heating/cooling/slow ramps.',
    'note': 'trusted: numpy interpolation as schedule reference; fresh backend evaluations for the solvus window',
    'technique': 'trace monitor over recorded (time, temperature, table-build) events + differential runs of equivalent specifications',
}
N_SCHED = {'quick': 14, 'thorough': 90}
N_OTHER = {'quick': 5, 'thorough': 30}
N_PAIR = {'quick': 6, 'thorough': 40}
N_DIFF = {'quick': 6, 'thorough': 40}
N_SCHED = {'quick': 8, 'thorough': 60}


def _alzr_noniso(rng, tier, slow=None):
    cfg = precip.default_cfg('alzr')
    cfg['iterator'] = str(rng.choice(['euler', 'rk4'], p=[0.7, 0.3]))
    cfg['x0'] = [float(np.exp(rng.uniform(np.log(3e-3), np.log(7e-3))))]
    cfg['gamma'] = {'AL3ZR': float(rng.uniform(0.08, 0.11))}
    T0 = float(rng.uniform(700, 770))
    dur = float(np.exp(rng.uniform(np.log(2e2), np.log(2e4))))
    total = float(rng.uniform(8, 45)) * (1 if rng.random() < 0.5 else -1)
    kind = str(rng.choice(['array', 'ramp', 'array_hold']))
    if kind == 'ramp':
        cfg['schedule'] = {'kind': 'ramp', 'T0': T0, 'rate': total / dur, 'lo': T0 - abs(total), 'hi': T0 + abs(total)}
    elif kind == 'array':
        cfg['schedule'] = {'kind': 'array', 'hours': [0.0, dur / 3600.0], 'temps': [T0, T0 + total]}
    else:
        h = dur / 3600.0
        cfg['schedule'] = {'kind': 'array', 'hours': [0.0, 0.3 * h, 0.5 * h, 0.8 * h, h],
                           'temps': [T0, T0 + 0.6 * total, T0 + 0.6 * total, T0 + total, T0 + 0.2 * total]}
    lim = float(rng.choice([0.5, 1.0, 2.0, 5.0]))
    cons = {'maxTempChange': lim, 'dtScale': float(rng.choice([1e-2, 0.1, 0.3]))}
    if rng.random() < 0.3:
        cons['checkTemperature'] = False
    if rng.random() < 0.3:
        cons['maxNonIsothermalDT'] = float(rng.choice([0.2, 1.0, 5.0]))
    cfg['constraints'] = cons
    slow = (rng.random() < 0.5) if slow is None else slow
    if slow:      # temperature change per step well below the refresh threshold
        cfg['maxDtFrac'] = float(min(1.0, rng.uniform(0.15, 0.6) * lim / abs(total)))
    cfg['pbm'] = {'cMin': 1e-10, 'cMax': 4e-9, 'bins': int(rng.integers(24, 36)), 'minBins': 20, 'maxBins': 44, 'adaptive': True}
    nseg = int(rng.choice([1, 1, 2, 3]))
    cuts = sorted(rng.uniform(0.1, 0.9, nseg - 1).tolist())
    edges = [0.0] + cuts + [1.0]
    cfg['segments'] = [float(dur * (edges[i + 1] - edges[i])) for i in range(nseg)]
    cfg['max_steps'] = 260 if tier == 'quick' else 600
    cfg['slow'] = bool(slow)
    return cfg


def plan(tier, seed):
    cases = []
    for i in range(N_SCHED[tier]):
        rng = core.case_rng(seed, PROPERTY, i)
        cfg = _alzr_noniso(rng, tier, slow=(i % 2 == 0))
        cases.append({'kind': 'sched', 'cfg': cfg, 'via': ['setter', 'ctor', 'setter_function'][i % 3], 'weight': 2e5})
    for i in range(N_OTHER[tier]):
        rng = core.case_rng(seed, PROPERTY, 1000 + i)
        cfg = precip_gen.gen_config(rng, system=['nialcr', 'almgsi'][i % 2], tier=tier, allow_noniso=True, grid_class='in_range',
                                    sites=['bulk', 'dislocations'])
        for _ in range(20):
            if cfg['schedule']['kind'] != 'iso':
                break
            cfg['schedule'] = precip_gen.gen_schedule(rng, cfg['system'], precip.schedule_eval(cfg['schedule'], 0.0), True, sum(cfg['segments']))
        cfg['max_steps'] = 400 if tier == 'quick' else 1200
        cases.append({'kind': 'sched', 'cfg': cfg, 'via': ['ctor', 'setter'][i % 2], 'weight': 1e5})
    # binary system with TWO precipitate phases (Cu-Ti): one interfacial-composition table per phase must follow the schedule
    for i in range(2 if tier == 'quick' else 12):
        rng = core.case_rng(seed, PROPERTY, 2500 + i)
        cfg = precip_gen.gen_config(rng, system='cuti', tier=tier, allow_noniso=True, grid_class='in_range', sites=['bulk', 'dislocations'])
        for _ in range(20):
            if cfg['schedule']['kind'] != 'iso':
                break
            cfg['schedule'] = precip_gen.gen_schedule(rng, cfg['system'], precip.schedule_eval(cfg['schedule'], 0.0), True, sum(cfg['segments']))
        cfg['pbm'].update({'bins': min(cfg['pbm']['bins'], 32), 'minBins': min(cfg['pbm']['minBins'], 24)})
        cfg['pbm']['maxBins'] = max(min(cfg['pbm']['maxBins'], 48), cfg['pbm']['minBins'] + 5, cfg['pbm']['bins'])
        cfg['max_steps'] = 50 if tier == 'quick' else 200
        cases.append({'kind': 'sched', 'cfg': cfg, 'via': ['ctor', 'setter'][i % 2], 'weight': 3e5})
    # multi-stage treatments: a new temperature (constant / break points) set through the public setter between solve() calls
    # (added after seeded change C13-b: the schedule was not re-evaluated for 'isothermal' specifications)
    for i in range(4 if tier == 'quick' else 24):
        rng = core.case_rng(seed, PROPERTY, 3000 + i)
        system = ['alzr', 'nialcr', 'alzr', 'almgsi'][i % 4]
        if system == 'alzr':
            cfg = _alzr_noniso(rng, tier, slow=False)
            T1 = float(rng.uniform(700, 760))
            dur = sum(cfg['segments'])
        else:
            cfg = precip_gen.gen_config(rng, system=system, tier=tier, allow_noniso=False, grid_class='in_range', sites=['bulk', 'dislocations'])
            T1 = precip.schedule_eval(cfg['schedule'], 0.0)
            dur = sum(cfg['segments'])
        nst = int(rng.integers(2, 4))
        cfg['segments'] = [float(dur / nst)] * nst
        stages = [{'kind': 'iso', 'T': T1}]
        for k in range(1, nst):
            Tk = T1 + float(rng.uniform(15, 60)) * (1 if rng.random() < 0.5 else -1)
            if rng.random() < 0.7:
                stages.append({'kind': 'iso', 'T': Tk})
            else:
                t0h = k * dur / nst / 3600.0
                stages.append({'kind': 'array', 'hours': [t0h, t0h + 0.5 * dur / nst / 3600.0], 'temps': [stages[-1].get('T', T1), Tk]})
        cfg['schedule'] = stages[0]
        cfg['stage_schedules'] = stages
        cfg['max_steps'] = 100 if tier == 'quick' else 300
        cfg['cap_per_segment'] = True
        cases.append({'kind': 'sched', 'cfg': cfg, 'via': ['setter', 'ctor'][i % 2], 'weight': 2e5})
    for i in range(N_PAIR[tier]):
        rng = core.case_rng(seed, PROPERTY, 2000 + i)
        if i % 3 == 2:
            cfg = precip.default_cfg('nialcr')
            cfg['iterator'] = 'euler'
            cfg['x0'] = [0.11, 0.08]
            T0 = float(rng.uniform(1030, 1070))
            dur = float(rng.uniform(20, 200))
            cfg['schedule'] = {'kind': 'array', 'hours': [0.0, dur / 3600.0], 'temps': [T0, T0 + float(rng.uniform(-30, 30))]}
            cfg['constraints'] = {'dtScale': 0.1}
            cfg['segments'] = [dur]
            cfg['max_steps'] = 150
        else:
            cfg = _alzr_noniso(rng, tier, slow=False)
            if cfg['schedule']['kind'] == 'ramp':
                s = cfg['schedule']
                dur = sum(cfg['segments'])
                cfg['schedule'] = {'kind': 'array', 'hours': [0.0, dur / 3600.0], 'temps': [s['T0'], s['T0'] + s['rate'] * dur]}
            cfg['constraints']['dtScale'] = 0.3
            cfg['x0'] = [6e-3]
            cfg['max_steps'] = 120 if tier == 'quick' else 250
        cases.append({'kind': 'pair', 'cfg': cfg, 'weight': 4e5})
    # re-specification on one parameter object: a constant temperature given to a model that previously held a
    # non-isothermal schedule must be treated exactly like the same constant given to a fresh model
    # (added after seeded change C13-c: a stale isothermal/non-isothermal classification)
    for i in range(3 if tier == 'quick' else 18):
        rng = core.case_rng(seed, PROPERTY, 4000 + i)
        system = ['alzr', 'nialcr', 'alzr'][i % 3]
        cfg = precip.default_cfg(system)
        cfg['iterator'] = ['euler', 'rk4'][i % 2]
        cfg['constraints'] = {'dtScale': 0.3}
        if system == 'alzr':
            cfg['x0'] = [float(rng.uniform(4e-3, 6e-3))]
            cfg['schedule'] = {'kind': 'iso', 'T': float(rng.uniform(730, 780))}
            cfg['segments'] = [float(np.exp(rng.uniform(np.log(5e2), np.log(2e4))))]
            cfg['pbm'] = {'cMin': 1e-10, 'cMax': 5e-9, 'bins': 40, 'minBins': 30, 'maxBins': 60, 'adaptive': True}
        else:
            cfg['x0'] = [0.11, 0.08]
            cfg['schedule'] = {'kind': 'iso', 'T': float(rng.uniform(1030, 1080))}
            cfg['segments'] = [float(rng.uniform(5, 50))]
        cfg['max_steps'] = 250 if tier == 'quick' else 600
        cases.append({'kind': 'respec', 'cfg': cfg, 'previous': ['array', 'function', 'array'][i % 3],
                      'via': ['setter', 'ctor', 'setter'][(i // 3 + i) % 3], 'weight': 3e5})
    for i in range(N_DIFF[tier]):
        cases.append({'kind': 'diffusion', 'variant': i, 'weight': 5e4})
    for i in range(N_SCHED[tier]):
        cases.append({'kind': 'schedule_history', 'variant': i, 'weight': 1.0})
    return cases


def _compare_runs(R, a, b, label, cfg):
    """bitwise comparison of histories / distributions of two finished runs"""
    ma, mb = a.model, b.model
    first = None
    for k in precip.HISTORIES:
        xa, xb = np.asarray(getattr(ma.pData, k)), np.asarray(getattr(mb.pData, k))
        if xa.shape != xb.shape or not np.array_equal(xa, xb, equal_nan=True):
            n = min(len(xa), len(xb))
            idx = None
            for j in range(n):
                if not np.array_equal(xa[j], xb[j], equal_nan=True):
                    idx = j
                    break
            first = (k, idx, len(xa), len(xb))
            break
    if first is None:
        for p in range(len(ma.PBM)):
            if not (np.array_equal(ma.PBM[p].PSD, mb.PBM[p].PSD, equal_nan=True) and np.array_equal(ma.PBM[p].PSDbounds, mb.PBM[p].PSDbounds)):
                first = ('PSD', None, len(ma.PBM[p].PSD), len(mb.PBM[p].PSD))
                break
    R.check('c13.equivalent_runs', first is None, {'pair': label, 'system': cfg['system'], 'schedule': cfg['schedule']['kind']},
            first_difference=first, steps=(a.steps, b.steps))


def _run_schedule_history(case, R):
    """Histories of re-specification on ONE schedule object (precipitation and diffusion TemperatureParameters and a
    PrecipitateModel's setTemperature): constant / break points / function in random order through constructor, the
    generic setter and the specific setters, every specification evaluated several times before the next one replaces
    it. Oracle: own interpolation of the specification in force (clamped linear interpolation in hours)."""
    import kawin.precipitation as kp
    import kawin.diffusion.DiffusionParameters as dp
    rng = core.case_rng(case['seed'], PROPERTY, case['idx'])
    def draw():
        kind = ['const', 'array', 'array', 'function'][int(rng.integers(0, 4))]
        if kind == 'const':
            T0 = float(rng.uniform(300, 1500))
            return kind, T0, (lambda t, T0=T0: T0)
        if kind == 'array':
            n = int(rng.integers(2, 7))
            hrs = np.concatenate([[0.0], np.cumsum(rng.uniform(0.01, 5.0, n - 1))])
            Ts = rng.uniform(300, 1500, n)
            def ref(t, hrs=hrs, Ts=Ts):
                h = t / 3600.0
                if h <= hrs[0]:
                    return float(Ts[0])
                if h >= hrs[-1]:
                    return float(Ts[-1])
                k = int(np.searchsorted(hrs, h, side='right')) - 1
                return float(Ts[k] + (Ts[k + 1] - Ts[k]) * (h - hrs[k]) / (hrs[k + 1] - hrs[k]))
            return kind, (hrs.tolist(), Ts.tolist()), ref
        a, b = float(rng.uniform(300, 900)), float(rng.uniform(1e-4, 1e-2))
        return kind, (a, b), (lambda t, a=a, b=b: a + b * t)
    nhist = 0
    for flavour in ('precipitation', 'diffusion', 'model'):
        for _ in range(12):
            obj = None
            prev = []
            for step in range(int(rng.integers(2, 6))):
                kind, spec, ref = draw()
                if flavour == 'diffusion' and kind == 'function':
                    a, b = spec
                    arg = (lambda z, t, a=a, b=b: (a + b * t) * np.ones(len(z)))
                elif kind == 'function':
                    a, b = spec
                    arg = (lambda t, a=a, b=b: a + b * t)
                else:
                    arg = spec
                args = tuple(arg) if kind == 'array' else (arg,)
                if obj is None:
                    if flavour == 'precipitation':
                        obj = kp.TemperatureParameters(*args)
                    elif flavour == 'diffusion':
                        obj = dp.TemperatureParameters(*args)
                    else:
                        obj = kp.PrecipitateModel(phases=['beta'], elements=['A'])
                        obj.setTemperature(*args)
                    how = 'ctor'
                else:
                    specific = rng.random() < 0.5
                    tp = obj.temperatureParameters if flavour == 'model' else obj
                    if flavour == 'model' and not specific:
                        obj.setTemperature(*args); how = 'model_setter'
                    elif specific or flavour == 'diffusion':
                        {'const': tp.setIsothermalTemperature, 'array': tp.setTemperatureArray, 'function': tp.setTemperatureFunction}[kind](*args)
                        how = 'specific_setter'
                    else:
                        tp.setTemperatureParameters(*args); how = 'generic_setter'
                tp = obj.temperatureParameters if flavour == 'model' else obj
                worst, wt = 0.0, None
                for t in np.concatenate([[0.0], np.exp(rng.uniform(np.log(1.0), np.log(1e5), 6))]):
                    if flavour == 'diffusion':
                        got = np.asarray(tp(np.linspace(0, 1, 4), float(t)), dtype=float)
                        err = float(np.max(np.abs(got - ref(float(t))))) if got.shape == (4,) else np.inf
                    else:
                        err = abs(float(tp(float(t))) - ref(float(t)))
                    if err > worst:
                        worst, wt = err, float(t)
                R.worst('schedule_value_abs_K', worst)
                R.check('c13.schedule_value', worst <= 1e-9 * 1500, {'object': flavour, 'spec': kind, 'how': how,
                        'previous': prev[-1] if prev else 'none'}, max_abs_err_K=worst, at_time=wt, spec=spec if kind != 'function' else list(spec), history=list(prev))
                prev.append(kind)
            nhist += 1
    R.observe('schedule_histories', nhist)
    R.set_nontrivial(True, key='schedule_history:%d' % case['variant'])


def run_case(case, R):
    if case['kind'] == 'diffusion':
        return _run_diffusion(case, R)
    if case['kind'] == 'schedule_history':
        return _run_schedule_history(case, R)
    from vlib.precip_run import TrajectoryRun
    from vlib.precip_monitors import C13Monitor
    cfg = case['cfg']
    if case['kind'] == 'sched':
        mon = C13Monitor()
        solv = _SolvusWindow(cfg) if cfg['system'] == 'alzr' else None
        mons = [mon] + ([solv] if solv else [])
        run = TrajectoryRun(cfg, R, mons, max_steps=cfg['max_steps'], temperature_via=case['via']).execute()
        if run.rejected or R.inconclusive:
            return
        if run.error is not None:
            R.observe('runs_ended_by_exception')
            R.info['error'] = '%s: %s' % (type(run.error).__name__, str(run.error)[:200])
        T = np.asarray(run.model.pData.temperature)
        span = float(np.sum(np.abs(np.diff(T)))) if len(T) > 1 else 0.0
        lim = run.model.constraints.maxTempChange
        R.info.update({'steps': run.steps, 'dT_total': span, 'limit': lim, 'system': cfg['system'], 'slow': cfg.get('slow'),
                       'builds': len([b for b in run.table_builds if b['full']]), 'via': case['via']})
        R.set_nontrivial(span >= 5 * lim and run.steps >= 20)
        return
    if case['kind'] == 'respec':
        return _run_respec(case, R)
    # ---- triples of equivalent specifications
    runs = {}
    for via in ('setter', 'ctor', 'setter_function'):
        runs[via] = TrajectoryRun(cfg, R, [], max_steps=cfg['max_steps'], temperature_via=via).execute()
        if runs[via].rejected or R.inconclusive:
            return
    if any(r.error is not None for r in runs.values()):
        R.observe('runs_ended_by_exception')
        errs = {k: type(r.error).__name__ for k, r in runs.items() if r.error is not None}
        R.check('c13.equivalent_runs', len(errs) == 3 and len(set(errs.values())) == 1,
                {'pair': 'exception_in_some', 'system': cfg['system'], 'schedule': cfg['schedule']['kind']}, errors=errs)
        return
    _compare_runs(R, runs['setter'], runs['ctor'], 'setter_vs_constructor', cfg)
    _compare_runs(R, runs['setter'], runs['setter_function'], 'array_vs_function', cfg)
    pd = runs['setter'].model.pData
    T = np.asarray(pd.temperature)
    active = bool(np.any((np.sum(pd.nucRate, axis=1) > 0) & (T != T[0])))
    R.info.update({'steps': runs['setter'].steps, 'nucleating_while_T_changed': active, 'system': cfg['system']})
    R.set_nontrivial(active)


class _Respecify:
    """on_build hook: give the model a non-isothermal schedule first, then the constant through a public way"""

    def __init__(self, previous, how, T):
        self.previous, self.how, self.T = previous, how, T

    def on_build(self, run, model):
        T = self.T
        if self.previous == 'array':
            model.setTemperature([0.0, 1.0], [T - 40.0, T + 40.0])
        else:
            model.setTemperature(lambda t: T + 1e-3 * t)
        if self.how == 'model_setter':
            model.setTemperature(T)
        elif self.how == 'parameters_setter':
            model.temperatureParameters.setTemperatureParameters(T)
        else:
            model.temperatureParameters.setIsothermalTemperature(T)

    def on_step(self, *a):
        pass

    def on_exception(self, *a):
        pass

    def on_solve_return(self, *a):
        pass


def _run_respec(case, R):
    from vlib.precip_run import TrajectoryRun
    cfg = case['cfg']
    T = cfg['schedule']['T']
    fresh = TrajectoryRun(cfg, R, [], max_steps=cfg['max_steps'], temperature_via=case['via']).execute()
    if fresh.rejected or R.inconclusive:
        return
    active = False
    for how in ('model_setter', 'parameters_setter', 'isothermal_setter'):
        reused = TrajectoryRun(cfg, R, [_Respecify(case['previous'], how, T)], max_steps=cfg['max_steps'], temperature_via=case['via']).execute()
        if (fresh.error is None) != (reused.error is None):
            R.check('c13.equivalent_runs', False, {'pair': 'fresh_vs_respecified', 'system': cfg['system'], 'schedule': 'iso', 'how': how,
                                                   'previous': case['previous']}, errors=[repr(fresh.error)[:100], repr(reused.error)[:100]])
            continue
        if fresh.error is not None:
            R.observe('runs_ended_by_exception')
            continue
        _compare_runs(R, fresh, reused, 'fresh_vs_respecified:' + how, cfg)
    pd = fresh.model.pData
    active = bool(np.any(np.sum(pd.nucRate, axis=1) > 0))
    R.info.update({'steps': fresh.steps, 'nucleating': active, 'system': cfg['system'], 'previous': case['previous']})
    R.set_nontrivial(active)


class _SolvusWindow:
    """Recorded planar solvus vs fresh backend evaluations at T -/+ maxTempChange (every k-th step)."""

    def __init__(self, cfg):
        self.fresh = None
        self.every = 12

    def on_build(self, run, model):
        self.fresh = precip.make_therm('alzr')

    def on_step(self, run, model, c):
        if c['step'] % self.every:
            return
        R = run.R
        n = c['n']
        pd = model.pData
        T = float(pd.temperature[n])
        lim = model.constraints.maxTempChange
        lo, _ = self.fresh.getInterfacialComposition(T - lim, 0, precPhase='AL3ZR')
        hi, _ = self.fresh.getInterfacialComposition(T + lim, 0, precPhase='AL3ZR')
        lo, hi = float(np.squeeze(lo)), float(np.squeeze(hi))
        if lo < 0 or hi < 0 or not (lo < hi):
            R.observe('c13_solvus_window_unusable')
            return
        x = float(pd.xEqAlpha[n, 0, 0])
        tol = 1e-6 * hi
        R.worst('c13_solvus_outside_window_rel', max(lo - x, x - hi, 0.0) / hi)
        R.check('c13.solvus_window', lo - tol <= x <= hi + tol,
                {'system': 'alzr', 'iterator': run.cfg.get('iterator'), 'schedule': run.cfg['schedule']['kind'], 'side': 'below' if x < lo else 'above'},
                step=c['step'], T=T, recorded=x, window=[lo, hi], limit=lim)

    def on_exception(self, *a):
        pass

    def on_solve_return(self, *a):
        pass


# -------------------------------------------------------------------------------------------------
# diffusion models: temperature handed to the backend

def _run_diffusion(case, R):
    from vlib import c13_diffusion
    c13_diffusion.run(case, R)
