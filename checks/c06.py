"""C06 - integrators reach their nominal order, also for time-dependent problems.

Monitors (all observe the real iterators in kawin/solver/Iterators.py, directly and through
GenericModel.solve -> DESolver.solve):
  stage_times   times at which the derivative callback is invoked inside one step
                (Euler {t}; RK4 {t, t+h/2, t+h/2, t+h})
  input_intact  the state vector handed to the iterator is bit-identical afterwards and the returned
                state is a different buffer
  order         observed order of accuracy on a fixed family of smooth problems (median of log2 error
                ratios over h, h/2, h/4, h/8) in [0.8,1.3] (Euler) / [3.6,4.4] (RK4)
  exact_poly    RK4 integrates y' = p(t) exactly for polynomial p of degree <= 3 (Simpson), Euler is
                exact for constant right-hand sides (sharp, rounding-level oracle for the stage times
                and weights)
"""
import math

import numpy as np

PROPERTY = 'C06'
LEVEL = 'exploration'
EXHAUSTIVE = True
RULE = ('finite family of smooth ODEs (autonomous: linear, logistic, oscillator; non-autonomous: cos t, -2ty, the same started where the right-hand side is exactly zero, '
        'y cos t, t^2-y, temperature-ramp forcing, coupled vector) x 3 initial values x {Euler, RK4} x '
        '{direct iterator call, GenericModel.solve, two models through Coupler.solve} plus models that return aliased memory (the state array itself, a reused work buffer); enumerated completely; a case is non-trivial when its error '
        'sequence is in the asymptotic regime (errors > 1e3 x rounding and decreasing); distinct by (problem, y0, iterator, path)')
REQUIRED_MONITORS = ['stage_times', 'input_intact', 'order', 'exact_poly']
REACH = ['GenericModel.py:Coupler.getdXdt', 'solver/Iterators.py:ExplicitEulerIterator', 'solver/Iterators.py:RK4Iterator',
         'solver/Solver.py:DESolver.solve', 'solver/Solver.py:DESolver._getdXdt', 'solver/Solver.py:DESolver._updateX']
MIN_NONTRIVIAL = {'quick': 95, 'thorough': 95}
CASE_TIMEOUT = 300
ASSUMPTIONS = ['order is a limit statement; it is restated on step-halving sequences h..h/8 of a fixed problem family',
               'closed-form solutions of the family are the reference']

# problem: (f(t,y), exact(t, y0, t0), dimension, autonomous?)
T0 = 0.3


def _problems():
    P = {}
    P['linear'] = (lambda t, y: -1.3 * y, lambda t, y0: y0 * np.exp(-1.3 * (t - T0)), True)
    # logistic y' = y(1-y)
    P['logistic'] = (lambda t, y: y * (1 - y),
                     lambda t, y0: y0 * np.exp(t - T0) / (1 - y0 + y0 * np.exp(t - T0)), True)

    def osc_f(t, y):
        return np.array([y[1], -4.0 * y[0]])

    def osc_e(t, y0):
        w = 2.0
        s = t - T0
        return np.array([y0[0] * np.cos(w * s) + y0[1] / w * np.sin(w * s),
                         -y0[0] * w * np.sin(w * s) + y0[1] * np.cos(w * s)])
    P['oscillator'] = (osc_f, osc_e, True)
    P['cos_t'] = (lambda t, y: np.cos(t) + 0 * y, lambda t, y0: y0 + np.sin(t) - np.sin(T0), False)
    P['gauss'] = (lambda t, y: -2 * t * y, lambda t, y0: y0 * np.exp(-(t * t - T0 * T0)), False)
    P['ycos'] = (lambda t, y: y * np.cos(t), lambda t, y0: y0 * np.exp(np.sin(t) - np.sin(T0)), False)
    # y' = t^2 - y : y = t^2 - 2t + 2 + C e^{-t}
    P['t2_minus_y'] = (lambda t, y: t * t - y,
                       lambda t, y0: t * t - 2 * t + 2 + (y0 - (T0 * T0 - 2 * T0 + 2)) * np.exp(-(t - T0)), False)
    # temperature-schedule like: T(t) = 500 + 40 t, rate k(T) = exp(-2000/T) * 50, y' = k(T(t)) * (1 - y)
    # exact via high-accuracy quadrature of k
    def k(t):
        return 50.0 * np.exp(-2000.0 / (500.0 + 40.0 * t))

    def ramp_e(t, y0):
        from scipy.integrate import quad
        I, _ = quad(k, T0, t, epsabs=1e-14, epsrel=1e-14)
        return 1 - (1 - y0) * np.exp(-I)
    P['ramp_forcing'] = (lambda t, y: k(t) * (1 - y), ramp_e, False)

    def vec_f(t, y):
        return np.array([np.cos(t) - y[0], y[0] * np.sin(t) * 0 + t * y[1] * (-0.5)])

    def vec_e(t, y0):
        # y0' = cos t - y0 : y = (cos t + sin t)/2 + C e^{-t};  y1' = -t y1/2 : y1 = y1(0) exp(-(t^2-T0^2)/4)
        c = (y0[0] - (np.cos(T0) + np.sin(T0)) / 2)
        return np.array([(np.cos(t) + np.sin(t)) / 2 + c * np.exp(-(t - T0)), y0[1] * np.exp(-(t * t - T0 * T0) / 4)])
    P['vector_nonauto'] = (vec_f, vec_e, False)
    # started at t0 = 0, where the right-hand side vanishes identically (every component)
    P['exp_vec'] = (lambda t, y: 1.0 * y, lambda t, y0: np.asarray(y0) * np.exp(t - T0), True)
    P['ycos_vec'] = (lambda t, y: y * np.cos(t), lambda t, y0: np.asarray(y0) * np.exp(np.sin(t) - np.sin(T0)), False)
    P['sin_from_zero'] = (lambda t, y: np.sin(t) + 0 * y, lambda t, y0: y0 + 1 - np.cos(t), False)
    P['gauss_from_zero'] = (lambda t, y: -2 * t * y, lambda t, y0: y0 * np.exp(-t * t), False)
    P['vector_from_zero'] = (lambda t, y: np.array([-2 * t * y[0], t * y[1]]),
                             lambda t, y0: np.array([y0[0] * np.exp(-t * t), y0[1] * np.exp(t * t / 2)]), False)
    return P


Y0S = {'scalar': [0.2, 0.45, 0.8], 'vector': [[1.0, 0.0], [0.3, -0.7], [0.0, 1.5]]}


def plan(tier, seed):
    cases = []
    P = _problems()
    for name in P:
        if name.endswith('_from_zero'):
            continue
        kind = 'vector' if name in ('oscillator', 'vector_nonauto') else 'scalar'
        for y0 in Y0S[kind]:
            for it in ('euler', 'rk4'):
                for path in ('direct', 'solve', 'coupler'):
                    cases.append({'kind': 'order', 'problem': name, 'y0': y0, 'iterator': it, 'path': path})
    for it in ('euler', 'rk4'):
        for path in ('direct', 'solve', 'coupler'):
            for deg in range(0, 4):
                cases.append({'kind': 'poly', 'degree': deg, 'iterator': it, 'path': path})
            for deg in range(1, 4):     # right-hand side exactly zero at the start of the first step
                cases.append({'kind': 'poly', 'degree': deg, 'iterator': it, 'path': path, 'zero_start': True})
    # models that hand the solver aliased memory (state = ONE 1D array): the derivative is the state array itself (y' = y) or a
    # work buffer that the model refills on every call (y' = y cos t). Legal for a model; the solver must not accumulate into
    # what it was given (added after seeded change C06-d: flattenX returned the single array without a copy)
    for alias in ('state', 'buffer'):
        for y0 in ([1.0, 2.0, -0.5], [0.3, -0.7, 1.1]):
            for it in ('euler', 'rk4'):
                cases.append({'kind': 'order', 'problem': 'exp_vec' if alias == 'state' else 'ycos_vec', 'y0': y0, 'iterator': it,
                              'path': 'solve', 'alias': alias})
    for name in ('sin_from_zero', 'gauss_from_zero', 'vector_from_zero'):
        kind = 'vector' if name.startswith('vector') else 'scalar'
        for y0 in Y0S[kind]:
            for it in ('euler', 'rk4'):
                for path in ('direct', 'solve', 'coupler'):
                    cases.append({'kind': 'order', 'problem': name, 'y0': y0, 'iterator': it, 'path': path, 't0': 0.0})
    return cases


def _iterator(name):
    from kawin.solver.Iterators import ExplicitEulerIterator, RK4Iterator
    return ExplicitEulerIterator if name == 'euler' else RK4Iterator


def _ulp_eq(a, b, n=2):
    return abs(a - b) <= n * np.spacing(max(abs(a), abs(b), 1e-300))


def _expected_stage_times(it, t, h):
    return [t] if it == 'euler' else [t, t + h / 2, t + h / 2, t + h]


def _integrate_direct(case, R, f, y0, t0, tend, nsteps, check_stages=True):
    it = _iterator(case['iterator'])
    h = (tend - t0) / nsteps
    y = np.atleast_1d(np.array(y0, dtype=float))
    t = t0
    for n in range(nsteps):
        times = []

        def F(tt, x, getDt=False):
            times.append(float(tt))
            d = np.atleast_1d(np.asarray(f(tt, x if x.size > 1 else x[0]), dtype=float)).copy()
            return (d, h) if getDt else d

        def upd(x, dxdt, dt):
            return x + dxdt * dt
        before = y.copy()
        before_bytes = y.tobytes()
        ynew, dt = it(F, t, y, upd)
        if check_stages and n < 3:
            exp = _expected_stage_times(case['iterator'], t, h)
            ok = len(times) == len(exp) and all(_ulp_eq(a, b) for a, b in zip(times, exp))
            R.check('stage_times', ok, {'iterator': case['iterator'], 'path': 'direct'},
                    observed=times, expected=exp, t=t, h=h)
            R.check('input_intact', y.tobytes() == before_bytes and ynew is not y and not np.shares_memory(ynew, y),
                    {'iterator': case['iterator'], 'path': 'direct'}, before=before, after=y)
        y = np.array(ynew, dtype=float)
        t = t0 + (n + 1) * h
    return y


def _integrate_solve(case, R, f, y0, t0, tend, nsteps, check_stages=True):
    from kawin.GenericModel import GenericModel
    from kawin.solver.Solver import SolverType
    h = (tend - t0) / nsteps
    vec = np.ndim(y0) > 0
    log = {'times': [], 'steps': [], 'cur': None, 'seen': []}
    alias = case.get('alias')
    work = np.zeros(np.size(y0)) if alias == 'buffer' else None

    class M(GenericModel):
        def __init__(self):
            super().__init__()
            self.t = t0
            self.y = np.array(y0, dtype=float) if vec else float(y0)

        def getCurrentX(self):
            return self.t, [self.y]

        def getdXdt(self, t, x):
            log['times'].append(float(t))
            if alias == 'state':
                log['seen'].append((x[0], np.array(x[0], copy=True)))
                return [x[0]]                     # y' = y: the derivative IS the array the solver handed over
            if alias == 'buffer':
                log['seen'].append((x[0], np.array(x[0], copy=True)))
                work[:] = f(t, x[0])              # persistent work buffer, refilled on every call
                return [work]
            return [np.asarray(f(t, x[0]), dtype=float) if vec else float(f(t, x[0]))]

        def getDt(self, dXdt):
            return h

        def postProcess(self, time, x):
            log['steps'].append((self.t, float(time), log['times']))
            log['times'] = []
            self.t = time
            self.y = np.array(x[0], dtype=float) if vec else float(x[0])
            return x, False
    m = M()
    st = SolverType.EXPLICITEULER if case['iterator'] == 'euler' else SolverType.RK4
    m.solve(tend - t0, solverType=st, minDtFrac=1e-12, maxDtFrac=1.0)
    if check_stages:
        for (ta, tb, times) in log['steps'][:3]:
            hh = tb - ta
            exp = _expected_stage_times(case['iterator'], ta, hh)
            ok = len(times) == len(exp) and all(abs(a - b) <= 1e-12 * max(1.0, abs(b)) for a, b in zip(times, exp))
            R.check('stage_times', ok, {'iterator': case['iterator'], 'path': 'solve'},
                    observed=times, expected=exp, t=ta, h=hh)
    if alias and check_stages:
        # every state array handed to the model still holds the values it held when it was handed over
        intact = all(np.array_equal(a, b) for a, b in log['seen'])
        R.check('input_intact', intact, {'iterator': case['iterator'], 'path': 'solve', 'alias': alias},
                modified=sum(1 for a, b in log['seen'] if not np.array_equal(a, b)), calls=len(log['seen']))
    R.info['steps_last'] = len(log['steps'])
    return np.atleast_1d(np.array(m.y, dtype=float))


def _integrate_coupler(case, R, f, y0, t0, tend, nsteps, check_stages=True):
    """Two models with differently shaped states solved through kawin.GenericModel.Coupler (its clock starts at 0, the
    problem time is t0 + coupler time). Added after seeded change C06-c: the coupler handed every stage the sub-model's
    recorded time instead of the stage time."""
    from kawin.GenericModel import GenericModel, Coupler
    from kawin.solver.Solver import SolverType
    h = (tend - t0) / nsteps
    vec = np.ndim(y0) > 0

    class M(GenericModel):
        def __init__(self, f, y0, vec):
            super().__init__()
            self.f, self.vec = f, vec
            self.t = 0.0
            self.y = np.array(y0, dtype=float) if vec else float(y0)
            self.times, self.steps = [], []

        def getCurrentX(self):
            return self.t, [self.y]

        def getdXdt(self, t, x):
            self.times.append(float(t))
            return [np.asarray(self.f(t0 + t, x[0]), dtype=float) if self.vec else float(self.f(t0 + t, x[0]))]

        def getDt(self, dXdt):
            return h

        def postProcess(self, time, x):
            self.steps.append((self.t, float(time), self.times))
            self.times = []
            self.t = time
            self.y = np.array(x[0], dtype=float) if self.vec else float(x[0])
            return x, False
    a = M(f, y0, vec)
    b = M(lambda t, y: np.array([np.cos(t) - y[0], -0.5 * t * y[1], 0.1 * t * t]), [0.3, 1.0, 0.0], True)
    c = Coupler([a, b])
    st = SolverType.EXPLICITEULER if case['iterator'] == 'euler' else SolverType.RK4
    c.solve(tend - t0, solverType=st, minDtFrac=1e-12, maxDtFrac=1.0)
    if check_stages:
        for mi, m in enumerate((a, b)):
            for (ta, tb, times) in m.steps[:3]:
                hh = tb - ta
                exp = _expected_stage_times(case['iterator'], ta, hh)
                ok = len(times) == len(exp) and all(abs(x - y) <= 1e-12 * max(1.0, abs(y)) for x, y in zip(times, exp))
                R.check('stage_times', ok, {'iterator': case['iterator'], 'path': 'coupler', 'model': mi},
                        observed=times, expected=exp, t=ta, h=hh)
    # the third component of the second coupled model integrates 0.1 t^2 (problem time): exact for RK4
    if case['iterator'] == 'rk4':
        ex = 0.1 * (tend ** 3 - t0 ** 3) / 3
        R.check('exact_poly', abs(b.y[2] - ex) <= 1e-13, {'iterator': 'rk4', 'path': 'coupler', 'component': 'second model'},
                got=b.y[2], exact=ex)
    R.info['steps_last'] = len(a.steps)
    return np.atleast_1d(np.array(a.y, dtype=float))


def run_case(case, R):
    integ = {'direct': _integrate_direct, 'solve': _integrate_solve, 'coupler': _integrate_coupler}[case['path']]
    if case['kind'] == 'poly':
        deg = case['degree']
        coef = [0.7, -1.1, 0.9, 0.4][:deg + 1]
        if case.get('zero_start'):
            coef = [0.0] + [-1.1, 0.9, 0.4][:deg]

        def f(t, y):
            return sum(c * t ** k for k, c in enumerate(coef)) + 0 * y

        def F(t):
            return sum(c * t ** (k + 1) / (k + 1) for k, c in enumerate(coef))
        t0, tend = (0.0, 1.7) if case.get('zero_start') else (T0, T0 + 1.7)
        y = integ(case, R, f, 0.25, t0, tend, 7, check_stages=False)
        exact = 0.25 + F(tend) - F(t0)
        err = abs(y[0] - exact)
        should_be_exact = (case['iterator'] == 'rk4' and deg <= 3) or (case['iterator'] == 'euler' and deg == 0)
        R.worst('poly_err_%s' % case['iterator'], err if should_be_exact else 0.0)
        if should_be_exact:
            R.check('exact_poly', err <= 1e-13 * max(1.0, abs(exact)),
                    {'iterator': case['iterator'], 'path': case['path'], 'degree_ge1': deg >= 1, 'zero_start': bool(case.get('zero_start'))},
                    degree=deg, error=err, got=y[0], exact=exact)
        else:
            # Euler must NOT be exact for degree>=1: sanity that the oracle can see something
            R.check('exact_poly', err > 1e-6, {'iterator': case['iterator'], 'path': case['path'], 'sanity': True},
                    degree=deg, error=err)
        R.set_nontrivial(True)
        return

    P = _problems()
    f, exact, autonomous = P[case['problem']]
    y0 = np.array(case['y0'], dtype=float) if np.ndim(case['y0']) else float(case['y0'])
    t0 = float(case.get('t0', T0))
    tend = t0 + 1.2
    base = 6 if case['iterator'] == 'rk4' else 48
    errs = []
    hs = []
    for k in range(4):
        n = base * 2 ** k
        y = integ(case, R, f, y0, t0, tend, n, check_stages=(k == 0))
        ex = np.atleast_1d(exact(tend, y0))
        errs.append(float(np.max(np.abs(y - ex))))
        hs.append((tend - t0) / n)
    scale = float(np.max(np.abs(np.atleast_1d(exact(tend, y0))))) + 1e-300
    floor = 1e3 * 2.2e-16 * scale * base * 8
    ratios = [math.log2(errs[i] / errs[i + 1]) for i in range(3) if errs[i + 1] > 0 and errs[i] > 0]
    asymptotic = len(ratios) == 3 and all(e > floor for e in errs)
    R.info.update({'errors': errs, 'ratios': ratios, 'floor': floor})
    if asymptotic:
        order = float(np.median(ratios))
        lo, hi = (0.8, 1.3) if case['iterator'] == 'euler' else (3.6, 4.4)
        R.worst('order_dev_%s' % case['iterator'], abs(order - (1 if case['iterator'] == 'euler' else 4)))
        R.check('order', lo <= order <= hi,
                {'iterator': case['iterator'], 'path': case['path'], 'autonomous': autonomous},
                problem=case['problem'], order=order, ratios=ratios, errors=errs, h=hs)
    else:
        R.observe('not_asymptotic')
    R.set_nontrivial(asymptotic)

MANIFEST = {
    'text': 'Every member of a fixed family of smooth ODEs (autonomous and explicitly time dependent, scalar and vector) is integrated '
            'with the real iterators, directly and through GenericModel.solve, on step-halving sequences; observed order, stage times, '
            'polynomial exactness (Simpson) and argument immutability are asserted. The family is enumerated completely; it is a sample of all smooth systems.',
    'note': 'trusted: closed-form solutions in the check, scipy.integrate.quad for one reference; order is restated on finite step-halving sequences',
    'technique': 'reference-model monitor on recorded stage times and end states (step-halving order measurement)',
}
