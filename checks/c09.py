"""C09 - thermodynamic queries are pure; the composition cache of the diffusion models is sound.

Part 1 (case kind 'history'): one long-lived ("warmed") thermodynamics object of the real classes
BinaryThermodynamics / MulticomponentThermodynamics receives a random history of 20-60 public queries
(driving force, interfacial composition, curvature factor, growth+interfacial composition, impingement
factor, interdiffusivity, tracer diffusivity) with temperature jumps of +-1..200 K, precipitate / diffusion
phase switches, removeCache flags, scalar / list / array argument forms, batches and repeated points.  Systems:
Al-Zr (binary), Ni-Al-Cr (FCC_L12 and BCC_A2 precipitates), Fe-Cr-Ni (BCC_A2 and SIGMA; FCC_A1 / BCC_A2 diffusion);
the driving-force method (tangent, approximate, sampling, curvature) and the binary interfacial method are fixed
per history.  Every query is re-evaluated
  * on a second object of the same configuration whose caches were discarded with clearCache() just before
    ("cleared"), and
  * on a brand-new object (freshly parsed database; always for curvature-type queries - clearCache() does not
    reset _curvature_outputs - and for a random 30 % of the others).
Monitors
  warm_vs_fresh    warmed result == fresh result (brand-new if built, else cleared), per returned array:
                   max|a-b| / max|b| <= TOL_A = 1e-6 for queries that never touch a cached two-phase equilibrium,
                   TOL_B = 5e-5 for those that do (curvature factor, growth, impingement, driving-force methods
                   'approximate' and 'curvature': global equilibrium on a fresh object, cached local one on a warmed
                   object).  A warmed object that raises / returns nothing where the fresh one returns a result is a
                   violation as well.
  cleared_vs_new   cleared result == brand-new result (cached equilibria kept or discarded change nothing)
  batch_vs_single  row i of an array call on the warmed object == the single call for point i on a fresh object
  repeat_vs_first  a query repeated immediately or later in the history (fresh argument arrays, same values) == its
                   first answer on the same warmed object
  args_intact      every ndarray / list passed to a query is bit-identical afterwards
  no_alias         no returned array shares memory with an argument array
Tolerances (guide section 2, measured on the repaired tree, quick tier seeds 0,1,2,3,7 and thorough seeds 0,1): class A
worst 1.8e-8, class B worst 1.1e-6; both constants are >= 30 x these and >= 10 x below every seeded break (stale temperature, stale sample
points, phase-less diffusivity cache: 1e-2 .. 1e+3) and below the defects found on the unchanged tree (4e-5 .. 1e+4).
A failing comparison carries the structural facts used by the classifier: system, query, precipitate phase,
driving-force method, tolerance class, whether the warmed object's cached two-phase sets are / became degenerate - a phase
was dropped or both sets share one composition - (cache_lost_phase), size = small (<= 5e-2) / large.

Case kind 'tinyargs' (clause "no call modifies the arrays passed to it" at the edge of the composition range): every query
kind (also getEq / getLocalEq) of every system is called with compositions that contain 0.0, 1e-14 or 1e-12 (solute-free
edge, matrix clamped to 0) in every argument form: 0-d / 1-element / (N,) binary arrays, 1-D points, (1,e) rows, 2-D batches
in C and F order, strided / transposed views (the whole base buffer is compared), full-composition vectors that carry the
reference element, lists.  Only args_intact is evaluated there; values are not compared (solver resolution ~10 %), calls that
raise are counted (tiny_call_raised) and their arguments still compared.

Interleaved histories (case flag 'interleave'): two or three precipitate phases on one object (Al-Mg-Si MGSI_B_P / MG5SI6_B_DP
/ B_PRIME_L; Ni-Al-Cr; Fe-Cr-Ni) are queried in blocks A@T1, B@T2, A@T2 / A@T1, B@T1, A@T2, B@T2 / A, B, C, A ... (driving force or
curvature factor, all four driving-force methods, removeCache mostly False, occasional clearCache(), the block's first query
repeated after the temperature changed) and judged by the same warm_vs_fresh / repeat_vs_first monitors.

Case kind 'tfield': SinglePhaseModel with a deterministic logging backend D(x, T) under a temperature field T(z, t) (gradient
40..300 K across the mesh, optional drift in time) and step / bounded / single-node profiles (runs of bit-identical nodes).
Cache off: backend_calls demands that the N calls of one flux evaluation carry exactly (x_i, T_i) of node i.  Cache on or
off: cache_sound demands that every interior flux equals -(D_a + D_b)/2 . grad x for admissible node diffusivities (the node's
own D(x_i, T_i), or a stored value whose arguments agree within 10^-s), and, when all nodes have one admissible value, that the
stability time step equals the per-node reference (1e-9 relative).

Domain ("stable range"), decided at run time, rejects are counted and skipped:
  * phase_not_stable: the phase the query refers to (matrix; diffusion phase) must be present with exactly one
    composition set in the global equilibrium of all listed phases at (x, T) (helper object, never compared);
  * outside_stable_range: the fresh object must return a finite result (outside it the warmed object may answer with
    its previous values by documented design - that fallback belongs to C03);
  * outside_two_phase_window: curvature-type queries (and 'approximate' / 'curvature' driving force) are compared only
    where the fresh object finds the two-phase equilibrium at x itself; if it had to use the documented approximation
    (_searchForTwoPhaseEq along searchDir, or the sampling fallback) the point is skipped.
-1 entries of the interfacial-composition queries (precipitate unstable) are regular results.

Part 2 (case kinds 'hashtable', 'singlephase', 'mobility'): the composition cache (HashTable) of the diffusion
models, observed directly, through SinglePhaseModel (counting stub backend, values that encode the call id)
and through computeMobility (real Fe-Cr-Ni backend with a counting wrapper around getEq).
  cache_off        after enableCaching(False) / useCache(False) retrieveFromHashTable never returns a value
  backend_calls    with caching off the backend is called exactly once per node and flux evaluation (getFluxes, and
                   every Euler / RK4 stage inside solve) / once per point of computeMobility
  cache_sound      a value returned by the cache was stored for arguments that agree with the query to within
                   10^-s in every composition and in temperature (s = configured digits, 1..8) - a necessary
                   condition for any rounding or truncation key (1e-3 relative slack for the rounding of x*10^s);
                   near-boundary pairs, far temperature pairs, permuted compositions, sensitivity changes and
                   clearCache are part of the operation histories (shadow dictionary id -> stored arguments)

Not asserted (statement silent): that a cache hit occurs for equal keys (only counted, so that soundness is not
vacuous); what happens to values stored while caching was off; aliasing between returned arrays and the
object's internal caches; behaviour for inadmissible arguments (negative compositions, T outside 300-2000 K).
Relative differences are taken per returned array relative to that array's own scale; a scalar driving force
uses max(|dg|, 1 J/mol) as its scale (1 J/mol is the library's own 'small' energy offset gOffset); gba uses max(|gba|, 1e-6)
(for stoichiometric precipitates it is 0 or rounding residue of 1e-14).

Defects found on the unchanged tree (reproducers / diffs in /verif/proposed_fixes/C09-*): binary interfacial
composition adds gOffset to the caller's array; cache cannot be switched off; int32 key overflow for 7-8 digits;
cached two-phase composition sets that lost a phase or collapsed onto one composition are never recovered (stale or
divergent curvature/growth answers); the cached
equilibrium omits the 1 J/mol precipitate offset of the uncached one (what the design phase took for solver noise of
5e-4); tangent driving force of a warmed object lands on another parallel-tangent solution (Ni-Al-Cr, no small fix).
The design's break "do not refresh state variables of cached composition sets" has no observable effect with the
installed pycalphad (its solver refreshes them itself); the effective variant (cached temperature kept) is caught.
"""
import math

import numpy as np

PROPERTY = 'C09'
LEVEL = 'exploration'
RULE = ('random query histories (20-60 public calls: driving force, interfacial composition, curvature, growth, impingement, '
        'interdiffusivity, tracer diffusivity; temperature jumps +-1..200 K, phase switches, removeCache flags, batches, repeats) on one '
        'long-lived object per system {Al-Zr, Ni-Al-Cr, Fe-Cr-Ni} x driving-force method, each query re-run on a cleared and/or brand-new '
        'object; plus operation histories on the diffusion composition cache (digits 1..8, on/off, near-boundary pairs) directly, through '
        'SinglePhaseModel with a counting stub and through computeMobility; plus argument-immutability sweeps with zero / sub-resolution '
        'composition entries in every argument form (non-trivial when >= 20 such calls completed); interleaved two/three-phase histories (A@T1, B@T2, A@T2 ...); diffusion models under a '
        'temperature field with runs of bit-identical nodes (non-trivial with >= 1 identical neighbour pair and >= 1 cache-off phase). A history case is non-trivial when it contains >=1 temperature '
        'jump >= 20 K, >=1 repeated point and >=10 compared queries; a cache case when >=1 cache hit and >=1 off-phase were observed; '
        'distinct by case description (system, method, length, case index, seed)')
REQUIRED_MONITORS = ['warm_vs_fresh', 'cleared_vs_new', 'batch_vs_single', 'repeat_vs_first', 'args_intact', 'no_alias',
                     'cache_off', 'cache_sound', 'backend_calls']
REACH = ['thermo/Thermodynamics.py:GeneralThermodynamics.getDrivingForce',
         'thermo/Thermodynamics.py:GeneralThermodynamics._getDrivingForceTangent',
         'thermo/Thermodynamics.py:GeneralThermodynamics._resetDrivingForceCache',
         'thermo/Thermodynamics.py:GeneralThermodynamics.getInterdiffusivity',
         'thermo/Thermodynamics.py:GeneralThermodynamics.getTracerDiffusivity',
         'thermo/Thermodynamics.py:GeneralThermodynamics.clearCache',
         'thermo/BinTherm.py:BinaryThermodynamics.getInterfacialComposition',
         'thermo/BinTherm.py:BinaryThermodynamics._interfacialCompositionFromEq',
         'thermo/MultiTherm.py:MulticomponentThermodynamics.getInterfacialComposition',
         'thermo/MultiTherm.py:MulticomponentThermodynamics.curvatureFactor',
         'thermo/MultiTherm.py:MulticomponentThermodynamics.getGrowthAndInterfacialComposition',
         'thermo/MultiTherm.py:MulticomponentThermodynamics.impingementFactor',
         'thermo/LocalEquilibrium.py:local_equilibrium',
         'thermo/utils.py:_process_xT_arrays', 'thermo/utils.py:_process_TG_arrays',
         'diffusion/DiffusionParameters.py:HashTable._hashingFunction',
         'diffusion/DiffusionParameters.py:HashTable.retrieveFromHashTable',
         'diffusion/DiffusionParameters.py:HashTable.addToHashTable',
         'diffusion/DiffusionParameters.py:HashTable.enableCaching',
         'diffusion/DiffusionParameters.py:HashTable.setHashSensitivity',
         'diffusion/DiffusionParameters.py:_computeSingleMobility',
         'diffusion/SinglePhase.py:SinglePhaseModel._getFluxes']
MIN_NONTRIVIAL = {'quick': 40, 'thorough': 500}
CASE_TIMEOUT = 900
MAX_INCONCLUSIVE_FRACTION = 0.0
ASSUMPTIONS = ['"for all histories / compositions / temperatures" is sampled: random histories inside fixed composition-temperature windows '
               'of the three shipped databases; the stable range is decided at run time by the fresh object itself',
               'the brand-new object (same constructor arguments, freshly parsed database) is the reference for "no history"; for 70 % of the '
               'non-curvature queries the clearCache()-ed object stands in for it (their equivalence is itself monitored on the other 30 %)',
               'differences below TOL_A = 1e-6 / TOL_B = 5e-5 (relative to the scale of the returned array) are not attributed',
               'stable range = the queried phase is part of the global equilibrium of the listed phases, the fresh object returns a finite result, '
               'and (two-phase quantities) it finds the two-phase equilibrium at the queried composition itself',
               'cache soundness is the necessary condition |dx_i| < 10^-s, |dT| < 10^-s (with 1e-3 relative slack for the rounding of x*10^s)']

# tolerance constants: >= 30 x the worst residual seen on the repaired tree (quick tier seeds 0,1,2,3,7; thorough seeds 0,1)
TOL_A = 1e-6            # queries that never use a cached two-phase equilibrium (worst seen 1.8e-8: diffusivities; 1.2e-8
                        # precipitate composition of a repeated tangent driving force)
TOL_B = 5e-5            # queries answered from a two-phase equilibrium (global when fresh, cached local when warmed): worst seen
                        # 1.1e-6 (driving force of the 'approximate' method near the solvus, a difference of two 1e5 J/mol
                        # potential planes; all other fields <= 4e-9) once both paths use the same 1 J/mol precipitate offset;
                        # on the unchanged tree the cached path omits the offset and the same comparisons differ by
                        # 4e-5 .. 4.3e-3 (finding C09-cached-eq-omits-goffset)
SIZE_SPLIT = 5e-2       # failing comparisons are labelled size=small/large (mechanism fact for the classifier only)
DG_FLOOR = 1.0          # J/mol, scale floor for the scalar driving force
P_BRAND_NEW = 0.3       # share of non-curvature queries that also get a brand-new reference
KEY_SLACK = 1e-3        # relative slack on the bucket width for |x*10^s - x'*10^s| < 1

SYSTEMS = {
    'alzr': {'binary': True, 'tdb': 'ALZR_TDB', 'elements': ['AL', 'ZR'], 'phases': ['FCC_A1', 'AL3ZR'],
             'xlo': [2e-4], 'xhi': [0.02], 'T': (450.0, 900.0), 'prec': [None, 'AL3ZR'], 'pprec': [0.5, 0.5],
             'dphase': [None], 'g': (0.0, 60000.0), 'sdir': {}},
    'nialcr': {'binary': False, 'tdb': 'NICRAL_TDB', 'elements': ['NI', 'AL', 'CR'], 'phases': ['FCC_A1', 'FCC_L12', 'BCC_A2'],
               'xlo': [0.03, 0.02], 'xhi': [0.20, 0.25], 'T': (900.0, 1400.0), 'prec': [None, 'FCC_L12', 'BCC_A2'],
               'pprec': [0.4, 0.35, 0.25], 'dphase': [None], 'g': (0.0, 3000.0),
               'sdir': {'FCC_L12': [0.20, 0.05], 'BCC_A2': [0.30, 0.30]}},
    'fecrni': {'binary': False, 'tdb': 'FECRNI_DB', 'elements': ['FE', 'CR', 'NI'], 'phases': ['FCC_A1', 'BCC_A2', 'SIGMA'],
               'xlo': [0.10, 0.03], 'xhi': [0.45, 0.30], 'T': (1000.0, 1500.0), 'prec': [None, 'BCC_A2', 'SIGMA'],
               'pprec': [0.4, 0.3, 0.3], 'dphase': [None, 'FCC_A1', 'BCC_A2'], 'g': (0.0, 3000.0),
               'sdir': {'BCC_A2': [0.50, 0.03], 'SIGMA': [0.50, 0.05]}},
}
# Al-Mg-Si with two / three precipitate phases: only used by the interleaved multi-phase histories
SYSTEMS['almgsi2'] = {'binary': False, 'tdb': 'ALMGSI_DB', 'elements': ['AL', 'MG', 'SI'], 'phases': ['FCC_A1', 'MGSI_B_P', 'MG5SI6_B_DP'],
                      'xlo': [0.003, 0.003], 'xhi': [0.012, 0.012], 'T': (420.0, 570.0), 'prec': [None, 'MGSI_B_P', 'MG5SI6_B_DP'],
                      'pprec': [0.2, 0.4, 0.4], 'dphase': [None], 'g': (0.0, 3000.0), 'sdir': {}}
SYSTEMS['almgsi3'] = dict(SYSTEMS['almgsi2'], phases=['FCC_A1', 'MGSI_B_P', 'MG5SI6_B_DP', 'B_PRIME_L'],
                          prec=[None, 'MGSI_B_P', 'MG5SI6_B_DP', 'B_PRIME_L'], pprec=[0.1, 0.3, 0.3, 0.3])
KINDS = {True: (['df', 'ic', 'interdiff', 'tracer'], [0.3, 0.3, 0.2, 0.2]),
         False: (['df', 'ic', 'curv', 'growth', 'imp', 'interdiff', 'tracer'], [0.2, 0.1, 0.2, 0.2, 0.05, 0.15, 0.1])}
CURV_KINDS = ('curv', 'growth', 'imp')
DF_METHODS = (['tangent', 'approximate', 'sampling', 'curvature'], [0.55, 0.15, 0.2, 0.1])


# ================================================================================================
# plan

def plan(tier, seed):
    rng = np.random.default_rng(np.random.SeedSequence([int(seed) & 0xFFFFFFFF, 9, 1]))
    nh = 40 if tier == 'quick' else 600
    cases = []
    systems = ['alzr', 'nialcr', 'fecrni']
    for h in range(nh):
        s = systems[h % 3]
        meth = str(rng.choice(DF_METHODS[0], p=DF_METHODS[1]))
        icm = 'equilibrium'
        if s == 'alzr' and rng.random() < 0.15:
            icm = 'curvature'
        n = int(rng.integers(20, 61))
        w = {'alzr': 0.15, 'nialcr': 1.0, 'fecrni': 0.7}[s] * n
        cases.append({'kind': 'history', 'system': s, 'df': meth, 'ic': icm, 'n': n, 'h': h, 'weight': w})
    nt = 12 if tier == 'quick' else 60
    for h in range(nt):
        cases.append({'kind': 'hashtable', 'ops': 1500, 'h': h, 'weight': 1.0})
    ns = 12 if tier == 'quick' else 60
    for h in range(ns):
        cases.append({'kind': 'singlephase', 'h': h, 'weight': 1.0})
    nm = 4 if tier == 'quick' else 16
    for h in range(nm):
        cases.append({'kind': 'mobility', 'h': h, 'weight': 6.0})
    # argument immutability at compositions with exact zeros / entries below the solver resolution (appended last so that
    # the indices of the cases above never change)
    meths = ['tangent', 'sampling'] if tier == 'quick' else ['tangent', 'sampling', 'approximate', 'curvature']
    reps = 1 if tier == 'quick' else 3
    for h in range(reps):
        for s in systems:
            for meth in meths:
                cases.append({'kind': 'tinyargs', 'system': s, 'df': meth, 'ic': 'equilibrium', 'h': h,
                              'weight': {'alzr': 3.0, 'nialcr': 40.0, 'fecrni': 30.0}[s]})
    # interleaved multi-phase histories (A@T1, B@T2, A@T2, ...) on one object, all driving-force methods
    allm = ['tangent', 'sampling', 'approximate', 'curvature']
    if tier == 'quick':
        combos = [('almgsi2', m) for m in allm] + [('almgsi3', m) for m in allm] + [('nialcr', 'sampling'), ('fecrni', 'sampling'),
                                                                                     ('fecrni', 'tangent')]
        reps = 1
    else:
        combos = [(sy, m) for sy in ('almgsi2', 'almgsi3', 'nialcr', 'fecrni') for m in allm]
        reps = 3
    for h in range(reps):
        for sy, m in combos:
            cases.append({'kind': 'history', 'interleave': True, 'system': sy, 'df': m, 'ic': 'equilibrium', 'n': 0, 'h': h,
                          'weight': {'almgsi2': 2.0, 'almgsi3': 2.0, 'nialcr': 30.0, 'fecrni': 15.0}[sy]})
    # diffusion model under a temperature field with runs of bit-identical nodes
    for h in range(12 if tier == 'quick' else 60):
        cases.append({'kind': 'tfield', 'h': h, 'weight': 1.0})
    return cases


# ================================================================================================
# part 1: query histories

def _build(case):
    from kawin.thermo import BinaryThermodynamics, MulticomponentThermodynamics
    import kawin.tests.datasets as D
    S = SYSTEMS[case['system']]
    tdb = getattr(D, S['tdb'])
    if S['binary']:
        return BinaryThermodynamics(tdb, list(S['elements']), list(S['phases']), drivingForceMethod=case['df'],
                                    interfacialCompMethod=case['ic'])
    return MulticomponentThermodynamics(tdb, list(S['elements']), list(S['phases']), drivingForceMethod=case['df'])


def _rand_x(rng, S):
    return [float(rng.uniform(lo, hi)) for lo, hi in zip(S['xlo'], S['xhi'])]


def _move_T(rng, S, T):
    """-> (new T, |jump|). jump magnitude log-uniform in 1..200 K, reflected into the window."""
    if rng.random() < 0.35:
        return T, 0.0
    mag = float(math.exp(rng.uniform(0.0, math.log(200.0))))
    sign = 1.0 if rng.random() < 0.5 else -1.0
    lo, hi = S['T']
    Tn = T + sign * mag
    if Tn < lo or Tn > hi:
        Tn = T - sign * mag
    if Tn < lo or Tn > hi:
        return T, 0.0
    return float(Tn), abs(Tn - T)


def _move_x(rng, S, x):
    r = rng.random()
    if r < 0.35:
        return list(x)
    if r < 0.7:
        out = []
        for v, lo, hi in zip(x, S['xlo'], S['xhi']):
            out.append(float(min(hi, max(lo, v + rng.uniform(-1, 1) * 0.01 * (hi - lo)))))
        return out
    return _rand_x(rng, S)


def gen_history(rng, case):
    """List of JSON-able query descriptions."""
    if case.get('interleave'):
        return gen_interleaved(rng, case)
    S = SYSTEMS[case['system']]
    binary = S['binary']
    kinds, pk = KINDS[binary]
    T = float(rng.uniform(*S['T']))
    x = _rand_x(rng, S)
    Q = []
    for i in range(case['n']):
        if Q and rng.random() < 0.15:
            j = int(rng.integers(len(Q)))
            q = dict(Q[j])
            q['repeat_of'] = Q[j].get('repeat_of', j)
            q['jump'] = abs(q['T'][0] - T)
            T = q['T'][-1]
            Q.append(q)
            continue
        k = str(rng.choice(kinds, p=pk))
        T, jump = _move_T(rng, S, T)
        x = _move_x(rng, S, x)
        q = {'k': k, 'jump': jump}
        prec = S['prec'][int(rng.choice(len(S['prec']), p=S['pprec']))]
        rc = bool(rng.random() < 0.3)
        batch = bool(rng.random() < 0.2)
        if k in ('df', 'interdiff', 'tracer'):
            if batch:
                n = int(rng.integers(2, 5))
                xs = [list(x)]
                Ts = [T]
                for _ in range(n - 1):
                    xs.append(_move_x(rng, S, xs[-1]))
                    Tn, _j = _move_T(rng, S, Ts[-1])
                    Ts.append(Tn)
                if rng.random() < 0.3:
                    Ts = [T]          # one temperature, several compositions
                elif rng.random() < 0.2:
                    xs = [list(x)]    # one composition, several temperatures
                q.update({'x': xs, 'T': Ts, 'batch': True})
                T = Ts[-1]
                x = xs[-1]
            else:
                q.update({'x': [list(x)], 'T': [T], 'batch': False})
            q['xf'] = str(rng.choice(['arr', 'list', 'float'] if binary else ['arr', 'arr', 'list']))
            q['Tf'] = str(rng.choice(['float', 'arr', 'npfloat']))
            q['rc'] = rc
            if k == 'df':
                q['prec'] = prec
            else:
                q['phase'] = S['dphase'][int(rng.integers(len(S['dphase'])))]
        elif k == 'ic':
            glo, ghi = S['g']
            if batch:
                n = int(rng.integers(2, 5))
                g = [float(rng.uniform(glo, ghi)) for _ in range(n)]
                if rng.random() < 0.5:
                    Ts = [T]
                else:
                    Ts = [T]
                    for _ in range(n - 1):
                        Tn, _j = _move_T(rng, S, Ts[-1])
                        Ts.append(Tn)
                    T = Ts[-1]
                q.update({'T': Ts, 'g': g, 'batch': True})
            else:
                q.update({'T': [T], 'g': [float(rng.uniform(glo, ghi)) if rng.random() < 0.8 else 0.0], 'batch': False})
            q['x'] = [list(x)]
            q['xf'] = str(rng.choice(['arr', 'list']))
            q['Tf'] = str(rng.choice(['float', 'arr', 'npfloat']))
            q['gf'] = str(rng.choice(['float', 'arr']))
            q['prec'] = prec
        else:  # curvature type
            q.update({'x': [list(x)], 'T': [T], 'prec': prec, 'rc': rc, 'batch': False,
                      'xf': str(rng.choice(['arr', 'arr', 'list'])), 'Tf': str(rng.choice(['float', 'arr', 'npfloat']))})
            pname = prec if prec is not None else S['phases'][1]
            if rng.random() < 0.3 and pname in S['sdir']:
                q['sdir'] = [float(v * (1 + 0.05 * rng.uniform(-1, 1))) for v in S['sdir'][pname]]
            if k == 'growth':
                n = int(rng.integers(2, 5)) if batch else 1
                q['batch'] = batch
                q['dG'] = float(rng.uniform(50, 3000))
                q['R'] = [float(10 ** rng.uniform(-9.5, -7.5)) for _ in range(n)]
                q['g'] = [float(2 * 0.03 * 7e-6 / r) for r in q['R']]
                q['gf'] = 'arr' if batch else str(rng.choice(['float', 'arr']))
        Q.append(q)
    return Q


def gen_interleaved(rng, case):
    """Histories that interleave two or three precipitate phases across temperature changes on one object:
    blocks A@T1, B@T2, A@T2 / A@T1, B@T1, A@T2, B@T2 / A, B, C, A ..., removeCache mostly False, occasional clearCache(),
    repeats of the first query of a block after the temperature changed."""
    S = SYSTEMS[case['system']]
    P = [p for p in S['prec'] if p is not None]
    Q = []
    T = float(rng.uniform(*S['T']))
    x = _rand_x(rng, S)
    lastT = T

    def add(kind, ph, Tq, rc):
        nonlocal lastT
        q = {'k': kind, 'x': [list(x)], 'T': [float(Tq)], 'batch': False, 'prec': ph, 'rc': rc, 'jump': abs(Tq - lastT),
             'xf': str(rng.choice(['arr', 'arr', 'list'])), 'Tf': str(rng.choice(['float', 'arr', 'npfloat']))}
        lastT = float(Tq)
        Q.append(q)
        return len(Q) - 1
    for b in range(int(rng.integers(4, 7))):
        kind = 'df' if rng.random() < 0.75 else 'curv'
        order = [P[i] for i in rng.permutation(len(P))]
        A, B = order[0], order[1]
        T1 = T
        T2 = T1
        for _ in range(20):
            T2, j = _move_T(rng, S, T1)
            if j >= 5.0:
                break
        rc = bool(rng.random() < 0.2)
        pat = int(rng.integers(0, 4 if len(P) > 2 else 3))
        if pat == 0:
            seq = [(A, T1), (B, T2), (A, T2)]
        elif pat == 1:
            seq = [(A, T1), (B, T1), (A, T2), (B, T2)]
        elif pat == 2:
            seq = [(A, T1), (B, T2), (A, T2), (B, T1), (A, T1)]
        else:
            C = order[2]
            seq = [(A, T1), (B, T2), (C, T2), (A, T2), (C, T1), (B, T1)]
        i0 = None
        for ph, Tq in seq:
            if Q and rng.random() < 0.08:
                Q.append({'k': 'clear'})
            i = add(kind, ph, Tq, rc)
            i0 = i if i0 is None else i0
        if rng.random() < 0.6:
            q = dict(Q[i0])
            q['repeat_of'] = i0
            q['jump'] = abs(q['T'][0] - lastT)
            lastT = q['T'][0]
            Q.append(q)
        T = lastT
        if rng.random() < 0.5:
            x = _move_x(rng, S, x)
    return Q


def _mk_x(q, binary, i=None):
    xs = q['x'] if i is None else [q['x'][min(i, len(q['x']) - 1)]]
    if binary:
        vals = [v[0] for v in xs]
        if len(vals) == 1 and q['xf'] == 'float':
            return vals[0]
        if len(vals) == 1 and q['xf'] == 'list':
            return [vals[0]]
        return np.array(vals, dtype=np.float64) if q['xf'] != 'list' else list(vals)
    if len(xs) == 1:
        return np.array(xs[0], dtype=np.float64) if q['xf'] != 'list' else list(xs[0])
    return np.array(xs, dtype=np.float64) if q['xf'] != 'list' else [list(v) for v in xs]


def _mk_T(q, i=None):
    Ts = q['T'] if i is None else [q['T'][min(i, len(q['T']) - 1)]]
    if len(Ts) == 1:
        if q['Tf'] == 'float':
            return float(Ts[0])
        if q['Tf'] == 'npfloat':
            return np.float64(Ts[0])
        return np.array([Ts[0]], dtype=np.float64)
    return np.array(Ts, dtype=np.float64)


def _mk_g(q, i=None, key='g'):
    g = q[key] if i is None else [q[key][i]]
    if len(g) == 1 and q.get('gf') == 'float':
        return float(g[0])
    return np.array(g, dtype=np.float64)


def npoints(q):
    """Number of rows of a batch call (1 for a single call)."""
    if not q.get('batch'):
        return 1
    if q['k'] == 'ic':
        return len(q['g'])
    if q['k'] == 'growth':
        return len(q['R'])
    return max(len(q['x']), len(q['T']))


def make_call(q, binary, i=None):
    """-> (method name, positional args, kwargs, tracked {name: object passed})."""
    k = q['k']
    tr = {}
    if k == 'df':
        x, T = _mk_x(q, binary, i), _mk_T(q, i)
        tr = {'x': x, 'T': T}
        return 'getDrivingForce', [x, T], {'precPhase': q['prec'], 'removeCache': q['rc']}, tr
    if k in ('interdiff', 'tracer'):
        x, T = _mk_x(q, binary, i), _mk_T(q, i)
        tr = {'x': x, 'T': T}
        name = 'getInterdiffusivity' if k == 'interdiff' else 'getTracerDiffusivity'
        return name, [x, T], {'removeCache': q['rc'], 'phase': q['phase']}, tr
    if k == 'ic':
        T, g = _mk_T(q, i), _mk_g(q, i)
        if binary:
            tr = {'T': T, 'gExtra': g}
            return 'getInterfacialComposition', [T, g], {'precPhase': q['prec']}, tr
        x = _mk_x(q, binary, 0)
        tr = {'x': x, 'T': T, 'gExtra': g}
        return 'getInterfacialComposition', [x, T, g], {'precPhase': q['prec']}, tr
    x, T = _mk_x(q, binary, 0), _mk_T(q, 0)
    tr = {'x': x, 'T': T}
    kw = {'precPhase': q['prec'], 'removeCache': q['rc']}
    if 'sdir' in q:
        sd = np.array(q['sdir'], dtype=np.float64)
        kw['searchDir'] = sd
        tr['searchDir'] = sd
    if k == 'curv':
        return 'curvatureFactor', [x, T], kw, tr
    if k == 'imp':
        return 'impingementFactor', [x, T], kw, tr
    R, g = _mk_g(q, i, 'R'), _mk_g(q, i)
    dG = q['dG']
    tr.update({'R': R, 'gExtra': g})
    return 'getGrowthAndInterfacialComposition', [x, T, dG, R, g], kw, tr


FIELDS = {'df': ['dg', 'xb'], 'ic': ['xm', 'xp'], 'interdiff': ['D'], 'tracer': ['Dt'], 'imp': ['beta'],
          'curv': ['dc', 'mc', 'gba', 'beta', 'c_eq_alpha', 'c_eq_beta'],
          'growth': ['growth_rate', 'c_alpha', 'c_beta', 'c_eq_alpha', 'c_eq_beta']}
UNBATCHED_FIELDS = ('c_eq_alpha', 'c_eq_beta')


def normalise(k, res):
    """-> (list of (field, raw returned object), list of (field, float array)) or (raw, None) if no numeric result."""
    if res is None:
        return [], None
    if k in ('interdiff', 'tracer', 'imp'):
        raw = [(FIELDS[k][0], res)]
    else:
        try:
            raw = list(zip(FIELDS[k], tuple(res)))
        except TypeError:
            return [], None
        if len(raw) != len(FIELDS[k]):
            return raw, None
    out = []
    for name, v in raw:
        if v is None:
            return raw, None
        try:
            a = np.asarray(v)
            if a.dtype == object:
                return raw, None
            a = np.array(a, dtype=np.float64)
        except Exception:
            return raw, None
        out.append((name, a))
    return raw, out


def is_valid(arrs):
    return arrs is not None and all(np.all(np.isfinite(a)) for _n, a in arrs)


def rel_diff(a, b, floor=0.0):
    """max|a-b| / max(max|b|, floor); inf for shape mismatch / non-finite."""
    a = np.asarray(a, dtype=np.float64)
    b = np.asarray(b, dtype=np.float64)
    if a.shape != b.shape:
        return float('inf')
    if a.size == 0:
        return 0.0
    d = np.abs(a - b)
    if not np.all(np.isfinite(d)):
        return float('inf')
    d = float(np.max(d))
    if d == 0.0:
        return 0.0
    s = max(float(np.max(np.abs(b))), floor)
    if s == 0.0:
        return float('inf')
    return d / s


def tol_class(q, case):
    if q['k'] in CURV_KINDS:
        return 'b'
    if q['k'] == 'df' and case['df'] in ('approximate', 'curvature'):
        return 'b'
    return 'a'


GBA_FLOOR = 1e-6        # gba (ratio of free-energy curvatures, O(0.1..100) for solution phases) multiplies a composition difference
                        # <= 1; for stoichiometric precipitates it is either exactly 0 (rank test) or rounding residue ~1e-14


def _floor(field):
    if field == 'gba':
        return GBA_FLOOR
    return DG_FLOOR if field == 'dg' else 0.0


def _rows(q, arrs, n):
    """Split the arrays of a batch result into n per-point results."""
    out = []
    for i in range(n):
        row = []
        for name, a in arrs:
            if name in UNBATCHED_FIELDS:
                row.append((name, a))
            elif a.ndim >= 1 and a.shape[0] == n:
                row.append((name, a[i]))
            else:
                row.append((name, None))
        out.append(row)
    return out


class _Call:
    """Outcome of one call: arrays or exception; argument bookkeeping."""
    def __init__(self, obj, q, binary, i=None, R=None, who='warm', system=None):
        name, args, kw, tr = make_call(q, binary, i)
        snap = {}
        for n, v in tr.items():
            if isinstance(v, np.ndarray):
                snap[n] = (v.tobytes(), v.shape, str(v.dtype), v.copy())
            elif isinstance(v, list):
                snap[n] = (repr(v), None, 'list', None)
        self.exc = None
        self.raw, self.arrs = [], None
        if hasattr(obj, '_searchForTwoPhaseEq') and not hasattr(obj, '_c09_search'):
            obj._c09_search = 0
            real_search = obj._searchForTwoPhaseEq

            def spy_search(*a, _o=obj, _r=real_search, **k):
                _o._c09_search += 1
                return _r(*a, **k)
            obj._searchForTwoPhaseEq = spy_search
        if hasattr(obj, '_getDrivingForceSampling') and not hasattr(obj, '_c09_samp'):
            obj._c09_samp = 0
            real_samp = obj._getDrivingForceSampling

            def spy_samp(*a, _o=obj, _r=real_samp, **k):
                _o._c09_samp += 1
                return _r(*a, **k)
            obj._getDrivingForceSampling = spy_samp
        s0 = getattr(obj, '_c09_search', 0)
        p0 = getattr(obj, '_c09_samp', 0)
        try:
            res = getattr(obj, name)(*args, **kw)
            self.raw, self.arrs = normalise(q['k'], res)
        except Exception as e:  # decided by the caller
            self.exc = e
        self.valid = self.exc is None and is_valid(self.arrs)
        self.searched = getattr(obj, '_c09_search', 0) - s0   # the two-phase search (approximation by design) was used
        self.sampled = getattr(obj, '_c09_samp', 0) - p0      # a non-sampling driving-force method fell back to sampling
        if R is not None:
            form = {'batch': bool(q.get('batch')), 'Tf': q.get('Tf'), 'xf': q.get('xf'), 'gf': q.get('gf')}
            for n, v in tr.items():
                if n not in snap:
                    continue
                if isinstance(v, np.ndarray):
                    ok = v.tobytes() == snap[n][0] and v.shape == snap[n][1] and str(v.dtype) == snap[n][2]
                    R.check('args_intact', ok, {'system': system, 'query': q['k'], 'arg': n, 'T_len': min(len(q['T']), 2),
                                                'arg_len': min(int(v.size), 2), 'who': who},
                            before=snap[n][3], after=v, form=form, method=name)
                else:
                    R.check('args_intact', repr(v) == snap[n][0], {'system': system, 'query': q['k'], 'arg': n, 'list': True, 'who': who},
                            before=snap[n][0], after=repr(v), form=form, method=name)
            if self.exc is None:
                argarrs = [(n, v) for n, v in tr.items() if isinstance(v, np.ndarray)]
                for fname, rv in self.raw:
                    if not isinstance(rv, np.ndarray):
                        continue
                    for an, av in argarrs:
                        R.check('no_alias', not np.shares_memory(rv, av),
                                {'system': system, 'query': q['k'], 'field': fname, 'arg': an}, form=form, method=name)


def _compare(R, monitor, q, case, got, ref, mech, tol, worst_name, detail):
    """got/ref: lists of (field, array). One monitor evaluation per returned array."""
    refd = dict(ref)
    allok = True
    for name, a in got:
        b = refd.get(name)
        if a is None or b is None:
            continue
        r = rel_diff(a, b, _floor(name))
        R.worst(worst_name, r)
        R.worst(worst_name + '.' + q['k'] + '.' + name, r)
        m = dict(mech)
        m['field'] = name
        ok = r <= tol
        if not ok:
            m['size'] = 'small' if r <= SIZE_SPLIT else 'large'
        allok = allok and ok
        R.check(monitor, ok, m, rel=r, tol=tol, got=a, ref=b, query=q, **detail)
    return allok


def run_history(case, R):
    from vlib import core
    rng = core.case_rng(case['seed'], PROPERTY, case['idx'])
    S = SYSTEMS[case['system']]
    binary = S['binary']
    Q = gen_history(rng, case)
    W = _build(case)
    F = _build(case)
    # observation for the classifier only: did a two-phase solve that started from cached composition sets come back
    # without one of the two phases?
    W._c09_dropped = 0
    real_gcs = W._getCompositionSetsEq

    def spy_gcs(x, T, precPhase, cached_composition_sets=None):
        had = cached_composition_sets is not None and cached_composition_sets.get(precPhase) is not None
        r = real_gcs(x, T, precPhase, cached_composition_sets) if cached_composition_sets is not None else real_gcs(x, T, precPhase)
        if had and (r is None or r[1] is None or r[2] is None):
            W._c09_dropped += 1
        return r
    W._getCompositionSetsEq = spy_gcs
    E = _build(case)          # only used to classify points (global equilibrium with all listed phases)
    matrix = E.phases[0]
    stab = {}

    def stable_at(q, i):
        """Is the phase the query refers to (matrix, or the diffusion phase) present, with one composition set, in the
        global equilibrium of all listed phases at point i of the query?"""
        if binary and q['k'] == 'ic':
            return True
        xi = q['x'][min(i, len(q['x']) - 1)]
        Ti = q['T'][min(i, len(q['T']) - 1)]
        key = (tuple(xi), Ti)
        if key not in stab:
            names = None
            try:
                wks = E.getEq(np.array(xi, dtype=np.float64), float(Ti), 0, list(E.phases))
                if not np.any(np.isnan(np.squeeze(wks.eq.MU))):
                    names = [cs.phase_record.phase_name for cs in wks.get_composition_sets()]
            except Exception:
                names = None
            stab[key] = names
        names = stab[key]
        ph = matrix
        if q['k'] in ('interdiff', 'tracer') and q.get('phase') is not None:
            ph = q['phase']
        return names is not None and names.count(ph) == 1

    def df_facts(q, ref_arrs, got_arrs):
        """Structural facts about a driving-force comparison: precipitate phase, sign, and whether the two answers sit
        in different precipitate-composition basins (phases with several parallel-tangent solutions)."""
        pname = q['prec'] if q['prec'] is not None else E.phases[1]
        f = {'prec': pname, 'dg_sign': 'neg' if float(np.ravel(dict(ref_arrs)['dg'])[0]) < 0 else 'pos'}
        basin = None
        if got_arrs is not None:
            a, b = dict(got_arrs).get('xb'), dict(ref_arrs).get('xb')
            if a is not None and b is not None and np.shape(a) == np.shape(b) and np.all(np.isfinite(a)):
                basin = 'different' if float(np.max(np.abs(np.asarray(a) - np.asarray(b)))) > 1e-2 else 'same'
        f['basin'] = basin
        return f
    first = {}
    first_lost = {}
    ncompared = 0
    nrepeat = 0
    bigjump = 0
    sysn = case['system']
    for qi, q in enumerate(Q):
        k = q['k']
        if k == 'clear':
            W.clearCache()
            R.observe('clear_ops')
            continue
        tc = tol_class(q, case)
        tol = TOL_A if tc == 'a' else TOL_B
        n = npoints(q)
        if q['jump'] >= 20.0:
            bigjump += 1
        R.observe('queries')
        R.observe('q_' + k)
        # ---------------------------------------------------------------- warmed object
        def lost_now():
            # structural fact for the classifier: the cached two-phase composition sets of the warmed object are
            # degenerate (the solver removed a phase from the cached list in place, or both sets have one composition)
            if tc != 'b':
                return None
            pn = q.get('prec') or W.phases[1]
            cc = (getattr(W, '_compset_cache_curvature', {}) if k in CURV_KINDS else W._compset_cache_df).get(pn)
            if cc is None:
                return False
            if len(cc) < 2:
                return True
            try:   # or the precipitate set collapsed onto the matrix composition (order/disorder models)
                return bool(np.allclose(np.array(cc[0].X), np.array(cc[1].X), rtol=0, atol=1e-6))
            except Exception:
                return False
        lost = lost_now()
        d0 = W._c09_dropped
        cw = _Call(W, q, binary, None, R, 'warm', sysn)
        if lost is not None:
            lost = bool(lost or lost_now() or W._c09_dropped > d0)
        # ---------------------------------------------------------------- fresh references (single points)
        want_new = (k in CURV_KINDS) or (rng.random() < P_BRAND_NEW)
        stable = [stable_at(q, i) for i in range(n)]
        B = _build(case) if (want_new and any(stable)) else None
        if B is not None:
            R.observe('brand_new_objects')
        refs = []
        for i in range(n):
            if not stable[i]:
                R.observe('phase_not_stable')
                refs.append((None, None))
                continue
            ii = i if q.get('batch') else None
            F.clearCache()
            cf = _Call(F, q, binary, ii, R, 'cleared', sysn)
            cb = None
            if B is not None:
                if i > 0:
                    B.clearCache()
                cb = _Call(B, q, binary, ii, R, 'brand_new', sysn)
            refs.append((cf, cb))
        mech0 = {'system': sysn, 'query': k, 'tol_class': tc, 'df_method': case['df'] if k == 'df' else None,
                 'batch': bool(q.get('batch'))}
        if k == 'df':
            mech0['prec'] = q['prec'] if q['prec'] is not None else E.phases[1]
        if lost is not None:
            mech0['cache_lost_phase'] = lost
        base_detail = {'step': qi}
        # ---------------------------------------------------------------- cleared vs brand-new
        for i, (cf, cb) in enumerate(refs):
            if cb is None or cf is None:
                continue
            if cb.valid and (cb.searched or (k == 'df' and tc == 'b' and cb.sampled)):
                continue
            if cb.valid and cf.valid:
                _compare(R, 'cleared_vs_new', q, case, cf.arrs, cb.arrs, dict(mech0), tol, 'cleared_vs_new_' + tc, base_detail)
            elif cb.valid and not cf.valid:
                # (brand-new invalid, cleared valid = documented fallback to previous values outside the stable range)
                R.check('cleared_vs_new', False, dict(mech0, field=None, cleared_no_result=True),
                        cleared=repr(cf.exc) if cf.exc else cf.arrs, new=cb.arrs, query=q, **base_detail)
        # ---------------------------------------------------------------- warm vs fresh / batch vs single
        if cw.exc is None and cw.arrs is not None and q.get('batch'):
            wrows = _rows(q, cw.arrs, n)
        elif q.get('batch'):
            wrows = [None] * n
        else:
            wrows = [cw.arrs]
        compared_here = False
        for i, (cf, cb) in enumerate(refs):
            if cf is None:
                continue
            ref = cb if cb is not None else cf
            refname = 'brand_new' if cb is not None else 'cleared'
            if not ref.valid:
                R.observe('outside_stable_range')
                continue
            if ref.searched or (k == 'df' and tc == 'b' and ref.sampled):
                # no two-phase equilibrium at x itself: the fresh answer is the documented approximation (taken from
                # another composition along searchDir / from sampling) -> not part of the two-phase window
                R.observe('outside_two_phase_window')
                continue
            mon = 'batch_vs_single' if q.get('batch') else 'warm_vs_fresh'
            mech = dict(mech0, ref=refname)
            if k == 'df':
                mech.update(df_facts(q, ref.arrs, None if (cw.exc is not None or wrows[i] is None) else wrows[i]))
                mech['sampling_fallback'] = bool(ref.sampled or cw.sampled)
            if cw.exc is not None:
                R.exception(mon, cw.exc, dict(mech, warm_failed=True), query=q, **base_detail)
                continue
            wr = wrows[i]
            if wr is None or not is_valid([(nm, a) for nm, a in wr if a is not None]) or any(a is None for _nm, a in wr):
                R.check(mon, False, dict(mech, field=None, warm_no_result=True), warm=cw.arrs, ref=ref.arrs, query=q, **base_detail)
                continue
            _compare(R, mon, q, case, wr, ref.arrs, mech, tol, mon + '_' + tc, base_detail)
            compared_here = True
        if compared_here:
            ncompared += 1
        dom_ok = all(cf is not None and (cb if cb is not None else cf).valid and not (cb if cb is not None else cf).searched
                     and not (k == 'df' and tc == 'b' and (cb if cb is not None else cf).sampled) for cf, cb in refs)
        # ---------------------------------------------------------------- repeats
        if 'repeat_of' in q:
            j = q['repeat_of']
            nrepeat += 1
            if first.get(j) is not None and cw.exc is None and is_valid(cw.arrs) and dom_ok:
                mech = dict(mech0, gap=min(qi - j, 2))
                if lost is not None:
                    mech['cache_lost_phase'] = bool(lost or first_lost.get(j))
                if k == 'df' and not q.get('batch'):
                    mech.update(df_facts(q, first[j], cw.arrs))
                _compare(R, 'repeat_vs_first', q, case, cw.arrs, first[j], mech, tol, 'repeat_vs_first_' + tc, base_detail)
        else:
            first[qi] = cw.arrs if (cw.exc is None and is_valid(cw.arrs)) else None
            first_lost[qi] = lost
        # immediate repetition of the same call (same state, fresh argument arrays)
        if rng.random() < 0.25 and cw.exc is None and is_valid(cw.arrs) and compared_here:
            c2 = _Call(W, q, binary, None, R, 'warm', sysn)
            nrepeat += 1
            if c2.exc is not None:
                R.exception('repeat_vs_first', c2.exc, dict(mech0, gap=0), query=q, **base_detail)
            elif not is_valid(c2.arrs):
                R.check('repeat_vs_first', False, dict(mech0, gap=0, field=None, warm_no_result=True), query=q, **base_detail)
            else:
                mech = dict(mech0, gap=0)
                if lost is not None:
                    mech['cache_lost_phase'] = bool(lost or lost_now() or W._c09_dropped > d0)
                if k == 'df' and not q.get('batch'):
                    mech.update(df_facts(q, cw.arrs, c2.arrs))
                _compare(R, 'repeat_vs_first', q, case, c2.arrs, cw.arrs, mech, tol, 'repeat_vs_first_' + tc, base_detail)
    R.info.update({'queries': len(Q), 'compared': ncompared, 'repeats': nrepeat, 'jumps_ge_20K': bigjump,
                   'system': sysn, 'df': case['df']})
    R.set_nontrivial(bigjump >= 1 and nrepeat >= 1 and ncompared >= 10)


# ================================================================================================
# part 2: the composition cache

def _close(xq, Tq, xs, Ts, s):
    """Necessary condition for any rounding / truncation key with s digits."""
    sc = float(10 ** int(s))
    xq = np.atleast_1d(np.asarray(xq, dtype=np.float64))
    xs = np.atleast_1d(np.asarray(xs, dtype=np.float64))
    if xq.shape != xs.shape:
        return False, float('inf'), 'shape'
    dx = float(np.max(np.abs(xq * sc - xs * sc))) if xq.size else 0.0
    dT = abs(float(Tq) * sc - float(Ts) * sc)
    worst = max(dx, dT)
    coord = 'T' if dT >= dx else 'x'
    return worst < 1.0 + KEY_SLACK, worst, coord


def _sound_mech(path, s, Tq, Ts, coord):
    over = bool(max(abs(float(Tq)), abs(float(Ts))) * 10 ** int(s) >= 2 ** 31)
    return {'path': path, 'coordinate': coord, 'int32_overflow': over}


def _near_pairs(rng, s, ne):
    """A base point plus variants: same bucket, across a bucket boundary, far in T, permuted."""
    w = 10.0 ** (-s)
    k = rng.integers(1, max(2, int(0.3 / w)), size=ne)
    x0 = np.minimum(k * w, 0.3)
    T0 = float(np.round(rng.uniform(300, 1900), 0)) + float(rng.integers(0, 10)) * w
    pts = [(x0 + 0.5 * w, T0 + 0.5 * w)]
    for _ in range(4):
        r = rng.random()
        x = x0 + 0.5 * w
        T = T0 + 0.5 * w
        if r < 0.2:      # same bucket
            x = x0 + rng.uniform(0.02, 0.98, size=ne) * w
            T = T0 + rng.uniform(0.02, 0.98) * w
        elif r < 0.4:    # just across a composition boundary
            x = x.copy()
            j = int(rng.integers(ne))
            x[j] = x0[j] + (1.0 + rng.uniform(0.001, 0.05)) * w * (1 if rng.random() < 0.5 else -0.05)
        elif r < 0.55:   # just across a temperature boundary
            T = T0 + (1.0 + rng.uniform(0.001, 0.05)) * w * (1 if rng.random() < 0.5 else -0.05)
        elif r < 0.8:    # far in temperature, same composition
            T = T0 + float(rng.choice([-100.0, 100.0, 1.0, -1.0, 0.5, 10.0]))
        elif r < 0.9 and ne > 1:  # permuted composition
            x = x[::-1].copy()
        else:            # a whole number of buckets away
            x = x + w * float(rng.integers(1, 4))
        pts.append((np.abs(x), float(T)))
    return pts


def run_hashtable(case, R):
    from vlib import core
    from kawin.diffusion.DiffusionParameters import HashTable
    rng = core.case_rng(case['seed'], PROPERTY, case['idx'])
    ht = HashTable()
    s = 4
    on = True
    shadow = {}
    nid = 0
    hits = 0
    offphases = 0
    ne = int(rng.integers(1, 4))
    pool = []
    for op in range(case['ops']):
        r = rng.random()
        if r < 0.02:
            s_old = s
            s = int(rng.integers(1, 9))
            ht.setHashSensitivity(s)
            R.observe('set_sensitivity')
            pool = []
            # entries stored at the previous precision stay in the table: query the points they would be confused with
            # if keys of different precisions were comparable (the stored point rounded / truncated to the old
            # precision) - added after seeded change C09-h (rounded-float keys matched across precisions)
            if shadow and s != s_old:
                ids = list(shadow.keys())
                for k in rng.choice(len(ids), size=min(12, len(ids)), replace=False):
                    sx, sT = shadow[ids[int(k)]]
                    f = 10.0 ** s_old
                    pool.append((np.round(sx, s_old), float(np.round(sT, s_old))))
                    pool.append((np.floor(sx * f) / f, float(np.floor(sT * f) / f)))
                R.observe('cross_precision_queries', len(pool))
            continue
        if r < 0.05:
            on = bool(rng.random() < 0.5)
            ht.enableCaching(on)
            offphases += 0 if on else 1
            R.observe('caching_on' if on else 'caching_off')
            continue
        if r < 0.06:
            ht.clearCache()
            shadow = {}
            R.observe('clear_cache')
            continue
        if not pool:
            pool = _near_pairs(rng, s, ne)
            rng.shuffle(pool)
        x, T = pool.pop()
        x = np.array(x, dtype=np.float64)
        xb, Tb = x.tobytes(), float(T)
        got = ht.retrieveFromHashTable(x, T)
        R.check('args_intact', x.tobytes() == xb, {'path': 'HashTable', 'arg': 'x'})
        if not on:
            R.check('cache_off', got is None, {'path': 'HashTable', 'switch': 'enableCaching(False)'},
                    returned=got, x=x, T=T, digits=s)
        if got is not None:
            hits += 1
            ent = shadow.get(got)
            if ent is None:
                R.check('cache_sound', False, {'path': 'HashTable', 'coordinate': None, 'unknown_value': True}, returned=got)
            else:
                ok, worst, coord = _close(x, T, ent[0], ent[1], s)
                R.worst('cache_key_distance_buckets', worst if ok else 0.0)
                R.check('cache_sound', ok, _sound_mech('HashTable', s, T, ent[1], coord),
                        query_x=x, query_T=T, stored_x=ent[0], stored_T=ent[1], digits=s, distance_in_buckets=worst)
        else:
            nid += 1
            ht.addToHashTable(x, T, nid)
            shadow[nid] = (x.copy(), float(T))
            R.observe('stores')
    R.observe('cache_hits', hits)
    R.info.update({'hits': hits, 'off_phases': offphases, 'elements': ne})
    R.set_nontrivial(hits >= 1 and offphases >= 1)


class _StubTherm:
    """Counting backend for SinglePhaseModel: every call returns a value that encodes its call id."""
    D0 = 1e-14

    def __init__(self, ne):
        self.ne = ne
        self.calls = 0
        self.log = {}

    def clearCache(self):
        pass

    def getInterdiffusivity(self, x, T, removeCache=True, phase=None):
        self.calls += 1
        self.log[self.calls] = (np.array(x, dtype=np.float64).copy(), float(T))
        d = self.D0 * (1.0 + self.calls * 1e-9)
        if self.ne == 1:
            return d
        return np.eye(self.ne) * d

    @classmethod
    def decode(cls, v):
        a = np.atleast_2d(np.asarray(v, dtype=np.float64))
        return int(round((a[0, 0] / cls.D0 - 1.0) * 1e9))


def run_singlephase(case, R):
    from vlib import core
    from kawin.diffusion import SinglePhaseModel
    from kawin.diffusion.DiffusionParameters import CompositionProfile, TemperatureParameters
    from kawin.solver.Solver import SolverType
    rng = core.case_rng(case['seed'], PROPERTY, case['idx'])
    ne = int(rng.integers(1, 3))
    els = ['NI', 'CR', 'AL'][:ne + 1]
    N = int(rng.integers(8, 31))
    prof = CompositionProfile()
    for e in els[1:]:
        a, b = rng.uniform(0.05, 0.3, size=2)
        if rng.random() < 0.5:
            prof.addLinearCompositionStep(e, float(a), float(b))
        else:
            prof.addStepCompositionStep(e, float(a), float(b), 0.0)
    T0 = float(rng.uniform(800, 1400))
    tmode = str(rng.choice(['const', 'field']))
    if tmode == 'const':
        temp = TemperatureParameters(T0)
    else:
        grad = float(rng.uniform(-5e4, 5e4))
        temp = TemperatureParameters(lambda z, t, T0=T0, g=grad: T0 + g * z + 0 * t)
    stub = _StubTherm(ne)
    m = SinglePhaseModel([-1e-3, 1e-3], N, els, ['FCC_A1'], thermodynamics=stub, compositionProfile=prof,
                         temperatureParameters=temp, record=False)
    s = int(rng.integers(1, 9))
    m.setHashSensitivity(s)
    st = {'on': True, 's': s, 'hits': 0, 'off': 0, 'flux_calls': 0}
    ht = m.hashTable
    real_get, real_add = ht.retrieveFromHashTable, ht.addToHashTable

    def spy_get(x, T):
        xb = np.array(x, dtype=np.float64).copy()
        v = real_get(x, T)
        if not st['on']:
            R.check('cache_off', v is None, {'path': 'SinglePhaseModel', 'switch': 'useCache(False)'}, x=xb, T=T, digits=st['s'])
        if v is not None:
            st['hits'] += 1
            cid = _StubTherm.decode(v)
            ent = stub.log.get(cid)
            if ent is None:
                R.check('cache_sound', False, {'path': 'SinglePhaseModel', 'coordinate': None, 'unknown_value': True}, returned=v)
            else:
                ok, worst, coord = _close(xb, T, ent[0], ent[1], st['s'])
                R.worst('cache_key_distance_buckets', worst if ok else 0.0)
                R.check('cache_sound', ok, _sound_mech('SinglePhaseModel', st['s'], T, ent[1], coord),
                        query_x=xb, query_T=T, stored_x=ent[0], stored_T=ent[1], digits=st['s'], distance_in_buckets=worst)
        return v
    ht.retrieveFromHashTable = spy_get
    real_flux = m._getFluxes

    def spy_flux(t, x):
        st['flux_calls'] += 1
        return real_flux(t, x)
    m._getFluxes = spy_flux

    def evaluate(label, fn):
        c0, f0 = stub.calls, st['flux_calls']
        fn()
        dc, df = stub.calls - c0, st['flux_calls'] - f0
        R.observe('flux_evaluations', df)
        if not st['on']:
            R.check('backend_calls', dc == N * df, {'path': 'SinglePhaseModel', 'switch': 'useCache(False)', 'via': label},
                    backend_calls=dc, nodes=N, flux_evaluations=df, digits=st['s'])
        else:
            R.check('backend_calls', dc <= N * df, {'path': 'SinglePhaseModel', 'switch': 'on', 'via': label},
                    backend_calls=dc, nodes=N, flux_evaluations=df)
    m.setup()
    for step in range(int(rng.integers(8, 16))):
        r = rng.random()
        if r < 0.25:
            st['on'] = bool(rng.random() < 0.4)
            m.useCache(st['on'])
            st['off'] += 0 if st['on'] else 1
        elif r < 0.35:
            st['s'] = int(rng.integers(1, 9))
            m.setHashSensitivity(st['s'])
        elif r < 0.4:
            m.clearCache()
        elif r < 0.6 and tmode == 'const':
            T0 = T0 + float(rng.choice([-100.0, 100.0, 1.0, -1.0, 0.25]))
            m.setTemperature(T0)
        elif r < 0.75:
            w = 10.0 ** (-st['s'])
            m.x = np.clip(m.x + rng.uniform(-1.5, 1.5, size=m.x.shape) * w, 1e-6, 0.45)
        if rng.random() < 0.75:
            evaluate('getFluxes', m.getFluxes)
        else:
            _f, dt = m.getFluxes()
            it = SolverType.EXPLICITEULER if rng.random() < 0.5 else SolverType.RK4
            nst = float(rng.uniform(1.5, 3.5))
            evaluate('solve', lambda: m.solve(float(dt) * nst, solverType=it))
    R.observe('cache_hits', st['hits'])
    R.info.update({'hits': st['hits'], 'off_phases': st['off'], 'nodes': N, 'elements': ne, 'tmode': tmode})
    R.set_nontrivial(st['hits'] >= 1 and st['off'] >= 1)


def run_mobility(case, R):
    """computeMobility (homogenization path) with the real Fe-Cr-Ni backend and a counting wrapper around getEq."""
    from vlib import core
    from kawin.thermo import GeneralThermodynamics
    from kawin.diffusion.DiffusionParameters import HashTable, computeMobility
    import kawin.tests.datasets as D
    rng = core.case_rng(case['seed'], PROPERTY, case['idx'])
    therm = GeneralThermodynamics(D.FECRNI_DB, ['FE', 'CR', 'NI'], ['FCC_A1', 'BCC_A2'])
    cnt = {'n': 0, 'last': None}
    real = therm.getEq

    def spy(x, T, gExtra=0, precPhase=None):
        cnt['n'] += 1
        cnt['last'] = (np.array(x, dtype=np.float64).copy(), float(T))
        return real(x, T, gExtra, precPhase)
    therm.getEq = spy
    ht = HashTable()
    s = int(rng.integers(2, 9))
    ht.setHashSensitivity(s)
    on = True
    hits = 0
    offs = 0
    stored = []   # (id(value.mobility), x, T, mobility object)
    real_add = ht.addToHashTable

    def spy_add(x, T, value):
        stored.append((value, np.array(x, dtype=np.float64).copy(), float(T)))
        return real_add(x, T, value)
    ht.addToHashTable = spy_add
    real_get = ht.retrieveFromHashTable

    def spy_get(x, T):
        nonlocal hits
        v = real_get(x, T)
        if not on:
            R.check('cache_off', v is None, {'path': 'computeMobility', 'switch': 'enableCaching(False)'}, x=x, T=T, digits=s)
        if v is not None:
            hits += 1
            ent = [e for e in stored if e[0] is v]
            if not ent:
                R.check('cache_sound', False, {'path': 'computeMobility', 'coordinate': None, 'unknown_value': True})
            else:
                ok, worst, coord = _close(x, T, ent[-1][1], ent[-1][2], s)
                R.check('cache_sound', ok, _sound_mech('computeMobility', s, T, ent[-1][2], coord),
                        query_x=x, query_T=T, stored_x=ent[-1][1], stored_T=ent[-1][2], digits=s, distance_in_buckets=worst)
        return v
    ht.retrieveFromHashTable = spy_get
    for rnd in range(6):
        r = rng.random()
        if rnd == 2 or (rnd > 2 and r < 0.4):
            on = not on
            ht.enableCaching(on)
            offs += 0 if on else 1
        if r > 0.8:
            s = int(rng.integers(2, 9))
            ht.setHashSensitivity(s)
        n = int(rng.integers(3, 7))
        w = 10.0 ** (-s)
        x0 = np.array([rng.uniform(0.15, 0.35), rng.uniform(0.05, 0.25)])
        T0 = float(np.round(rng.uniform(1100, 1400)))
        xs, Ts = [], []
        for i in range(n):
            rr = rng.random()
            if rr < 0.4:
                xs.append(x0 + rng.uniform(0, 0.9, size=2) * w * 0.5)
                Ts.append(T0 + 0.3 * w)
            elif rr < 0.7:
                xs.append(x0.copy())
                Ts.append(T0 + float(rng.choice([100.0, -100.0, 1.0])))
            else:
                xs.append(x0 + rng.uniform(0.001, 0.02, size=2))
                Ts.append(T0)
        xa, Ta = np.array(xs), np.array(Ts)
        xb, Tb = xa.tobytes(), Ta.tobytes()
        c0 = cnt['n']
        try:
            res = computeMobility(therm, xa, Ta, ht)
        except Exception as e:
            R.observe('rejected')
            continue
        R.check('args_intact', xa.tobytes() == xb and Ta.tobytes() == Tb, {'path': 'computeMobility', 'arg': 'x,T'})
        dc = cnt['n'] - c0
        if not on:
            R.check('backend_calls', dc == n, {'path': 'computeMobility', 'switch': 'enableCaching(False)'},
                    backend_calls=dc, points=n, digits=s)
        else:
            R.check('backend_calls', dc <= n, {'path': 'computeMobility', 'switch': 'on'}, backend_calls=dc, points=n)
    R.observe('cache_hits', hits)
    R.info.update({'hits': hits, 'off_phases': offs})
    R.set_nontrivial(hits >= 1 and offs >= 1)


# ================================================================================================
# part 1b: argument immutability at compositions with zero / tiny entries

TINY_VALUES = (0.0, 1e-14, 1e-12)


def _tiny_forms(binary, p, others, full):
    """Argument forms for one composition point p (list of solute fractions, one of them tiny) embedded among the ordinary
    points `others`.  -> list of (form name, object passed, buffer to compare, is_batch).  `full`: also forms that carry
    the reference element first."""
    ne = len(p)
    out = []
    if binary:
        v = p[0]
        o = [q[0] for q in others]
        out.append(('b_0d', np.array(v, dtype=np.float64), None, False))
        out.append(('b_1elem', np.array([v], dtype=np.float64), None, False))
        out.append(('b_arrayN', np.array([o[0], v, o[1]], dtype=np.float64), None, True))
        out.append(('b_arrayN_first', np.array([v, o[0]], dtype=np.float64), None, True))
        big = np.full(7, 0.5, dtype=np.float64)
        big[::3] = [o[0], v, o[1]]
        out.append(('b_arrayN_strided_view', big[::3], big, True))
        col = np.array([[o[0]], [v], [o[1]]], dtype=np.float64)
        out.append(('b_column_C', col.copy(order='C'), None, True))
        out.append(('b_column_F', np.asfortranarray(col), None, True))
        out.append(('b_list', [o[0], v], None, True))
        if full:
            out.append(('b_full_composition', np.array([1.0 - v, v], dtype=np.float64), None, False))
        return out
    rows = [list(others[0]), list(p), list(others[1])]
    out.append(('m_1d', np.array(p, dtype=np.float64), None, False))
    out.append(('m_row_2d', np.array([p], dtype=np.float64), None, False))
    big = np.full(2 * ne + 1, 0.5, dtype=np.float64)
    big[::2][:ne] = p
    out.append(('m_1d_strided_view', big[::2][:ne], big, False))
    out.append(('m_list', list(p), None, False))
    out.append(('m_full_composition', np.array([1.0 - sum(p)] + list(p), dtype=np.float64), None, False))
    bigf = np.full(2 * (ne + 1), 0.5, dtype=np.float64)
    bigf[::2] = [1.0 - sum(p)] + list(p)
    out.append(('m_full_composition_strided_view', bigf[::2], bigf, False))
    out.append(('m_2d_C', np.array(rows, dtype=np.float64, order='C'), None, True))
    out.append(('m_2d_F', np.asfortranarray(np.array(rows, dtype=np.float64)), None, True))
    big2 = np.full((3, 2 * ne), 0.5, dtype=np.float64)
    big2[:, ::2] = rows
    out.append(('m_2d_column_strided_view', big2[:, ::2], big2, True))
    big3 = np.full((6, ne), 0.5, dtype=np.float64)
    big3[::2] = rows
    out.append(('m_2d_row_strided_view', big3[::2], big3, True))
    out.append(('m_2d_transposed_view', np.array(rows, dtype=np.float64).T.copy().T, None, True))
    out.append(('m_2d_full_composition', np.array([[1.0 - sum(r)] + r for r in rows], dtype=np.float64), None, True))
    out.append(('m_2d_list', [list(r) for r in rows], None, True))
    return out


def run_tinyargs(case, R):
    """Every query kind of the system is called with compositions that contain 0.0 / 1e-14 / 1e-12 in every argument form;
    only the arguments are examined (bitwise before/after, including the whole base buffer of a view).  Returned values are
    not compared: the solver resolves such points to ~10 % only."""
    from vlib import core
    rng = core.case_rng(case['seed'], PROPERTY, case['idx'])
    S = SYSTEMS[case['system']]
    binary = S['binary']
    sysn = case['system']
    obj = _build(case)
    ne = len(S['xlo'])
    T0 = float(np.round(rng.uniform(*S['T'])))
    kinds = ['df', 'interdiff', 'tracer', 'getEq', 'getLocalEq'] + ([] if binary else ['ic', 'curv', 'growth', 'imp'])
    single_only = ('ic', 'curv', 'growth', 'imp', 'getEq', 'getLocalEq')
    ncalls = nok = 0
    for kind in kinds:
        for pos in range(ne):
            for tiny in TINY_VALUES:
                p = _rand_x(rng, S)
                p[pos] = tiny
                if ne > 1 and rng.random() < 0.25:
                    p = [tiny] * ne if rng.random() < 0.5 else p      # every solute absent
                others = [_rand_x(rng, S), _rand_x(rng, S)]
                for form, xobj, base, is_batch in _tiny_forms(binary, p, others, full=(kind in ('getEq', 'getLocalEq') or not binary)):
                    if is_batch and kind in single_only:
                        continue
                    if kind in ('getEq', 'getLocalEq') and (form in ('b_0d',) or (isinstance(xobj, np.ndarray) and xobj.ndim > 1)):
                        continue
                    npts = 1
                    if is_batch:
                        npts = len(xobj)
                    Tform = str(rng.choice(['float', 'arr'])) if is_batch else str(rng.choice(['float', 'npfloat', 'arr1']))
                    if Tform == 'float':
                        Tobj = T0
                    elif Tform == 'npfloat':
                        Tobj = np.float64(T0)
                    elif Tform == 'arr1':
                        Tobj = np.array([T0], dtype=np.float64)
                    else:
                        Tobj = np.full(npts, T0, dtype=np.float64)
                    if kind in ('getEq', 'getLocalEq'):
                        Tobj = T0
                    prec = S['prec'][int(rng.integers(len(S['prec'])))]
                    rc = bool(rng.random() < 0.5)
                    tracked = {'x': (xobj, base if base is not None else xobj)}
                    if isinstance(Tobj, np.ndarray):
                        tracked['T'] = (Tobj, Tobj)
                    if kind == 'df':
                        fn, args, kw = obj.getDrivingForce, [xobj, Tobj], {'precPhase': prec, 'removeCache': rc}
                    elif kind == 'interdiff':
                        fn, args, kw = obj.getInterdiffusivity, [xobj, Tobj], {'removeCache': rc}
                    elif kind == 'tracer':
                        fn, args, kw = obj.getTracerDiffusivity, [xobj, Tobj], {'removeCache': rc}
                    elif kind == 'getEq':
                        fn, args, kw = obj.getEq, [xobj, Tobj, 0, prec], {}
                    elif kind == 'getLocalEq':
                        fn, args, kw = obj.getLocalEq, [xobj, Tobj, 0, -1 if rng.random() < 0.5 else prec], {}
                    elif kind == 'ic':
                        g = np.array([0.0, 200.0], dtype=np.float64) if rng.random() < 0.5 else 100.0
                        if isinstance(g, np.ndarray):
                            tracked['gExtra'] = (g, g)
                        fn, args, kw = obj.getInterfacialComposition, [xobj, T0, g], {'precPhase': prec}
                    else:
                        kw = {'precPhase': prec, 'removeCache': rc}
                        pname = prec if prec is not None else S['phases'][1]
                        if rng.random() < 0.5 and pname in S['sdir']:
                            sd = np.array(S['sdir'][pname], dtype=np.float64)
                            kw['searchDir'] = sd
                            tracked['searchDir'] = (sd, sd)
                        if kind == 'curv':
                            fn, args = obj.curvatureFactor, [xobj, Tobj]
                        elif kind == 'imp':
                            fn, args = obj.impingementFactor, [xobj, Tobj]
                        else:
                            Rr = np.array([1e-9, 5e-9], dtype=np.float64)
                            gg = np.array([400.0, 80.0], dtype=np.float64)
                            tracked['R'] = (Rr, Rr)
                            tracked['gExtra'] = (gg, gg)
                            fn, args = obj.getGrowthAndInterfacialComposition, [xobj, Tobj, 500.0, Rr, gg]
                    snap = {}
                    for n, (ob, buf) in tracked.items():
                        if isinstance(buf, np.ndarray):
                            snap[n] = (buf.tobytes(order='A'), buf.copy(), buf.shape, buf.strides)
                        else:
                            snap[n] = (repr(buf), None, None, None)
                    raised = None
                    try:
                        fn(*args, **kw)
                        nok += 1
                    except Exception as e:     # values at such points are not the subject; the arguments still are
                        raised = type(e).__name__
                        R.observe('tiny_call_raised')
                    ncalls += 1
                    R.observe('tiny_calls')
                    for n, (ob, buf) in tracked.items():
                        if isinstance(buf, np.ndarray):
                            ok = buf.tobytes(order='A') == snap[n][0] and buf.shape == snap[n][2] and buf.strides == snap[n][3]
                            after = buf
                        else:
                            ok = repr(buf) == snap[n][0]
                            after = repr(buf)
                        R.check('args_intact', ok, {'system': sysn, 'query': kind, 'arg': n, 'workload': 'tiny_entries',
                                                    'form': form if n == 'x' else None},
                                before=snap[n][1] if snap[n][1] is not None else snap[n][0], after=after, tiny=tiny, position=pos,
                                T=T0, raised=raised, df_method=case['df'])
    R.info.update({'calls': ncalls, 'completed': nok, 'system': sysn, 'df': case['df'], 'T': T0})
    R.set_nontrivial(nok >= 20)


# ================================================================================================
# part 2b: SinglePhaseModel under a temperature field, profiles with runs of bit-identical nodes

class _FieldStub:
    """Deterministic backend D(x, T) that logs every call."""
    def __init__(self, ne):
        self.ne = ne
        self.log = []

    def clearCache(self):
        pass

    @staticmethod
    def value(x, T, ne):
        x = np.atleast_1d(np.asarray(x, dtype=np.float64))
        d = 1e-10 * math.exp(-15000.0 / float(T))
        if ne == 1:
            return d * (1.0 + 2.0 * float(x[0]))
        return np.array([[d * (1.0 + 2.0 * x[0]), 0.10 * d * (1.0 + x[1])],
                         [0.05 * d * (1.0 + x[0]), 0.6 * d * (1.0 + 3.0 * x[1])]])

    def getInterdiffusivity(self, x, T, removeCache=True, phase=None):
        self.log.append((np.array(x, dtype=np.float64).copy(), float(T)))
        return self.value(x, T, self.ne)


def run_tfield(case, R):
    """Every node has its own temperature (field along z, drifting in time); step / bounded / constant profiles give runs of
    bit-identical compositions.  Cache off: every node must reach the backend with its own (x, T).  Cache on: a value may only
    be reused for nodes within 10^-s.  Fluxes and the stability time step are compared with a per-node reference."""
    from vlib import core
    from kawin.diffusion import SinglePhaseModel
    from kawin.diffusion.DiffusionParameters import CompositionProfile, TemperatureParameters
    from kawin.solver.Solver import SolverType
    rng = core.case_rng(case['seed'], PROPERTY, case['idx'])
    ne = int(rng.integers(1, 3))
    els = ['NI', 'CR', 'AL'][:ne + 1]
    N = int(rng.integers(10, 25))
    zl = 1e-3
    prof = CompositionProfile()
    ptype = str(rng.choice(['step', 'bounded', 'constant_single']))
    z0 = float(rng.uniform(-0.4, 0.4) * zl)
    for e in els[1:]:
        a, b = [float(v) for v in rng.uniform(0.05, 0.3, size=2)]
        if ptype == 'step':
            prof.addStepCompositionStep(e, a, b, z0 if rng.random() < 0.7 else float(rng.uniform(-0.4, 0.4) * zl))
        elif ptype == 'bounded':
            prof.addStepCompositionStep(e, a, a, 0.0)
            prof.addBoundedCompositionStep(e, b, z0 - 0.3 * zl, z0 + 0.2 * zl)
        else:
            prof.addStepCompositionStep(e, a, a, 0.0)
            prof.addSingleCompositionStep(e, b, z0)
    T0 = float(rng.uniform(900, 1300))
    grad = float(rng.choice([-1, 1]) * rng.uniform(2e4, 1.5e5))     # K/m: 40..300 K across the mesh
    dz_est = 2 * zl / (N - 1)
    tau = 3.0 * 0.4 * dz_est ** 2 / (1e-10 * math.exp(-15000.0 / T0))   # a few stability time steps
    rate = float(rng.choice([0.0, rng.uniform(-40.0, 40.0)]))        # amplitude (K) of a bounded drift in time

    def field(z, t):
        return T0 + grad * np.asarray(z) + rate * (1.0 - math.exp(-max(float(t), 0.0) / tau))
    stub = _FieldStub(ne)
    if rng.random() < 0.5:
        m = SinglePhaseModel([-zl, zl], N, els, ['FCC_A1'], thermodynamics=stub, compositionProfile=prof,
                             temperatureParameters=TemperatureParameters(field), record=False)
    else:
        m = SinglePhaseModel([-zl, zl], N, els, ['FCC_A1'], thermodynamics=stub, compositionProfile=prof, record=False)
        m.setTemperatureFunction(field)
    st = {'on': True, 's': 4, 'hits': 0, 'off': 0, 'runs': 0}
    ht = m.hashTable
    stored = []
    real_get, real_add = ht.retrieveFromHashTable, ht.addToHashTable

    def spy_add(x, T, value):
        stored.append((np.array(x, dtype=np.float64).copy(), float(T), value))
        return real_add(x, T, value)

    def spy_get(x, T):
        v = real_get(x, T)
        if not st['on']:
            R.check('cache_off', v is None, {'path': 'SinglePhaseModel', 'switch': 'useCache(False)', 'workload': 'temperature_field'},
                    x=np.array(x), T=T, digits=st['s'])
        if v is not None:
            st['hits'] += 1
        return v
    ht.addToHashTable = spy_add
    ht.retrieveFromHashTable = spy_get
    m.setup()

    def evaluate(tnow):
        m.t = tnow
        x = m.x.copy()
        Tn = field(m.z, tnow)
        runs = int(np.sum(np.all(x[:, 1:] == x[:, :-1], axis=0)))
        st['runs'] += runs
        n0 = len(stub.log)
        fluxes, dt = m.getFluxes()
        calls = stub.log[n0:]
        mech = {'path': 'SinglePhaseModel', 'workload': 'temperature_field', 'switch': 'on' if st['on'] else 'useCache(False)',
                'profile': ptype}
        if not st['on']:
            own = len(calls) == N and all(np.array_equal(c[0], x[:, i]) and c[1] == float(Tn[i]) for i, c in enumerate(calls))
            R.check('backend_calls', own, dict(mech, via='getFluxes'), backend_calls=len(calls), nodes=N, identical_neighbours=runs,
                    called_T=[c[1] for c in calls], node_T=Tn)
        else:
            R.check('backend_calls', len(calls) <= N, dict(mech, via='getFluxes'), backend_calls=len(calls), nodes=N)
        # admissible diffusivities per node: its own value, or a stored value whose arguments agree within 10^-s
        adm = []
        for i in range(N):
            a = [_FieldStub.value(x[:, i], Tn[i], ne)]
            if st['on']:
                for (xs, Ts, v) in stored:
                    if _close(x[:, i], Tn[i], xs, Ts, st['s'])[0]:
                        a.append(v)
            adm.append(a)
        worst = 0.0
        scale = max(float(np.max(np.abs(fluxes))), 1e-300)
        for j in range(1, N):
            dx = (x[:, j] - x[:, j - 1]) / m.dz
            best = float('inf')
            for da in adm[j - 1]:
                for db in adm[j]:
                    dm = (np.asarray(db) + np.asarray(da)) / 2
                    f = -dm * dx[0] if ne == 1 else -np.matmul(dm, dx)
                    best = min(best, float(np.max(np.abs(np.atleast_1d(f) - fluxes[:, j]))))
            worst = max(worst, best / scale)
        R.worst('tfield_flux_vs_per_node_reference', worst)
        R.check('cache_sound', worst <= 1e-9, dict(mech, via='flux_reference'), rel=worst, digits=st['s'], identical_neighbours=runs)
        if all(len(a) == 1 for a in adm):
            dmid = [(np.asarray(adm[j][0]) + np.asarray(adm[j - 1][0])) / 2 for j in range(1, N)]
            dt_ref = m.constraints.vonNeumannThreshold * m.dz ** 2 / max(float(np.max(np.abs(d))) for d in dmid)
            r = abs(dt - dt_ref) / dt_ref
            R.worst('tfield_dt_vs_per_node_reference', r)
            R.check('cache_sound', r <= 1e-9, dict(mech, via='dt_reference'), dt=dt, dt_ref=dt_ref, identical_neighbours=runs)
        return dt
    tnow = 0.0
    for step in range(int(rng.integers(6, 12))):
        r = rng.random()
        if step == 0 or r < 0.35:
            st['on'] = bool(rng.random() < 0.5) if step else False
            m.useCache(st['on'])
            st['off'] += 0 if st['on'] else 1
        elif r < 0.5:
            st['s'] = int(rng.integers(2, 9))
            m.setHashSensitivity(st['s'])
        elif r < 0.6:
            m.clearCache()
            del stored[:]
        dt = evaluate(tnow)
        if rng.random() < 0.3:
            it = SolverType.EXPLICITEULER if rng.random() < 0.5 else SolverType.RK4
            m.solve(float(dt) * float(rng.uniform(1.2, 2.5)), solverType=it)
            tnow = float(m.t)
        elif rate != 0.0 and rng.random() < 0.5:
            tnow += float(rng.uniform(0.2, 2.0)) * tau
    R.observe('cache_hits', st['hits'])
    R.info.update({'nodes': N, 'elements': ne, 'profile': ptype, 'identical_neighbour_pairs': st['runs'], 'off_phases': st['off'],
                   'gradient_K_per_m': grad, 'drift_amplitude_K': rate})
    R.set_nontrivial(st['runs'] >= 1 and st['off'] >= 1)


def run_case(case, R):
    kind = case['kind']
    if kind == 'tfield':
        return run_tfield(case, R)
    if kind == 'tinyargs':
        return run_tinyargs(case, R)
    if kind == 'history':
        return run_history(case, R)
    if kind == 'hashtable':
        return run_hashtable(case, R)
    if kind == 'singlephase':
        return run_singlephase(case, R)
    if kind == 'mobility':
        return run_mobility(case, R)
    raise ValueError(kind)


MANIFEST = {
    'text': 'Random histories of 20-60 public thermodynamic queries (driving force, interfacial composition, curvature/growth/impingement, '
            'interdiffusivity, tracer diffusivity; temperature jumps, phase switches, removeCache flags, batches, repeats) are run on one '
            'long-lived object per history for Al-Zr, Ni-Al-Cr and Fe-Cr-Ni; every query is repeated on a cleared and/or brand-new object and '
            'compared per returned array; argument arrays are compared bitwise before/after and checked for aliasing with results. The '
            'composition cache of the diffusion models is driven with operation histories (digits 1..8, on/off, near-boundary pairs) directly, '
            'through SinglePhaseModel with a counting stub backend and through computeMobility, against a shadow dictionary.',
    'note': 'trusted: pycalphad; a brand-new object as the history-free reference; noise-floor tolerances 1e-6 / 5e-5 relative to the array scale; '
            'sampled histories, not all histories',
    'technique': 'differential / metamorphic runtime monitor over paired executions (warmed vs fresh object) and a shadow-model history monitor for the cache',
}
