"""C15 - precipitate shape factors match the geometry they describe.

Everything observed is the real code in kawin/precipitation/parameters/ShapeFactors.py, called through its
public API: the four shape descriptions (functions of aspect ratio) and ShapeFactor (functions of radius,
constant or radius-dependent aspect ratio, critical-radius search).  The oracles are independent of that
file: adaptive quadrature (scipy.integrate.quad) of the spheroid surface-area integral and of the capacitance
integral 2 / int_0^inf ds / sqrt((a^2+s)(b^2+s)(c^2+s)) (cross-checked inside the harness against Carlson's
R_F, scipy.special.elliprf; a disagreement of the two makes the case inconclusive, never a violation).

Monitors
  axes_unit_volume      the three lengths returned by normalRadii(ar) give unit volume and the requested ratio:
                        needle (a,a,a*ar), plate (a*ar,a*ar,a), sphere (a,a,a): 4*pi/3 * product = 1;
                        cuboid: product = 1 and max/min = ar (1e-12 relative, same arithmetic)
  thermo_area_oracle    needle/plate thermoFactor(ar) = area(spheroid)/area(equal-volume sphere)   (1e-8 relative)
  kinetic_capacitance_oracle  needle/plate kineticFactor(ar) = capacitance(spheroid)/R(equal-volume sphere) (1e-8)
  unit_at_one           needle/plate thermo, kinetic and equivalent-radius factor equal 1 at ar = 1 (1e-12)
  increasing            the same three factors increase strictly along a jittered log grid in [1,100] whose
                        spacing (>= 1e-4 in log) keeps every true increment >= 9e-10, 900x the rounding noise
  continuity_at_1       every factor of every shape: |f(1+eps) - f(1)| <= L*eps, L = 2, eps = 1e-3 ... 1e-9
                        (largest true slope at 1 is 2/3, plate equivalent radius; rounding noise is 1e-12)
  scalar_array_agree    f(array)[i] equals f(float(array[i])) (1e-12 relative; list, view, int and 0-d inputs too)
  below_one_as_one      for ar < 1 the result is the result of ar = 1 (scalar and array elements)
  caller_array_intact   the bit image of the caller's array (contiguous, strided view, 0-d, integer, read-only,
                        array handed out by the caller's aspect-ratio function) is unchanged by the call;
                        a read-only array must be accepted
  rcrit_root            findRcrit(R_s, R_max) returns R with |R/(R_s*thermoFactor(ar(R))) - 1| <= ShapeFactor.tol
                        whenever a root is bracketed
  history_fresh_agree   re-specification histories on ONE ShapeFactor object (setAspectRatio with constants and callables,
                        shape changes by name / set*Shape / description instance / description setter, interleaved with
                        scalar and array queries of recurring and new sizes): every query (normalRadii, the three factors,
                        aspectRatio, findRcrit) equals the same query on a fresh object that was given only the
                        specification currently in force (1e-12 relative; the arithmetic is identical).  The same queries
                        also feed axes_unit_volume, thermo_area_oracle, kinetic_capacitance_oracle (aspect ratio in force
                        evaluated by the harness) and scalar_array_agree (scalar follow-up queries on the same object),
                        with api = 'history' in the mechanism.

Decisions where the statement is silent or ambiguous (resolved towards not asserting)
  * "multiply to unit volume": the spheroid/sphere lengths are semi-axes (volume 4*pi/3*abc); the cuboid
    lengths are full edges (volume abc) - the convention its own equivalent-radius factor uses
    (cbrt(3*ar/(4*pi)) is the radius of the sphere with the volume of a 1 x 1 x ar box).  Which two cuboid edges
    are equal is not asserted.
  * The sphere ignores the aspect ratio it is given (a sphere has none); for ar > 1 only its unit volume is
    asserted, the ratio only at ar = 1.  The event is counted (sphere_ratio_not_applicable).
  * No geometric oracle is asserted for the cuboid factors and none for the equivalent-radius factor beyond
    "1 at 1 and increasing" (needle/plate); value-1-at-1 and monotonicity are not asserted for the cuboid.
  * "factor" in the critical-radius equation is the thermodynamic factor (the objective the search documents).
    "A root is bracketed" = the residual g(R) = R/(R_s*f(ar(R))) - 1 changes sign between R_s and R_max (or
    vanishes at R_s) AND the harness's own root finder (scipy brentq on the same public residual) finds a point
    in the bracket with |g| <= tol/100.  A sign change across a jump of g is therefore not counted as a
    bracketed root (event sign_change_without_root); nothing is asserted for unbracketed calls, nor that the
    returned root lies inside the bracket.  Aspect-ratio functions are continuous, positive and <= 100.
  * Histories: the specification in force is what the last calls requested (shape, constant or callable ratio);
    the documented override "sphere description => aspect ratio 1" (setSpherical, SphereDescription instance) is
    followed by the harness's shadow; aspectRatio(R) is compared with the fresh object only (its value for a
    sphere or for ratios below 1 is not in the statement).
  * Output array shapes are checked only as far as needed to pair elements (n >= 2 inputs give n outputs).
  * Aspect ratios are finite numbers in (0, 100] (0 occurs only as the below-1 member of integer arrays);
    negative, NaN and > 100 inputs are outside the statement.
"""
import math
import warnings

import numpy as np

PROPERTY = 'C15'
LEVEL = 'exploration'
RULE = ('case kinds: geometry (jittered log grid of aspect ratios over a window of [1,100]; quadrature oracles for '
        'needle/plate, semi-axes for 4 shapes, both APIs), continuity (eps = 1e-3..1e-9 fixed + random, 4 shapes x 3 '
        'factors x 4 call paths), args (random arrays mixing ratios < 1, = 1, > 1 in 7 container kinds: scalar=array, '
        'clamp, argument bit image), rcrit (random continuous radius-dependent and constant aspect-ratio functions, '
        'tolerances 1e-2..1e-9), history (8 random re-specification histories of ~30 operations on one ShapeFactor object each). Non-trivial: geometry >= 100 ratios with factor-1 > 1e-6 compared with the oracle; '
        'continuity: all three factors evaluated at some eps <= 1e-6; args: an array with elements on both sides of 1 '
        'whose bit image was compared; rcrit: a bracketed search whose start point misses the root by > 10 tol; history: an array query of a size already queried before the latest '
        'change of the ratio in force, compared with a fresh object. '
        'Distinct by case description (kind, window/shape, seed, index)')
REQUIRED_MONITORS = ['axes_unit_volume', 'thermo_area_oracle', 'kinetic_capacitance_oracle', 'unit_at_one', 'increasing',
                     'continuity_at_1', 'scalar_array_agree', 'below_one_as_one', 'caller_array_intact', 'rcrit_root',
                     'history_fresh_agree']
_F = 'precipitation/parameters/ShapeFactors.py:'
REACH = [_F + 'ShapeDescriptionBase._processAspectRatio', _F + 'ShapeDescriptionBase.normalRadii',
         _F + 'ShapeDescriptionBase.eqRadiusFactor', _F + 'ShapeDescriptionBase.kineticFactor',
         _F + 'ShapeDescriptionBase.thermoFactor',
         _F + 'SphereDescription._normalRadii',
         _F + 'NeedleDescription._eqRadius', _F + 'NeedleDescription._normalRadii',
         _F + 'NeedleDescription._kineticFactor', _F + 'NeedleDescription._thermoFactor',
         _F + 'PlateDescription._eqRadius', _F + 'PlateDescription._normalRadii',
         _F + 'PlateDescription._kineticFactor', _F + 'PlateDescription._thermoFactor',
         _F + 'CuboidalDescription._eqRadius', _F + 'CuboidalDescription._normalRadii',
         _F + 'CuboidalDescription._kineticFactor', _F + 'CuboidalDescription._thermoFactor',
         _F + 'ShapeFactor.normalRadii', _F + 'ShapeFactor.eqRadiusFactor', _F + 'ShapeFactor.kineticFactor',
         _F + 'ShapeFactor.thermoFactor', _F + 'ShapeFactor._findRcritScalar', _F + 'ShapeFactor._findRcrit',
         _F + 'ShapeFactor.setAspectRatio', _F + 'ShapeFactor.setPrecipitateShape', _F + 'ShapeFactor._scalarAspectRatioEquation']
MIN_NONTRIVIAL = {'quick': 90, 'thorough': 6000}
CASE_TIMEOUT = 300
MAX_INCONCLUSIVE_FRACTION = 0.0
ASSUMPTIONS = ['scipy.integrate.quad (error estimate <= 1e-10 required) and scipy.special.elliprf are trusted; they must agree to 1e-10',
               'continuity is a limit statement; it is restated as a Lipschitz bound on eps = 1e-3..1e-9',
               'monotonicity is checked on finite grids (spacing >= 1e-4 in log), not between arbitrary pairs',
               'all aspect ratios in [1,100] (and (0,1), treated as 1); radius-dependent functions are continuous']

SHAPES = ['sphere', 'needle', 'plate', 'cubic']
FACTORS = ['eqRadiusFactor', 'kineticFactor', 'thermoFactor']
SPHEROIDS = ['needle', 'plate']

TOL_ORACLE = 1e-8      # DESIGN C15; measured worst 1.3e-12 (oracle vs code, rounding of the closed forms near ar = 1),
                       # quadrature error estimates <= 1e-13, quadrature vs Carlson R_F <= 1e-15
TOL_SAME = 1e-12       # same arithmetic repeated (scalar vs array, product of radii)
LIPSCHITZ = 2.0        # > 3 x sup |f'(1)| = 2/3
EPS_FIXED = [1e-3, 3e-4, 1e-4, 3e-5, 1e-5, 3e-6, 1e-6, 3e-7, 1e-7, 3e-8, 1e-8, 3e-9, 1e-9]
MIN_LOG_SPACING = 2e-4  # grid spacing; jitter keeps consecutive points >= half of it apart
V_SPHERE = 4.0 * math.pi / 3.0


# ================================================================================================ plan

def plan(tier, seed):
    cases = []
    if tier == 'quick':
        windows = [(1.0, 100.0, 250)] * 10 + [(1.0, 1.1, 250), (1.0, 2.0, 250)]
        n_cont, n_args, n_rcrit, per_rcrit = 1, 5, 40, 10
    else:
        windows = ([(1.0, 100.0, 250)] * 1000 + [(1.0, 100.0, 1000)] * 150 + [(1.0, 1.1, 400)] * 150 + [(1.0, 2.0, 400)] * 150
                   + [(1.05, 10.0, 400)] * 75 + [(10.0, 100.0, 400)] * 75)
        n_cont, n_args, n_rcrit, per_rcrit = 25, 200, 3600, 10
    for k, (lo, hi, n) in enumerate(windows):
        cases.append({'kind': 'geometry', 'lo': lo, 'hi': hi, 'n': n, 'rep': k, 'weight': n / 100.0})
    for shape in SHAPES:
        for path in ('description', 'shapefactor'):
            for k in range(n_cont):
                cases.append({'kind': 'continuity', 'shape': shape, 'path': path, 'rep': k, 'weight': 0.5})
    for shape in SHAPES:
        for k in range(n_args):
            cases.append({'kind': 'args', 'shape': shape, 'rep': k, 'trials': 60, 'weight': 1.0})
    for k in range(n_rcrit):
        cases.append({'kind': 'rcrit', 'rep': k, 'searches': per_rcrit, 'weight': 0.5})
    for k in range(24 if tier == 'quick' else 600):
        cases.append({'kind': 'history', 'rep': k, 'histories': 8, 'ops': 30, 'weight': 1.0})
    return cases


# ================================================================================================ oracles

def _quad(f, a, b):
    from scipy.integrate import quad
    with warnings.catch_warnings():
        warnings.simplefilter('ignore')
        v, e = quad(f, a, b, epsabs=0.0, epsrel=1e-13, limit=400)
    return v, e


def oracle_area_ratio(a, c):
    """Surface area of the spheroid (a, a, c) over that of the sphere of equal volume, by quadrature of the
    surface-of-revolution integral 2 pi int_0^pi a sin t sqrt(a^2 cos^2 t + c^2 sin^2 t) dt written in u = cos t:
    4 pi a int_0^1 sqrt(c^2 + (a^2 - c^2) u^2) du (for the oblate case split near the corner u ~ c/a).
    Returns (ratio, relative error estimate)."""
    k = a * a - c * c
    c2 = c * c

    def g(u):
        return math.sqrt(c2 + k * u * u)
    pts = [0.0, 1.0]
    if a > c:
        pts += [m * c / a for m in (1.0, 4.0, 16.0) if m * c / a < 1.0]
    pts = sorted(set(pts))
    I, E = 0.0, 0.0
    for lo, hi in zip(pts[:-1], pts[1:]):
        v, e = _quad(g, lo, hi)
        I += v
        E += e
    req = (a * a * c) ** (1.0 / 3.0)
    return 4.0 * math.pi * a * I / (4.0 * math.pi * req * req), abs(E / I)


def oracle_capacitance_ratio(a, b, c):
    """Capacitance 2 / int_0^inf ds/sqrt((a^2+s)(b^2+s)(c^2+s)) of the ellipsoid over the equal-volume sphere radius.
    [0, X] is integrated directly (split at the squared semi-axes), the tail with s = X/u^2 (smooth integrand)."""
    a2, b2, c2 = a * a, b * b, c * c

    def g(s):
        return 1.0 / math.sqrt((a2 + s) * (b2 + s) * (c2 + s))
    X = max(a2, b2, c2)
    pts = sorted(set([0.0, min(a2, b2, c2), X]))
    I, E = 0.0, 0.0
    for lo, hi in zip(pts[:-1], pts[1:]):
        v, e = _quad(g, lo, hi)
        I += v
        E += e

    def h(u):
        uu = u * u
        return 2.0 * X / math.sqrt((a2 * uu + X) * (b2 * uu + X) * (c2 * uu + X))
    v, e = _quad(h, 0.0, 1.0)
    I += v
    E += e
    req = (a * b * c) ** (1.0 / 3.0)
    return 2.0 / I / req, abs(E / I)


def oracle_capacitance_ratio_rf(a, b, c):
    from scipy.special import elliprf
    return 1.0 / float(elliprf(a * a, b * b, c * c)) / (a * b * c) ** (1.0 / 3.0)


def _axes(shape, ar):
    return (1.0, 1.0, ar) if shape == 'needle' else (ar, ar, 1.0)


# ================================================================================================ helpers

def _make_sf(shape, ar, how=0):
    """ShapeFactor for `shape` through one of the public construction paths."""
    from kawin.precipitation.parameters import ShapeFactors as SFm
    how = how % 3
    if how == 0:
        return SFm.ShapeFactor(shape, ar)
    sf = SFm.ShapeFactor()
    if how == 1:
        {'sphere': sf.setSpherical, 'needle': sf.setNeedleShape, 'plate': sf.setPlateShape,
         'cubic': sf.setCuboidalShape}[shape](ar)
        if shape == 'sphere':
            sf.setAspectRatio(ar)
    else:
        cls = {'sphere': SFm.SphereDescription, 'needle': SFm.NeedleDescription, 'plate': SFm.PlateDescription,
               'cubic': SFm.CuboidalDescription}[shape]
        sf.setPrecipitateShape(cls(), ar)
        if shape == 'sphere':
            sf.setAspectRatio(ar)
    return sf


def _description(shape):
    from kawin.precipitation.parameters import ShapeFactors as SFm
    return SFm.ShapeFactor(shape).description


def _bulk(R, monitor, ok, mech, **detail_arrays):
    """Vectorised monitor: `ok` boolean array; one violation record (worst element first) if any element fails."""
    ok = np.atleast_1d(np.asarray(ok, dtype=bool))
    n = ok.size
    if n == 0:
        return True
    if ok.all():
        R.count(monitor, n)
        return True
    bad = np.flatnonzero(~ok)
    i = int(bad[0])
    det = {'n_failed': int(bad.size), 'n': n, 'first_failed_index': i}
    for k, v in detail_arrays.items():
        v = np.asarray(v)
        det[k] = v[i] if v.ndim >= 1 and v.shape[0] == n else v
    R.count(monitor, n - 1)
    R.check(monitor, False, mech, **det)
    return False


def _rel(x, ref):
    x = np.asarray(x, dtype=float)
    ref = np.asarray(ref, dtype=float)
    with np.errstate(all='ignore'):
        r = np.abs(x / ref - 1.0)
    return np.where(np.isfinite(r), r, np.inf)


def _grid(lo, hi, n, rng):
    h = math.log(hi / lo) / n
    assert h >= MIN_LOG_SPACING, 'grid too fine for the monotonicity margin'
    i = np.arange(1, n)
    g = lo * np.exp((i + 0.5 * rng.random(n - 1)) * h)
    return np.concatenate([[lo], g, [hi]])


def _check_axes(R, shape, ar, nr, api):
    """ar: (n,) ratios >= 1, nr: (n,3) output of normalRadii."""
    nr = np.asarray(nr, dtype=float)
    ar = np.atleast_1d(np.asarray(ar, dtype=float))
    mech = {'shape': shape, 'api': api}
    if nr.shape != (ar.size, 3):
        if ar.size == 1 and nr.shape == (3,):
            nr = nr.reshape(1, 3)
        else:
            R.check('axes_unit_volume', False, dict(mech, clause='shape'), got_shape=list(nr.shape), n=ar.size)
            return
    prod = nr[:, 0] * nr[:, 1] * nr[:, 2]
    vol = prod if shape == 'cubic' else V_SPHERE * prod
    rv = _rel(vol, 1.0)
    R.worst('axes_volume_rel', float(np.max(rv)))
    _bulk(R, 'axes_unit_volume', (rv <= TOL_SAME) & np.all(nr > 0, axis=1), dict(mech, clause='volume'),
          ar=ar, radii=nr, volume=vol)
    srt = np.sort(nr, axis=1)
    if shape == 'sphere':
        m = ar == 1.0
        R.observe('sphere_ratio_not_applicable', int((~m).sum()))
        if m.any():
            rr = _rel(srt[m, 2] / srt[m, 0], 1.0)
            _bulk(R, 'axes_unit_volume', rr <= TOL_SAME, dict(mech, clause='ratio'), ar=ar[m], radii=nr[m])
        return
    rr = _rel(srt[:, 2] / srt[:, 0], ar)
    if shape == 'needle':      # prolate: two short axes equal
        rr = np.maximum(rr, _rel(srt[:, 1], srt[:, 0]))
    elif shape == 'plate':     # oblate: two long axes equal
        rr = np.maximum(rr, _rel(srt[:, 1], srt[:, 2]))
    R.worst('axes_ratio_rel', float(np.max(rr)))
    _bulk(R, 'axes_unit_volume', rr <= TOL_SAME, dict(mech, clause='ratio'), ar=ar, radii=nr, ratio_error=rr)


def _call(R, monitor, mech, fn, *args):
    """Call into kawin where the statement implies success; an escaping exception is a violation of `monitor`."""
    try:
        return True, fn(*args)
    except Exception as e:  # noqa
        R.exception(monitor, e, mech)
        return False, None


# ================================================================================================ geometry

def _run_geometry(case, R, rng):
    grid = _grid(case['lo'], case['hi'], case['n'], rng)
    n = grid.size
    R.observe('distinct_ratios', n)
    at_one = grid[0] == 1.0
    oracle = {}
    nontrivial_cmp = 0
    for shape in SPHEROIDS:
        A = np.empty(n)
        C = np.empty(n)
        for i, ar in enumerate(grid):
            ax = _axes(shape, float(ar))
            A[i], eA = oracle_area_ratio(ax[0], ax[2])
            C[i], eC = oracle_capacitance_ratio(*ax)
            c2 = oracle_capacitance_ratio_rf(*ax)
            R.worst('oracle_quad_error_estimate', max(eA, eC))
            R.worst('oracle_quad_vs_carlson', abs(C[i] / c2 - 1.0))
            if max(eA, eC) > 1e-10 or abs(C[i] / c2 - 1.0) > 1e-10:
                R.inconclusive = 'oracle self-check failed at ar=%r shape=%s' % (float(ar), shape)
                return
        oracle[shape] = (A, C)

    for shape in SHAPES:
        d = _description(shape)
        mech0 = {'shape': shape, 'api': 'description'}
        # semi-axes
        ok, nr = _call(R, 'axes_unit_volume', mech0, d.normalRadii, grid.copy())
        if ok:
            _check_axes(R, shape, grid, nr, 'description')
            # information only (the statement does not pin the value of the equivalent-radius factor):
            # eqRadiusFactor(ar) * shortest unit-volume length should be the unit-volume sphere radius
            try:
                eq = np.asarray(d.eqRadiusFactor(grid.copy()), dtype=float)
                short = np.min(np.asarray(nr, dtype=float), axis=1)
                gt = grid > 1.0
                R.worst('info_eqradius_times_short_axis_rel_%s' % shape,
                        float(np.max(_rel(eq[gt] * short[gt], (1.0 / V_SPHERE) ** (1.0 / 3.0)))))
            except Exception:
                R.observe('info_eqradius_identity_not_evaluated')
        if shape not in SPHEROIDS:
            continue
        A, C = oracle[shape]
        vals = {}
        for fac in FACTORS:
            ok, v = _call(R, 'increasing', dict(mech0, factor=fac), getattr(d, fac), grid.copy())
            if not ok:
                continue
            v = np.asarray(v, dtype=float)
            if v.shape != grid.shape:
                R.check('scalar_array_agree', False, dict(mech0, factor=fac, clause='shape'), got=list(v.shape), n=n)
                continue
            vals[fac] = v
            m = dict(mech0, factor=fac)
            if at_one:
                R.check('unit_at_one', abs(v[0] - 1.0) <= TOL_SAME, m, value=v[0])
            dv = np.diff(v)
            R.worst('neg_min_increment_' + fac, -float(np.min(dv)))
            _bulk(R, 'increasing', dv > 0, m, ar_lo=grid[:-1], ar_hi=grid[1:], f_lo=v[:-1], f_hi=v[1:])
            if not at_one:
                _bulk(R, 'increasing', v > 1.0, dict(m, clause='above_value_at_one'), ar_lo=grid, f_lo=v)
        if 'thermoFactor' in vals:
            r = _rel(vals['thermoFactor'], A)
            R.worst('thermo_vs_area_rel', float(np.max(r)))
            _bulk(R, 'thermo_area_oracle', r <= TOL_ORACLE, dict(mech0, factor='thermoFactor'),
                  ar=grid, got=vals['thermoFactor'], oracle=A, rel=r)
            nontrivial_cmp += int((A - 1.0 > 1e-6).sum())
        if 'kineticFactor' in vals:
            r = _rel(vals['kineticFactor'], C)
            R.worst('kinetic_vs_capacitance_rel', float(np.max(r)))
            _bulk(R, 'kinetic_capacitance_oracle', r <= TOL_ORACLE, dict(mech0, factor='kineticFactor'),
                  ar=grid, got=vals['kineticFactor'], oracle=C, rel=r)

        # the same through ShapeFactor: radius-dependent aspect ratio ar(R) = R / R0 over the whole grid ...
        R0 = float(10.0 ** rng.uniform(-10, -7))
        sf = _make_sf(shape, lambda r, R0=R0: np.asarray(r, dtype=float) / R0, how=int(rng.integers(3)))
        radii = grid * R0
        m = {'shape': shape, 'api': 'shapefactor_fn'}
        ok, v = _call(R, 'thermo_area_oracle', dict(m, factor='thermoFactor'), sf.thermoFactor, radii.copy())
        if ok:
            r = _rel(v, A) if np.shape(v) == grid.shape else np.array([np.inf])
            R.worst('thermo_vs_area_rel', float(np.max(r)))
            _bulk(R, 'thermo_area_oracle', r <= TOL_ORACLE, dict(m, factor='thermoFactor'), ar=grid, got=v, oracle=A, rel=r)
        ok, v = _call(R, 'kinetic_capacitance_oracle', dict(m, factor='kineticFactor'), sf.kineticFactor, radii.copy())
        if ok:
            r = _rel(v, C) if np.shape(v) == grid.shape else np.array([np.inf])
            R.worst('kinetic_vs_capacitance_rel', float(np.max(r)))
            _bulk(R, 'kinetic_capacitance_oracle', r <= TOL_ORACLE, dict(m, factor='kineticFactor'), ar=grid, got=v, oracle=C, rel=r)
        ok, nr = _call(R, 'axes_unit_volume', m, sf.normalRadii, radii.copy())
        if ok:
            _check_axes(R, shape, radii / R0, nr, 'shapefactor_fn')
        # ... and constant aspect ratio, scalar radius, for a few grid points
        for i in [0] + list(rng.choice(n, size=8, replace=False)):
            ar = float(grid[i])
            sfc = _make_sf(shape, ar, how=int(rng.integers(3)))
            rad = float(10.0 ** rng.uniform(-10, -6))
            m = {'shape': shape, 'api': 'shapefactor_const'}
            if ar == 1.0:
                for fac in FACTORS:
                    ok, v = _call(R, 'unit_at_one', dict(m, factor=fac), getattr(sfc, fac), rad)
                    if ok:
                        R.check('unit_at_one', np.size(v) == 1 and abs(float(np.asarray(v).reshape(-1)[0]) - 1.0) <= TOL_SAME,
                                dict(m, factor=fac), value=v)
            ok, v = _call(R, 'thermo_area_oracle', dict(m, factor='thermoFactor'), sfc.thermoFactor, rad)
            if ok:
                r = float(_rel(float(np.asarray(v).reshape(-1)[0]) if np.size(v) == 1 else np.nan, A[i]))
                R.worst('thermo_vs_area_rel', r)
                R.check('thermo_area_oracle', r <= TOL_ORACLE, dict(m, factor='thermoFactor'), ar=ar, got=v, oracle=A[i])
            ok, v = _call(R, 'kinetic_capacitance_oracle', dict(m, factor='kineticFactor'), sfc.kineticFactor, rad)
            if ok:
                r = float(_rel(float(np.asarray(v).reshape(-1)[0]) if np.size(v) == 1 else np.nan, C[i]))
                R.worst('kinetic_vs_capacitance_rel', r)
                R.check('kinetic_capacitance_oracle', r <= TOL_ORACLE, dict(m, factor='kineticFactor'), ar=ar, got=v, oracle=C[i])
            ok, nr = _call(R, 'axes_unit_volume', m, sfc.normalRadii, rad)
            if ok:
                _check_axes(R, shape, np.array([ar]), nr, 'shapefactor_const')
    # sphere / cuboid through ShapeFactor with constant ratio
    for shape in ('sphere', 'cubic'):
        for i in rng.choice(n, size=8, replace=False):
            ar = float(grid[i])
            sfc = _make_sf(shape, ar, how=int(rng.integers(3)))
            ok, nr = _call(R, 'axes_unit_volume', {'shape': shape, 'api': 'shapefactor_const'}, sfc.normalRadii,
                           float(10.0 ** rng.uniform(-10, -6)))
            if ok:
                _check_axes(R, shape, np.array([ar]), nr, 'shapefactor_const')
    R.info['oracle_comparisons_with_factor_above_1'] = nontrivial_cmp
    R.set_nontrivial(nontrivial_cmp >= 100)


# ================================================================================================ continuity

def _run_continuity(case, R, rng):
    shape, path = case['shape'], case['path']
    eps = np.array(EPS_FIXED + list(10.0 ** (-rng.uniform(3, 9, size=40))))
    small_done = set()
    if path == 'description':
        d = _description(shape)
        for fac in FACTORS:
            f = getattr(d, fac)
            # scalar calls
            m = {'shape': shape, 'factor': fac, 'api': 'description_scalar'}
            ok, f1 = _call(R, 'continuity_at_1', m, f, 1.0)
            if not ok:
                continue
            f1 = float(f1)
            diffs = []
            for e in eps:
                ok, fe = _call(R, 'continuity_at_1', m, f, 1.0 + float(e))
                diffs.append(abs(float(fe) - f1) if ok else np.nan)
            diffs = np.array(diffs)
            eff = (1.0 + eps) - 1.0
            fin = np.isfinite(diffs)
            ratio = diffs[fin] / (LIPSCHITZ * eff[fin])
            R.worst('continuity_ratio_%s' % shape, float(np.max(ratio)) if ratio.size else 0.0)
            _bulk(R, 'continuity_at_1', ratio <= 1.0, m, eps=eff[fin], jump=diffs[fin], bound=LIPSCHITZ * eff[fin], f_at_1=f1)
            # one array call holding 1 and all 1+eps
            m = {'shape': shape, 'factor': fac, 'api': 'description_array'}
            arr = np.concatenate([[1.0], 1.0 + eps])
            ok, v = _call(R, 'continuity_at_1', m, f, arr.copy())
            if ok and np.shape(v) == arr.shape:
                v = np.asarray(v, dtype=float)
                dd = np.abs(v[1:] - v[0])
                ratio = np.where(np.isfinite(dd), dd, np.inf) / (LIPSCHITZ * eff)
                R.worst('continuity_ratio_%s' % shape, float(np.max(ratio)))
                _bulk(R, 'continuity_at_1', ratio <= 1.0, m, eps=eff, jump=dd, bound=LIPSCHITZ * eff, f_at_1=v[0])
            if (eff <= 1e-6).any():
                small_done.add(fac)
    else:
        R0 = float(10.0 ** rng.uniform(-10, -7))
        how = int(rng.integers(3))
        for fac in FACTORS:
            # constant aspect ratio: one ShapeFactor per value
            m = {'shape': shape, 'factor': fac, 'api': 'shapefactor_const'}
            rad = float(10.0 ** rng.uniform(-10, -6))
            ok, f1 = _call(R, 'continuity_at_1', m, lambda: getattr(_make_sf(shape, 1.0, how), fac)(rad))
            if not ok:
                continue
            f1 = float(f1)
            diffs = []
            for e in eps:
                ok, fe = _call(R, 'continuity_at_1', m, lambda: getattr(_make_sf(shape, 1.0 + float(e), how), fac)(rad))
                diffs.append(abs(float(fe) - f1) if ok else np.nan)
            diffs = np.array(diffs)
            eff = (1.0 + eps) - 1.0
            fin = np.isfinite(diffs)
            ratio = diffs[fin] / (LIPSCHITZ * eff[fin])
            R.worst('continuity_ratio_%s' % shape, float(np.max(ratio)) if ratio.size else 0.0)
            _bulk(R, 'continuity_at_1', ratio <= 1.0, m, eps=eff[fin], jump=diffs[fin], bound=LIPSCHITZ * eff[fin], f_at_1=f1)
            # radius-dependent ar(R) = R/R0 evaluated at R0 and R0 (1+eps) in one array call
            m = {'shape': shape, 'factor': fac, 'api': 'shapefactor_fn'}
            arfun = (lambda r, R0=R0: np.asarray(r, dtype=float) / R0)
            sf = _make_sf(shape, arfun, how)
            radii = np.concatenate([[R0], R0 * (1.0 + eps)])
            eff = arfun(radii)[1:] - 1.0
            keep = eff > 0
            ok, v = _call(R, 'continuity_at_1', m, getattr(sf, fac), radii.copy())
            if ok and np.shape(v) == radii.shape:
                v = np.asarray(v, dtype=float)
                dd = np.abs(v[1:] - v[0])[keep]
                ratio = np.where(np.isfinite(dd), dd, np.inf) / (LIPSCHITZ * eff[keep])
                R.worst('continuity_ratio_%s' % shape, float(np.max(ratio)))
                _bulk(R, 'continuity_at_1', ratio <= 1.0, m, eps=eff[keep], jump=dd, bound=LIPSCHITZ * eff[keep], f_at_1=v[0])
            if (eff <= 1e-6).any():
                small_done.add(fac)
    R.set_nontrivial(len(small_done) == len(FACTORS))


# ================================================================================================ args

CONTAINERS = ['ndarray', 'view', 'zero_d', 'int_array', 'list', 'readonly', 'fn_table']


def _draw_ratios(rng, n):
    kind = rng.random(n)
    v = np.exp(rng.uniform(0.0, math.log(100.0), size=n))
    below = kind < 0.3
    v[below] = rng.uniform(0.01, 1.0, size=int(below.sum()))
    v[(kind >= 0.3) & (kind < 0.4)] = 1.0
    return v


def _run_args(case, R, rng):
    shape = case['shape']
    d = _description(shape)
    methods = FACTORS + ['normalRadii']
    ref1 = {}
    for meth in methods:
        ok, v = _call(R, 'below_one_as_one', {'shape': shape, 'method': meth, 'api': 'scalar'}, getattr(d, meth), 1.0)
        if ok:
            ref1[meth] = np.asarray(v, dtype=float)
    nontrivial = False
    for t in range(case['trials']):
        cont = CONTAINERS[t % len(CONTAINERS)]
        n = 1 if cont == 'zero_d' else int(rng.integers(2, 40))
        vals = _draw_ratios(rng, n)
        if cont == 'int_array':
            vals = rng.integers(0, 12, size=n).astype(float)
        if cont != 'zero_d' and t % 2 == 0:      # make sure both sides of 1 are present
            vals[0] = float(rng.uniform(0.05, 0.95)) if cont != 'int_array' else 0.0
            vals[1] = float(rng.uniform(1.5, 50.0)) if cont != 'int_array' else 7.0
        if cont == 'zero_d':
            vals[0] = float(rng.uniform(0.05, 0.95)) if t % 2 == 0 else vals[0]
        for meth in methods:
            if meth not in ref1:
                continue
            mech = {'shape': shape, 'method': meth, 'input': cont}
            # ---- build the caller's object
            base = None
            if cont == 'ndarray':
                arg = vals.copy()
            elif cont == 'view':
                base = np.full(2 * n + 1, 0.25)
                base[1::2] = vals
                arg = base[1::2]
            elif cont == 'zero_d':
                arg = np.array(vals[0])
            elif cont == 'int_array':
                arg = vals.astype(np.int64)
            elif cont == 'list':
                arg = [float(x) for x in vals]
            elif cont == 'readonly':
                arg = vals.copy()
                arg.setflags(write=False)
            else:
                arg = vals.copy()
            watched = base if base is not None else arg
            image = watched.tobytes() if isinstance(watched, np.ndarray) else list(watched)
            # ---- the call
            try:
                if cont == 'fn_table':
                    # the caller's aspect-ratio function hands out an array the caller keeps
                    sf = _make_sf(shape, (lambda r, tab=arg: tab), how=t)
                    out = getattr(sf, meth)(np.full(n, 1e-9))
                else:
                    out = getattr(d, meth)(arg)
            except Exception as e:  # noqa
                R.exception('caller_array_intact' if cont == 'readonly' else 'scalar_array_agree', e, mech)
                continue
            # ---- argument bit image
            after = watched.tobytes() if isinstance(watched, np.ndarray) else list(watched)
            has_below = bool((vals < 1).any())
            R.check('caller_array_intact', after == image, dict(mech, has_below_one=has_below),
                    before=vals, after=np.asarray(watched, dtype=float).ravel()[:40])
            if has_below and (vals > 1).any():
                nontrivial = True
            # ---- values: element-wise against scalar calls on fresh python floats
            out = np.asarray(out, dtype=float)
            want_shape = ((3,) if n == 1 else (n, 3)) if meth == 'normalRadii' else (() if n == 1 else (n,))
            if n >= 2 and out.shape != want_shape:
                R.check('scalar_array_agree', False, dict(mech, clause='shape'), got=list(out.shape), want=list(want_shape))
                continue
            out = out.reshape((n, 3) if meth == 'normalRadii' else (n,))
            for i in range(n):
                x = float(vals[i])
                if x < 1.0:
                    want = ref1[meth]
                    r = float(np.max(_rel(out[i], want)))
                    R.worst('below_one_rel', r)
                    R.check('below_one_as_one', r <= TOL_SAME, dict(mech, api='array'), ar=x, got=out[i], at_one=want)
                    ok, s = _call(R, 'below_one_as_one', dict(mech, api='scalar'), getattr(d, meth), x)
                    if ok:
                        r = float(np.max(_rel(np.asarray(s, dtype=float), want)))
                        R.check('below_one_as_one', r <= TOL_SAME, dict(mech, api='scalar'), ar=x, got=s, at_one=want)
                else:
                    ok, s = _call(R, 'scalar_array_agree', dict(mech, api='scalar'), getattr(d, meth), x)
                    if ok:
                        r = float(np.max(_rel(out[i], np.asarray(s, dtype=float))))
                        R.worst('scalar_array_rel', r)
                        R.check('scalar_array_agree', r <= TOL_SAME, mech, ar=x, array_value=out[i], scalar_value=s)
    R.set_nontrivial(nontrivial)


# ================================================================================================ rcrit

def _draw_arfun(rng, Rs, Rmax):
    """Continuous, positive aspect-ratio function of radius, <= 100, vectorised; returns (descr, callable)."""
    kind = ['power', 'linear', 'saturating', 'tanh', 'bump'][int(rng.integers(5))]
    q = Rmax / Rs
    if kind == 'power':
        a0, p = float(rng.uniform(0.3, 6.0)), float(rng.uniform(-1.5, 2.5))
        f = lambda r: np.minimum(a0 * (np.asarray(r, dtype=float) / Rs) ** p, 100.0)
        par = {'a0': a0, 'p': p}
    elif kind == 'linear':
        a0, k = float(rng.uniform(0.5, 5.0)), float(rng.uniform(-1.0, 3.0))
        f = lambda r: np.clip(a0 + k * (np.asarray(r, dtype=float) / Rs - 1.0), 0.05, 100.0)
        par = {'a0': a0, 'k': k}
    elif kind == 'saturating':
        A, w = float(10 ** rng.uniform(-0.3, 1.7)), float(10 ** rng.uniform(-0.5, 1.5))
        f = lambda r: 1.0 + A * (1.0 - np.exp(-(np.asarray(r, dtype=float) / Rs - 1.0) / w))
        par = {'A': A, 'w': w}
    elif kind == 'tanh':
        lo, hi = float(rng.uniform(0.4, 3.0)), float(rng.uniform(1.0, 60.0))
        c, w = float(rng.uniform(1.0, max(1.5, min(q, 20.0)))), float(10 ** rng.uniform(-1.3, 0.7))
        f = lambda r: lo + (hi - lo) * 0.5 * (1.0 + np.tanh((np.asarray(r, dtype=float) / Rs - c) / w))
        par = {'lo': lo, 'hi': hi, 'c': c, 'w': w}
    else:
        A = float(10 ** rng.uniform(-0.3, 1.5))
        c, w = float(rng.uniform(1.0, max(1.5, min(q, 10.0)))), float(10 ** rng.uniform(-1.0, 0.5))
        base = float(rng.uniform(0.6, 2.0))
        f = lambda r: base + A * np.exp(-((np.asarray(r, dtype=float) / Rs - c) / w) ** 2)
        par = {'base': base, 'A': A, 'c': c, 'w': w}
    return dict(par, kind=kind), f


def _run_rcrit(case, R, rng):
    from scipy.optimize import brentq
    nontrivial = False
    for s in range(case['searches']):
        shape = SHAPES[int(rng.choice([0, 1, 1, 1, 2, 2, 2, 3, 3]))]
        Rs = float(10.0 ** rng.uniform(-10, -7))
        Rmax = Rs * float(10.0 ** rng.uniform(0.2, 3.0))
        tol = 1e-3 if rng.random() < 0.6 else float([1e-2, 1e-4, 1e-6, 1e-9][int(rng.integers(4))])
        constant = rng.random() < 0.25
        if constant:
            ar = float(np.exp(rng.uniform(0, math.log(100.0)))) if rng.random() < 0.85 else float(rng.uniform(0.1, 1.0))
            if rng.random() < 0.2:
                ar = int(round(ar)) or 1
            descr = {'kind': 'constant', 'ar': ar}
            sf = _make_sf(shape, ar, how=s)
        else:
            descr, fun = _draw_arfun(rng, Rs, Rmax)
            sf = _make_sf(shape, fun, how=s)
        sf.tol = tol
        mech = {'shape': shape, 'ar': 'constant' if constant else 'function', 'default_tol': tol == 1e-3}

        def g(r):
            return float(r) / (Rs * float(sf.thermoFactor(float(r)))) - 1.0
        try:
            g0, g1 = g(Rs), g(Rmax)
        except Exception as e:  # noqa
            R.exception('rcrit_root', e, dict(mech, clause='residual'))
            continue
        # is a root bracketed?  (constant ratio: the equation is explicit, the root R_s*f always exists and
        # the statement's bracket is the caller's [R_s, R_max])
        if constant:
            root_exists = True
            bracketed = g0 <= 0.0 <= g1
            if not bracketed:
                R.observe('not_bracketed')
        elif g0 == 0.0:
            root_exists, bracketed = True, True
        elif g0 * g1 < 0:
            bracketed = True
            try:
                r_star = brentq(g, Rs, Rmax, xtol=1e-30, rtol=1e-15, maxiter=500)
                root_exists = abs(g(r_star)) <= tol / 100.0
            except Exception:
                root_exists = False
            if not root_exists:
                R.observe('sign_change_without_root')
                R.observe('sign_change_without_root_' + shape)
        else:
            bracketed, root_exists = False, False
            R.observe('not_bracketed')
        try:
            rc = sf.findRcrit(Rs, Rmax)
        except Exception as e:  # noqa
            if bracketed and root_exists:
                R.exception('rcrit_root', e, mech, arfun=descr, Rs=Rs, Rmax=Rmax, tol=tol)
            else:
                R.observe('exception_when_not_bracketed')
            continue
        if not (bracketed and root_exists):
            continue
        rc = float(rc)
        try:
            res = abs(g(rc))
        except Exception:
            res = float('inf')
        if not np.isfinite(res):
            res = float('inf')
        R.worst('rcrit_residual_over_tol', res / tol)
        R.check('rcrit_root', res <= tol, mech, arfun=descr, Rs=Rs, Rmax=Rmax, tol=tol, returned=rc,
                residual=res, g_at_Rs=g0, g_at_Rmax=g1)
        R.observe('bracketed_searches')
        if abs(g0) > 10 * tol:
            R.observe('bracketed_searches_that_must_move')
            nontrivial = True
    R.set_nontrivial(nontrivial)


# ================================================================================================ history

QUERY_METHODS = ['normalRadii', 'eqRadiusFactor', 'kineticFactor', 'thermoFactor', 'aspectRatio']


def _ar_in_force(spec, radii):
    """Aspect ratio the current specification requests at the given radii (harness side), clamped at 1."""
    radii = np.atleast_1d(np.asarray(radii, dtype=float))
    if spec['kind'] == 'const':
        a = float(spec['value']) * np.ones(radii.shape)
    else:
        a = np.asarray(spec['fn'](radii), dtype=float) * np.ones(radii.shape)
    return np.maximum(a, 1.0)


def _respec(sf, rng, state, Rs):
    """Apply one random re-specification to `sf`; update the shadow `state` (shape, spec); return its kind."""
    from kawin.precipitation.parameters import ShapeFactors as SFm
    cls = {'sphere': SFm.SphereDescription, 'needle': SFm.NeedleDescription, 'plate': SFm.PlateDescription,
           'cubic': SFm.CuboidalDescription}

    def draw_spec():
        if rng.random() < 0.7:
            u = rng.random()
            v = float(np.exp(rng.uniform(0, math.log(100.0)))) if u < 0.8 else (1.0 if u < 0.9 else float(rng.uniform(0.2, 1.0)))
            if rng.random() < 0.15:
                v = int(max(1, round(v)))
            return {'kind': 'const', 'value': v}, v
        descr, fn = _draw_arfun(rng, Rs, 1000.0 * Rs)
        return {'kind': 'fn', 'fn': fn, 'descr': descr}, fn
    op = ['ar_const_or_fn', 'ar_const_or_fn', 'ar_const_or_fn', 'shape_by_name', 'shape_setter', 'shape_instance',
          'description_setter', 'shape_setter_default'][int(rng.integers(8))]
    if op == 'ar_const_or_fn':
        spec, arg = draw_spec()
        sf.setAspectRatio(arg)
        state['spec'] = spec
        return 'setAspectRatio_' + spec['kind']
    shape = SHAPES[int(rng.integers(4))]
    if op == 'description_setter':
        sf.description = cls[shape]()
        state['shape'] = shape
        return op
    if op == 'shape_setter_default':
        {'sphere': sf.setSpherical, 'needle': sf.setNeedleShape, 'plate': sf.setPlateShape, 'cubic': sf.setCuboidalShape}[shape]()
        state['shape'] = shape
        state['spec'] = {'kind': 'const', 'value': 1}
        return op
    spec, arg = draw_spec()
    if op == 'shape_by_name':
        name = shape if rng.random() < 0.5 else shape.upper()
        sf.setPrecipitateShape(name, arg)
    elif op == 'shape_setter':
        {'sphere': sf.setSpherical, 'needle': sf.setNeedleShape, 'plate': sf.setPlateShape, 'cubic': sf.setCuboidalShape}[shape](arg)
        if shape == 'sphere':
            spec = {'kind': 'const', 'value': 1}      # documented: setSpherical forces the ratio to 1
    else:
        sf.setPrecipitateShape(cls[shape](), arg)
        if shape == 'sphere':
            spec = {'kind': 'const', 'value': 1}      # documented override for a sphere description
    state['shape'] = shape
    state['spec'] = spec
    return op


def _fresh(state, how):
    spec = state['spec']
    return _make_sf(state['shape'], spec['value'] if spec['kind'] == 'const' else spec['fn'], how)


def _run_history(case, R, rng):
    ocache = {}

    def oracle(shape, ar, which):
        k = (shape, float(ar))
        if k not in ocache:
            ax = _axes(shape, float(ar))
            A, eA = oracle_area_ratio(ax[0], ax[2])
            C, eC = oracle_capacitance_ratio(*ax)
            if max(eA, eC) > 1e-10:
                R.inconclusive = 'oracle self-check failed at ar=%r shape=%s' % (float(ar), shape)
            ocache[k] = (A, C)
        return ocache[k][0 if which == 'thermoFactor' else 1]

    nontrivial = False
    for h in range(case['histories']):
        Rs = float(10.0 ** rng.uniform(-10, -8))
        sizes = [int(x) for x in rng.choice([1, 2, 3, 5, 7, 12, 20], size=2, replace=False)]
        state = {'shape': SHAPES[int(rng.integers(4))], 'spec': {'kind': 'const', 'value': float(np.exp(rng.uniform(0, math.log(100.0))))}}
        try:
            sf = _fresh(state, int(rng.integers(3)))
        except Exception as e:  # noqa
            R.exception('history_fresh_agree', e, {'shape': state['shape'], 'clause': 'construct'})
            continue
        last_respec = 'none'
        sizes_before = set()      # array sizes queried before the latest re-specification
        sizes_since = set()       # ... and since
        for step in range(case['ops']):
            if rng.random() < 0.3:
                try:
                    last_respec = _respec(sf, rng, state, Rs)
                except Exception as e:  # noqa
                    R.exception('history_fresh_agree', e, {'shape': state['shape'], 'clause': 'respecify'})
                    break
                sizes_before |= sizes_since
                sizes_since = set()
                R.observe('history_respecifications')
                continue
            shape, spec = state['shape'], state['spec']
            meth = QUERY_METHODS[int(rng.integers(len(QUERY_METHODS)))]
            u = rng.random()
            if u < 0.25:
                n, arg, qkind = 1, float(Rs * 10.0 ** rng.uniform(0, 2.5)), 'scalar'
            else:
                n = sizes[int(rng.integers(2))] if u < 0.9 else int(rng.integers(1, 30))
                arg, qkind = Rs * 10.0 ** rng.uniform(0, 2.5, size=n), 'array'
            recurring = qkind == 'array' and n in sizes_before and n not in sizes_since
            mech = {'shape': shape, 'method': meth, 'api': 'history', 'query': qkind, 'ar': spec['kind'],
                    'last_respec': last_respec, 'size_seen_before_respec': bool(recurring)}
            try:
                fresh = _fresh(state, int(rng.integers(3)))
                want = getattr(fresh, meth)(arg if qkind == 'scalar' else arg.copy())
            except Exception:
                R.observe('history_fresh_object_raised')
                continue
            try:
                got = getattr(sf, meth)(arg if qkind == 'scalar' else arg.copy())
            except Exception as e:  # noqa
                R.exception('history_fresh_agree', e, mech)
                continue
            if qkind == 'array':
                sizes_since.add(n)
            R.observe('history_queries')
            got_a, want_a = np.asarray(got, dtype=float), np.asarray(want, dtype=float)
            if got_a.shape != want_a.shape:
                R.check('history_fresh_agree', False, dict(mech, clause='shape'), got=list(got_a.shape), want=list(want_a.shape))
                continue
            r = float(np.max(_rel(got_a, want_a))) if got_a.size else 0.0
            R.worst('history_fresh_rel', r)
            R.check('history_fresh_agree', r <= TOL_SAME, mech, radii=arg, got=got_a, fresh=want_a,
                    spec=spec.get('value', spec.get('descr')), step=step)
            if recurring:
                R.observe('history_recurring_size_after_respec')
                nontrivial = True
            # ---- geometric oracles for the ratio in force
            try:
                ar = _ar_in_force(spec, arg)
            except Exception:
                continue
            if ar.max() > 100.0 * (1 + 1e-12):
                continue
            if meth == 'normalRadii':
                _check_axes(R, shape, ar, got_a, 'history')
            elif meth in ('thermoFactor', 'kineticFactor') and shape in SPHEROIDS and got_a.size == n:
                mon = 'thermo_area_oracle' if meth == 'thermoFactor' else 'kinetic_capacitance_oracle'
                flat = got_a.reshape(n)
                for i in (range(n) if spec['kind'] == 'fn' and n <= 4 else [int(rng.integers(n))]):
                    o = oracle(shape, ar[i], meth)
                    rr = float(_rel(flat[i], o))
                    R.worst('thermo_vs_area_rel' if meth == 'thermoFactor' else 'kinetic_vs_capacitance_rel', rr)
                    R.check(mon, rr <= TOL_ORACLE, {'shape': shape, 'factor': meth, 'api': 'history', 'last_respec': last_respec,
                                                    'size_seen_before_respec': bool(recurring)},
                            ar=ar[i], got=flat[i], oracle=o, step=step)
            # ---- scalar follow-up queries on the same object
            if qkind == 'array' and meth != 'aspectRatio' and n >= 2 and rng.random() < 0.5 and got_a.shape[0] == n:
                for i in rng.choice(n, size=min(n, 2), replace=False):
                    try:
                        sv = np.asarray(getattr(sf, meth)(float(arg[i])), dtype=float)
                    except Exception as e:  # noqa
                        R.exception('scalar_array_agree', e, dict(mech, query='scalar_followup'))
                        continue
                    rr = float(np.max(_rel(got_a[i], sv))) if sv.shape == got_a[i].shape else float('inf')
                    R.worst('scalar_array_rel', rr)
                    R.check('scalar_array_agree', rr <= TOL_SAME, {'shape': shape, 'method': meth, 'api': 'history', 'input': 'ndarray',
                                                                   'last_respec': last_respec, 'size_seen_before_respec': bool(recurring)},
                            radius=arg[i], array_value=got_a[i], scalar_value=sv, step=step)
        # ---- one root search at the end of the history, against the fresh object
        try:
            fresh = _fresh(state, 0)
            Rmax = Rs * float(10.0 ** rng.uniform(0.5, 3.0))
            want = float(fresh.findRcrit(Rs, Rmax))
        except Exception:
            R.observe('history_fresh_object_raised')
            continue
        mech = {'shape': state['shape'], 'method': 'findRcrit', 'api': 'history', 'ar': state['spec']['kind'], 'last_respec': last_respec}
        try:
            got = float(sf.findRcrit(Rs, Rmax))
        except Exception as e:  # noqa
            R.exception('history_fresh_agree', e, mech)
            continue
        rr = float(_rel(got, want))
        R.worst('history_fresh_rel', rr)
        R.check('history_fresh_agree', rr <= TOL_SAME, mech, got=got, fresh=want, Rs=Rs, Rmax=Rmax)
    R.set_nontrivial(nontrivial)


# ================================================================================================ driver hook

def run_case(case, R):
    from vlib.core import case_rng
    rng = case_rng(case['seed'], PROPERTY, case['idx'])
    kind = case['kind']
    if kind == 'geometry':
        _run_geometry(case, R, rng)
    elif kind == 'continuity':
        _run_continuity(case, R, rng)
    elif kind == 'args':
        _run_args(case, R, rng)
    elif kind == 'rcrit':
        _run_rcrit(case, R, rng)
    elif kind == 'history':
        _run_history(case, R, rng)
    else:
        R.inconclusive = 'unknown case kind %r' % kind


MANIFEST = {
    'text': 'The real shape descriptions and ShapeFactor are called on jittered log grids of aspect ratios in [1,100] (3 000 quick / '
            '~580 000 thorough), on eps-sequences 1e-3..1e-9 above 1, on random arrays mixing ratios below, at and above 1 in seven '
            'container kinds, on 400 / 36 000 critical-radius searches with random continuous aspect-ratio functions, and on 192 / 4 800 re-specification '
            'histories of one ShapeFactor object (each query compared with a fresh object and the oracles); needle/plate '
            'thermodynamic and kinetic factors are compared with numerical quadrature of the spheroid area and capacitance integrals. '
            'Sampled, not exhaustive.',
    'note': 'trusted: scipy.integrate.quad (error estimate checked, cross-checked with Carlson R_F), scipy.optimize.brentq for root existence; '
            'continuity and monotonicity restated on finite eps-sequences / grids',
    'technique': 'reference-model monitor (independent quadrature oracle) plus metamorphic monitors (scalar vs array, clamp, argument bit image) '
                 'and a residual monitor on the root finder',
}
