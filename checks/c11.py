"""C11 - results are equivariant under reordering of elements and of phases.

Differential (metamorphic) monitors over paired executions of the real code.  Every member of a pair gets its own
FRESH thermodynamics object built from the TDB *string* (kawin inserts DIS_ parameters into a Database object it is
given, so a parsed Database is never shared).

(1) element order - ternary objects with the two solute orders (Ni-Cr-Al with mobility and with diffusivity
    parameters, Fe-Cr-Ni), same sequence of public queries on both at random points.  In two of three query cases,
    every homogenization run and two of three single-phase runs a NON-UNIFORM mobility correction
    (setMobilityCorrection, one or two elements incl. the reference, factors 0.2..8, not within 15 % of 1 or of each
    other) is set BY ELEMENT NAME on both objects, so that per-element options applied by position become visible:
      c11.elem.driving_force     getDrivingForce (all four methods): dG equal, precipitate composition permuted
                                 ('sampling': dG only - the arg-max over a discrete sample set is discontinuous)
      c11.elem.interdiffusivity  getInterdiffusivity: rows and columns permuted
      c11.elem.tracer            getTracerDiffusivity: [reference, solutes permuted]
      c11.elem.growth            getGrowthAndInterfacialComposition: growth rates equal, interfacial and planar
                                 equilibrium compositions with permuted columns
      c11.elem.curvature         curvatureFactor: dc permuted, mc equal, gba rows+columns permuted, beta equal, c_eq permuted
      c11.elem.impingement       impingementFactor equal
      c11.elem.local_eq          getLocalEq chemical potentials (database order on both objects): unchanged
      c11.elem.interfacial       getInterfacialComposition over several Gibbs-Thomson values: [reference, solutes permuted]
      c11.elem.mobility          diffusion.computeMobility: mobilities / chemical potentials permuted, phases and fractions unchanged
    Tolerance TOL_Q = 1e-6 relative to the array's own scale (max |entry|; for the driving force the scale is
    max(|dG|, R*T): dG is a difference of molar Gibbs energies of order 1e4..1e5 J/mol that passes through zero at the
    solvus, its noise is absolute ~1e-10..1e-7 J/mol).  The differences between the two objects are NOT summation-order
    rounding but convergence noise of pycalphad's local-equilibrium solver (the conditions are handed over in a different
    order): typically 1e-14, but heavy tailed - worst seen over seeds 0,1,2,3,7 (quick) and 0,1 (thorough): 3.3e-9
    (tracer / interdiffusivity, Ni-Cr-Al), i.e. >= 300x margin; DESIGN's 1e-8 rested on a 25-point probe and would leave
    only 3x.  The weakest seeded break changes results by > 1e-3 (a point only counts when its arrays differ from their
    own permutation by > 1e-3).  A result that is available on one object and not on the other (None / -1 / exception)
    is a violation (clause 'availability'); both unavailable: counted.
      c11.elem.diffusion_profile / c11.elem.diffusion_time   single-phase and homogenization runs with permuted
                                 element lists (profiles, boundary conditions addressed by element name): same number of
                                 recorded steps, recorded times equal, recorded profiles equal after permuting rows, at
                                 EVERY recorded step (TOL_DIFF = 1e-6, scale = largest composition / last time; measured
                                 worst: single phase 2e-10 (time) / 4e-11 (profiles); homogenization 1.0e-8 (time) / 3.5e-10
                                 (profiles) - its step size is maxCompositionChange / max|dx/dt| with dx/dt a difference of
                                 nearly equal face fluxes, which amplifies the 1e-12 noise of the fluxes).  Flux conditions are inflow only and sized so that
                                 compositions stay in the window: in the dilute corner (x clipped to 1e-8) the solver noise in
                                 D reaches 1e-8 (measured).  Both members perform the same public call sequence
                                 (setup, getFluxes, solve); the run length is not a whole number of initial steps.
(2) phase order - two-/three-phase Al-Mg-Si precipitation runs and BINARY Cu-Ti runs with the two precipitate phases
    CU4TI / CU3TI2 (tabulated interfacial compositions per phase; isothermal Euler, isothermal RK4 and a non-isothermal
    configuration whose tables are rebuilt; interfacial energy, molar volume, site and shape differ per phase and are given by
    name) with the precipitate list (model and backend) in
    every order; all per-phase options are given by phase name and are heterogeneous (distinct molar volumes and
    interfacial energies, sites, parent phases; every fourth configuration: ONE phase - which one varies - computes its
    aspect ratio from an elastic strain energy (calculateAspectRatio, needle/plate, bulk sites, infinite internal
    diffusion) while the others are cubes/spheres on dislocations without internal diffusion), so that anything looked up
    per phase by position shows; the backend is used memoryless (setThermodynamics(..., removeCache=True) semantics) because with cached
    composition sets the permuted per-step query sequence itself changes driving forces by ~1e-9 and nucleation rates
    by ~1e-6 (measured; history dependence of the backend is C09's subject) - those cached pairs are run in the
    thorough tier and only recorded (worst 'observed_only_cached_*'), never asserted.
      c11.phase.steps       same number of steps (same logical cap)
      c11.phase.grid_extension   the same comparison, counted for the grid-extending Cu-Ti pairs (size-class grid ending at
                            1.2..1.6 nm) in which EVERY phase appended size classes (addSizeClasses, counted per phase through
                            the instance wrappers of vlib.precip_run.GridEvents: observed grid_appends_*); a grid-extending pair
                            is non-trivial only then, and a run without such a pair is inconclusive
      c11.phase.time_grid   same time grid      } compared step by step; the first diverging step index is reported
      c11.phase.histories   all 16 histories equal after permuting the phase axis (one evaluation per history; a diverging
                            pair is reported once, for the history that separates first; mech carries the step-size rules
                            whose in-run oracle had already failed when the runs separated)
                            Tolerance relative to the running maximum of the history: two phases 1e-6 (measured: bit-identical,
                            two-term sums commute); three phases 1e-4: sums over three phases are not associative, the 1-ulp
                            differences in the matrix composition come back from the equilibrium solver as ~5e-9 and are
                            amplified where a driving force approaches zero (measured worst 2.1e-6 in Gcrit/impingement);
                            seeded breaks move time grids and histories by 5e-2..6e-1.
(3) direct permutation oracle on the step-size rules and the nucleation-site competition (a trajectory only exposes
    a rule while it is the binding one):
      c11.rule.psd / nucleation / temperature / rcrit / volume   Constraints.computeDTfrom*: result identical (1e-12) for
                            every permutation of the per-phase inputs; synthetic inputs and, inside the runs of (2), the
                            model's own state at every step ('in_run')
      c11.rule.getdt        PrecipitateModel.getDt on models with permuted phases holding the same synthetic state
      c11.sites             PrecipitateModel._calcNucleationSites per phase (by name) on models with permuted phases:
                            equal within 1e-12 of the site density scale (largest site density N0 of the matrix, or the result itself)

Not asserted: changing the reference (first) element; phase order in homogenization models; composition from the
'sampling' method; cached-backend phase-order pairs; that any query succeeds (C03/C09/C12 own that); the
equilibrium-based queries (driving force 'approximate'/'curvature', growth, curvature, impingement) at points inside a
miscibility gap of the matrix+precipitate equilibrium, where kawin's answer depends on which of two solutions the local
solver reaches and that in turn on the order of the conditions and on Python's hash seed (counted as
miscibility_gap_points, deviations recorded as observed_only_gap_*; proposed_fixes/C11-miscibility-gap-order.repro.py;
switch JUDGE_GAP_POINTS).
"""
import itertools
import json

import numpy as np

from vlib import core, precip

PROPERTY = 'C11'
LEVEL = 'exploration'
RULE = ('element order: systems {Ni-Cr-Al mobility, Ni-Cr-Al diffusivity, Fe-Cr-Ni} x driving-force method x random (x,T) points, 9 query kinds '
        'per point on paired fresh objects; a point is non-trivial when >= 4 query kinds returned arrays that differ from their own '
        'permutation by > 1e-3 (an un-permuted answer would be visible). Diffusion pairs: non-trivial when >= 10 steps were recorded and the '
        'profiles moved by > 1e-4 and rows differ. Phase order: Al-Mg-Si 2 (quick) / 2-3 (thorough) precipitate phases and binary Cu-Ti with 2 precipitate phases, all orders; '
        'non-trivial when >= 2 phases reach a density >= 1e15 /m3 (temperature candidates are tried in turn). Rule / site oracle: '
        'synthetic multi-phase inputs, non-trivial when the per-phase (single-phase) evaluations differ between phases, resp. when the '
        'phase shares its site type with another populated phase or has a parent and the result is not clamped to 0. Distinct by sub-case key.')
REQUIRED_MONITORS = ['c11.elem.driving_force', 'c11.elem.interdiffusivity', 'c11.elem.tracer', 'c11.elem.growth', 'c11.elem.curvature',
                     'c11.elem.impingement', 'c11.elem.local_eq', 'c11.elem.interfacial', 'c11.elem.mobility',
                     'c11.elem.diffusion_profile', 'c11.elem.diffusion_time',
                     'c11.phase.steps', 'c11.phase.time_grid', 'c11.phase.histories', 'c11.phase.grid_extension',
                     'c11.rule.psd', 'c11.rule.nucleation', 'c11.rule.temperature', 'c11.rule.rcrit', 'c11.rule.volume',
                     'c11.rule.getdt', 'c11.sites']
REACH = ['thermo/Thermodynamics.py:GeneralThermodynamics._getDrivingForceTangent',
         'thermo/Thermodynamics.py:GeneralThermodynamics._getDrivingForceSampling',
         'thermo/Thermodynamics.py:GeneralThermodynamics._getDrivingForceApprox',
         'thermo/Thermodynamics.py:GeneralThermodynamics._getDrivingForceCurvature',
         'thermo/Thermodynamics.py:GeneralThermodynamics._interdiffusivitySingle',
         'thermo/Thermodynamics.py:GeneralThermodynamics._tracerDiffusivitySingle',
         'thermo/Thermodynamics.py:GeneralThermodynamics.getLocalEq',
         'thermo/MultiTherm.py:MulticomponentThermodynamics._curvatureFactorFromEq',
         'thermo/MultiTherm.py:MulticomponentThermodynamics._interfacialComposition',
         'thermo/MultiTherm.py:MulticomponentThermodynamics.getGrowthAndInterfacialComposition',
         'diffusion/DiffusionParameters.py:_computeSingleMobility',
         'diffusion/SinglePhase.py:SinglePhaseModel._getFluxes',
         'diffusion/Homogenization.py:HomogenizationModel._getFluxes',
         'precipitation/PrecipitationParameters.py:Constraints.computeDTfromPSD',
         'precipitation/PrecipitationParameters.py:Constraints.computeDTfromNucleationRate',
         'precipitation/PrecipitationParameters.py:Constraints.computeDTfromTemperature',
         'precipitation/PrecipitationParameters.py:Constraints.computeDTfromRcrit',
         'precipitation/PrecipitationParameters.py:Constraints.computeDTfromVolume',
         'precipitation/KWNEuler.py:PrecipitateModel._calcNucleationSites',
         'precipitation/KWNEuler.py:PrecipitateModel.getDt']
MIN_NONTRIVIAL = {'quick': 3000, 'thorough': 60000}
CASE_TIMEOUT = 1500
CASE_TIMEOUT_THOROUGH = 3600
MAX_INCONCLUSIVE_FRACTION = 0.0
N_SAMPLES = 6
ASSUMPTIONS = ['"different order of the solutes" = the two orders of the two solutes of a ternary object, reference element unchanged',
               'paired objects are fresh and receive the same sequence of queries; DF/growth queries use removeCache=True',
               'phase-order pairs use the backend memoryless (removeCache=True); cached pairs are observed only',
               'a phase "nucleates" when its density reaches 1e15 /m3',
               'sampled, not exhaustive: random points, configurations and synthetic inputs']
MANIFEST = {
    'text': 'Paired executions with permuted solute lists (9 kinds of thermodynamic/kinetic point queries on fresh objects, single-phase and '
            'homogenization diffusion runs compared at every recorded step) and permuted precipitate lists (Al-Mg-Si runs compared step by step '
            'with a memoryless backend: bit-level agreement measured); the same permutation oracle is applied directly to every step-size rule '
            '(synthetic inputs and the in-run state) and to the nucleation-site competition.',
    'note': 'trusted: numpy; determinism of kawin+pycalphad for identical inputs on fresh objects in one process (measured bit-identical); '
            'tolerances: 1e-6 point queries (solver-convergence noise, worst measured 3.3e-9), 1e-6 diffusion runs (worst 1.0e-8), trajectories 1e-6 '
            '(two phases, measured 0) / 1e-4 (three phases, measured 2.1e-6), 1e-12 min/sum reductions; points inside a miscibility gap are counted, '
            'their equilibrium-based queries not judged',
    'technique': 'differential / metamorphic monitor over paired executions (permuted vs. unpermuted configuration)',
}

TOL_Q = 1e-6       # point queries: pycalphad solver-convergence noise has a heavy tail (see module docstring)
TOL_DIFF = 1e-6    # diffusion runs
TOL_TRAJ = {2: 1e-6, 3: 1e-4}    # by number of precipitate phases (see module docstring)
TOL_RULE = 1e-12
R_GAS = 8.314
ACTIVE_DENSITY = 1e15
JUDGE_GAP_POINTS = False
GAP_SENSITIVE = ('c11.elem.driving_force', 'c11.elem.growth', 'c11.elem.curvature', 'c11.elem.impingement')

SYSTEMS = {
    'NiCrAl': {'db': 'NICRAL_TDB', 'ref': 'NI', 'solutes': ['AL', 'CR'], 'matrix': 'FCC_A1', 'prec': ['FCC_L12'],
               'win': {'AL': (0.09, 0.13), 'CR': (0.05, 0.10)}, 'T': (950.0, 1150.0), 'gamma': 0.023, 'Vm': 6.57e-6},
    'NiCrAl_diff': {'db': 'NICRAL_TDB_DIFF', 'ref': 'NI', 'solutes': ['AL', 'CR'], 'matrix': 'FCC_A1', 'prec': ['FCC_L12'],
                    'win': {'AL': (0.09, 0.13), 'CR': (0.05, 0.10)}, 'T': (950.0, 1150.0), 'gamma': 0.023, 'Vm': 6.57e-6},
    'FeCrNi': {'db': 'FECRNI_DB', 'ref': 'FE', 'solutes': ['CR', 'NI'], 'matrix': 'FCC_A1', 'prec': ['BCC_A2'],
               'win': {'CR': (0.15, 0.35), 'NI': (0.03, 0.15)}, 'T': (850.0, 1300.0), 'gamma': 0.2, 'Vm': 7.1e-6},
    'FeCrNi_3ph': {'db': 'FECRNI_DB', 'ref': 'FE', 'solutes': ['CR', 'NI'], 'matrix': 'FCC_A1', 'prec': ['BCC_A2', 'SIGMA'],
                   'win': {'CR': (0.15, 0.35), 'NI': (0.03, 0.15)}, 'T': (850.0, 1300.0), 'gamma': 0.2, 'Vm': 7.1e-6},
}
DF_METHODS = ['tangent', 'approximate', 'curvature', 'sampling']


# =================================================================================================
# plan

def plan(tier, seed):
    cases = []
    quick = tier == 'quick'
    # ---- (1a) point queries
    combos = []
    for s in ('NiCrAl', 'FeCrNi'):
        for m in DF_METHODS:
            combos.append((s, m))
    combos.append(('NiCrAl_diff', 'tangent'))
    if not quick:
        combos += [('NiCrAl_diff', 'approximate'), ('FeCrNi_3ph', 'tangent'), ('FeCrNi_3ph', 'sampling')]
    reps = 3 if quick else 12
    for (s, m) in combos:
        heavy = s.startswith('NiCrAl')
        npts = (14 if heavy else 36) if quick else (25 if heavy else 60)
        for r in range(reps):
            # non-uniform mobility correction set BY ELEMENT NAME on both objects (rep 0: none, 1: one element, 2: two elements)
            crng = core.case_rng(seed, PROPERTY, 300000 + len(cases))
            corr = _draw_correction(crng, [SYSTEMS[s]['ref']] + list(SYSTEMS[s]['solutes']), r % 3)
            cases.append({'kind': 'query', 'system': s, 'method': m, 'npts': npts, 'rep': r, 'first': (r % 2) if r < 3 else ((r // 3) % 2),
                          'corr': corr, 'weight': npts * (2.0 if heavy else 0.4)})
    # ---- (1b) diffusion runs
    nd = 8 if quick else 60
    for k in range(nd):
        cases.append({'kind': 'diffusion', 'k': k, 'weight': 8.0})
    # ---- (2) phase order
    npr = 4 if quick else 14
    for k in range(npr):
        rng = core.case_rng(seed, PROPERTY, 100000 + k)
        cfg = _precip_cfg(rng, tier, k)
        nph = len(cfg['phases'])
        w = cfg['max_steps'] * 0.045 * (nph / 2.0) * (3.0 if cfg['iterator'] == 'rk4' else 1.0) * (1 + (2 if nph == 2 else 6))
        cases.append({'kind': 'precip', 'k': k, 'cfg': cfg, 'weight': w})
    # binary matrix with two precipitate phases (Cu-Ti: CU4TI, CU3TI2) - tabulated interfacial compositions per phase
    ncu = 3 if quick else 12
    for k in range(ncu):
        rng = core.case_rng(seed, PROPERTY, 400000 + k)
        cfg = _cuti_cfg(rng, tier, k)
        w = cfg['max_steps'] * 0.03 * 2 * (3.0 if cfg['iterator'] == 'rk4' else 1.0) * (3.0 if cfg['schedule']['kind'] != 'iso' else 1.0)
        cases.append({'kind': 'precip', 'k': 500 + k, 'cfg': cfg, 'weight': w})
    if not quick:
        for k in range(2):
            rng = core.case_rng(seed, PROPERTY, 200000 + k)
            cfg = _precip_cfg(rng, 'quick', k)
            cfg['removeCache'] = False
            cases.append({'kind': 'precip', 'k': 1000 + k, 'cfg': cfg, 'observe_only': True, 'weight': cfg['max_steps'] * 0.05})
    # ---- (3) rule / site oracles
    nr = 10 if quick else 100
    for k in range(nr):
        cases.append({'kind': 'rules', 'k': k, 'n': 500 if quick else 1000, 'weight': 6.0})
    ns = 4 if quick else 30
    for k in range(ns):
        cases.append({'kind': 'sites', 'k': k, 'n': 200 if quick else 300, 'weight': 60.0})
    ng = 4 if quick else 30
    for k in range(ng):
        cases.append({'kind': 'getdt', 'k': k, 'n': 120 if quick else 200, 'weight': 40.0})
    return cases


def _draw_correction(rng, elements, n):
    """{element: factor} for n distinct elements (reference element included), factors log-uniform in [0.2, 8] and not within
    15 % of 1 or of each other (a uniform correction would hide position/name mix-ups)"""
    if n <= 0:
        return {}
    els = [str(e) for e in rng.choice(elements, size=min(n, len(elements)), replace=False)]
    out = {}
    for e in els:
        for _ in range(50):
            f = float(np.exp(rng.uniform(np.log(0.2), np.log(8.0))))
            if abs(np.log(f)) > 0.15 and all(abs(np.log(f / g)) > 0.15 for g in out.values()):
                break
        out[e] = f
    return out


def run_case(case, R):
    kind = case['kind']
    if kind == 'query':
        return _run_query(case, R)
    if kind == 'diffusion':
        return _run_diffusion(case, R)
    if kind == 'precip':
        return _run_precip(case, R)
    if kind == 'rules':
        return _run_rules(case, R)
    if kind == 'sites':
        return _run_sites(case, R)
    if kind == 'getdt':
        return _run_getdt(case, R)
    raise ValueError(kind)


# =================================================================================================
# comparison helpers

def _relerr(a, b, scale=None, floor=0.0):
    """max |a-b| / scale with scale = max(|a|, |b|, floor); NaN patterns must agree -> (rel, ok_pattern)"""
    a = np.asarray(a, dtype=float)
    b = np.asarray(b, dtype=float)
    if a.shape != b.shape:
        return float('inf'), False
    na, nb = ~np.isfinite(a), ~np.isfinite(b)
    if np.any(na != nb):
        return float('inf'), False
    if np.any(na):
        same = np.array_equal(a[na], b[na], equal_nan=True)
        if not same:
            return float('inf'), False
        a, b = a[~na], b[~na]
    if a.size == 0:
        return 0.0, True
    s = max(float(np.max(np.abs(a))), float(np.max(np.abs(b))), float(floor), 1e-300) if scale is None else float(scale)
    return float(np.max(np.abs(a - b)) / s), True


def _self_distinct(a, a_perm, floor=0.0):
    """does the array differ from its own permuted version (would an un-permuted answer be visible)?"""
    try:
        r, ok = _relerr(a, a_perm, floor=floor)
    except Exception:
        return False
    return (not ok) or r > 1e-3


def _safe(f):
    try:
        return 'ok', f()
    except core.StopRun:
        raise
    except Exception as e:  # judged by the caller (availability on both objects)
        return 'exc', e


# =================================================================================================
# (1a) point queries on paired objects with permuted solute lists

def _make_pair(system, method, first, corr=None):
    """two FRESH objects from the TDB string; `first` selects which solute order plays the role of object A"""
    from kawin.thermo import MulticomponentThermodynamics
    import kawin.tests.datasets as ds
    S = SYSTEMS[system]
    orderA = list(S['solutes']) if first == 0 else list(S['solutes'])[::-1]
    orderB = orderA[::-1]
    objs = []
    for order in (orderA, orderB):
        th = MulticomponentThermodynamics(getattr(ds, S['db']), [S['ref']] + order, [S['matrix']] + list(S['prec']),
                                          drivingForceMethod=method)
        th.setDFSamplingDensity(2000)
        th.setEQSamplingDensity(500)
        for e, f in (corr or {}).items():
            th.setMobilityCorrection(e, f)          # public option, addressed by element name
        objs.append(th)
    return objs[0], objs[1], orderA, orderB


class _Cmp:
    """bookkeeping of one point: compares B's result (mapped to A's order) with A's"""

    def __init__(self, R, mech, point):
        self.R = R
        self.mech = mech
        self.point = point
        self.distinct = set()
        self.observe_only = False          # inside a miscibility gap: equilibrium-based queries are recorded, not judged

    def _muted(self, mon, kind):
        return self.observe_only and (mon in GAP_SENSITIVE) and not (kind == 'df' and self.mech.get('method') in ('tangent', 'sampling'))

    def status(self, mon, kind, sa, sb, ra, rb, unavailable):
        """availability agreement; returns True when both results are available"""
        R = self.R
        if self._muted(mon, kind):
            ua = sa == 'exc' or unavailable(ra)
            ub = sb == 'exc' or unavailable(rb)
            if ua != ub:
                R.observe('observed_only_gap_availability_differs_' + kind)
            return not (ua or ub)
        if sa == 'exc' or sb == 'exc':
            if sa == 'exc' and sb == 'exc' and type(ra) is type(rb):
                R.observe('both_raised_' + kind)
                return False
            exc = ra if sa == 'exc' else rb
            R.exception(mon, exc, dict(self.mech, clause='availability'), point=self.point,
                        raised_on='A' if sa == 'exc' else 'B', other=repr(rb if sa == 'exc' else ra)[:200])
            return False
        ua, ub = unavailable(ra), unavailable(rb)
        if ua or ub:
            if ua and ub:
                R.observe('both_unavailable_' + kind)
            else:
                R.check(mon, False, dict(self.mech, clause='availability'), point=self.point, A=repr(ra)[:300], B=repr(rb)[:300])
            return False
        return True

    def cmp(self, mon, kind, field, a, b_mapped, a_selfperm=None, floor=0.0, scale=None):
        R = self.R
        rel, okp = _relerr(a, b_mapped, scale=scale, floor=floor)
        if self._muted(mon, kind):
            R.worst('observed_only_gap_%s_%s' % (kind, field), rel if np.isfinite(rel) else 1e300)
            R.observe('observed_only_gap_comparisons')
            return
        R.worst('q_%s_%s' % (kind, field), rel if np.isfinite(rel) else 1e300)
        R.check(mon, okp and rel <= TOL_Q, dict(self.mech, field=field), point=self.point, A=a, B_mapped=b_mapped, rel=rel)
        if a_selfperm is not None and _self_distinct(a, a_selfperm, floor=floor):
            self.distinct.add(kind)


def _run_query(case, R):
    from kawin.diffusion.DiffusionParameters import computeMobility
    S = SYSTEMS[case['system']]
    rng = core.case_rng(case['seed'], PROPERTY, case['idx'])
    try:
        A, B, orderA, orderB = _make_pair(case['system'], case['method'], case['first'], case.get('corr'))
    except Exception as e:
        R.inconclusive = 'thermodynamics construction failed: %r' % (e,)
        return
    pb = [orderB.index(e) for e in orderA]            # b[pb] is in A's order
    pbf = [0] + [1 + i for i in pb]                   # with the reference element in front
    sw = [1, 0]                                       # self-permutation (what a forgotten re-ordering would give)
    swf = [0, 2, 1]
    mech0 = {'system': case['system'], 'method': case['method'], 'mobility_correction': len(case.get('corr') or {})}
    n_nt = 0
    for i in range(case['npts']):
        xA = np.array([rng.uniform(*S['win'][e]) for e in orderA])
        xB = np.array([xA[orderA.index(e)] for e in orderB])
        T = float(rng.uniform(*S['T']))
        prec = str(rng.choice(S['prec']))
        point = {'i': i, 'elements_A': orderA, 'x_A': xA, 'T': T, 'prec': prec}
        C = _Cmp(R, mech0, point)
        rt = R_GAS * T

        # ---- points inside a miscibility gap: the matrix+precipitate equilibrium at (x, T) contains a phase twice (e.g. the
        # Fe-Cr BCC gap below ~900 K).  The two-composition-set problem the library reduces that equilibrium to has two solutions
        # and the local solver ends in either basin depending on the order of the conditions AND on Python's hash seed (seen on
        # HEAD 3130663 with PYTHONHASHSEED=0: dG 329 vs 1250 J/mol, curvatureFactor a result vs None; other hash seeds: equal at
        # that point).  The answer is then not a function of the input alone, so a difference between the two members of a pair
        # cannot be attributed to the permutation: by default such points are counted and the equilibrium-based queries are
        # recorded (worst 'observed_only_gap_*') but not judged.  JUDGE_GAP_POINTS = True judges them (mech miscibility_gap).
        gap = False
        for th_, x_ in ((A, xA), (B, xB)):
            sg, css = _safe(lambda: [cs.phase_record.phase_name for cs in th_.getEq(x_, T, 0, prec).get_composition_sets()])
            if sg == 'ok' and len(css) != len(set(css)):
                gap = True
        if gap:
            R.observe('miscibility_gap_points')
        C.mech = dict(mech0, miscibility_gap=gap)
        C.observe_only = gap and not JUDGE_GAP_POINTS

        # ---- driving force + precipitate composition
        sa, ra = _safe(lambda: A.getDrivingForce(xA, T, precPhase=prec, removeCache=True))
        sb, rb = _safe(lambda: B.getDrivingForce(xB, T, precPhase=prec, removeCache=True))
        dgA = None
        if C.status('c11.elem.driving_force', 'df', sa, sb, ra, rb, lambda r: r[0] is None or np.ndim(r[0]) != 0 or r[1] is None or np.size(r[1]) != 2):
            dgA = float(ra[0])
            C.cmp('c11.elem.driving_force', 'df', 'dG', float(ra[0]), float(rb[0]), floor=rt)
            xbA, xbB = np.asarray(ra[1], float), np.asarray(rb[1], float)
            if case['method'] != 'sampling':
                C.cmp('c11.elem.driving_force', 'df', 'x_precipitate', xbA, xbB[pb], a_selfperm=xbA[sw])
            else:
                r_, _ = _relerr(xbA, xbB[pb])
                R.worst('observed_only_sampling_composition', r_ if np.isfinite(r_) else 1e300)
                if _self_distinct(xbA, xbA[sw]):
                    C.distinct.add('df')
            searchA, searchB = xbA, xbB
        else:
            searchA = searchB = None

        # ---- interdiffusivity
        sa, ra = _safe(lambda: A.getInterdiffusivity(xA, T))
        sb, rb = _safe(lambda: B.getInterdiffusivity(xB, T))
        if C.status('c11.elem.interdiffusivity', 'D', sa, sb, ra, rb, lambda r: np.shape(r) != (2, 2)):
            Da, Db = np.asarray(ra, float), np.asarray(rb, float)
            C.cmp('c11.elem.interdiffusivity', 'D', 'matrix', Da, Db[np.ix_(pb, pb)], a_selfperm=Da[np.ix_(sw, sw)])

        # ---- tracer diffusivity
        sa, ra = _safe(lambda: A.getTracerDiffusivity(xA, T))
        sb, rb = _safe(lambda: B.getTracerDiffusivity(xB, T))
        if C.status('c11.elem.tracer', 'tracer', sa, sb, ra, rb, lambda r: np.shape(r) != (3,)):
            ta, tb = np.asarray(ra, float), np.asarray(rb, float)
            C.cmp('c11.elem.tracer', 'tracer', 'vector', ta, tb[pbf], a_selfperm=ta[swf])

        # ---- growth rate and interfacial compositions
        Rr = np.geomspace(4e-10, 2e-7, 7) * float(rng.uniform(0.7, 1.4))
        gE = 2 * S['gamma'] * S['Vm'] / Rr
        dGin = dgA if dgA is not None else 100.0
        sa, ra = _safe(lambda: A.getGrowthAndInterfacialComposition(xA, T, dGin, Rr, gE, precPhase=prec, removeCache=True, searchDir=searchA))
        sb, rb = _safe(lambda: B.getGrowthAndInterfacialComposition(xB, T, dGin, Rr, gE, precPhase=prec, removeCache=True, searchDir=searchB))
        if C.status('c11.elem.growth', 'growth', sa, sb, ra, rb, lambda r: r is None):
            C.cmp('c11.elem.growth', 'growth', 'growth_rate', ra.growth_rate, rb.growth_rate)
            for f in ('c_alpha', 'c_beta'):
                a_, b_ = np.asarray(getattr(ra, f), float), np.asarray(getattr(rb, f), float)
                C.cmp('c11.elem.growth', 'growth', f, a_, b_[:, pb], a_selfperm=a_[:, sw])
            for f in ('c_eq_alpha', 'c_eq_beta'):
                a_, b_ = np.asarray(getattr(ra, f), float), np.asarray(getattr(rb, f), float)
                C.cmp('c11.elem.growth', 'growth', f, a_, b_[pb], a_selfperm=a_[sw])

        # ---- curvature factor
        sa, ra = _safe(lambda: A.curvatureFactor(xA, T, precPhase=prec, removeCache=True, searchDir=searchA))
        sb, rb = _safe(lambda: B.curvatureFactor(xB, T, precPhase=prec, removeCache=True, searchDir=searchB))
        if C.status('c11.elem.curvature', 'curv', sa, sb, ra, rb, lambda r: r is None):
            C.cmp('c11.elem.curvature', 'curv', 'dc', ra.dc, np.asarray(rb.dc)[pb], a_selfperm=np.asarray(ra.dc)[sw])
            C.cmp('c11.elem.curvature', 'curv', 'mc', ra.mc, rb.mc)
            ga, gb = np.asarray(ra.gba, float), np.asarray(rb.gba, float)
            C.cmp('c11.elem.curvature', 'curv', 'gba', ga, gb[np.ix_(pb, pb)], a_selfperm=ga[np.ix_(sw, sw)])
            if ra.beta is not None and rb.beta is not None:
                C.cmp('c11.elem.curvature', 'curv', 'beta', ra.beta, rb.beta)
            C.cmp('c11.elem.curvature', 'curv', 'c_eq_alpha', ra.c_eq_alpha, np.asarray(rb.c_eq_alpha)[pb])
            C.cmp('c11.elem.curvature', 'curv', 'c_eq_beta', ra.c_eq_beta, np.asarray(rb.c_eq_beta)[pb])

        # ---- impingement factor
        sa, ra = _safe(lambda: A.impingementFactor(xA, T, precPhase=prec, removeCache=True, searchDir=searchA))
        sb, rb = _safe(lambda: B.impingementFactor(xB, T, precPhase=prec, removeCache=True, searchDir=searchB))
        if C.status('c11.elem.impingement', 'beta', sa, sb, ra, rb, lambda r: r is None):
            C.cmp('c11.elem.impingement', 'beta', 'beta', ra, rb)

        # ---- local equilibrium of the matrix: chemical potentials come in database order on both objects
        sa, ra = _safe(lambda: A.getLocalEq(xA, T, 0, [A.phases[0]])[0].chemical_potentials)
        sb, rb = _safe(lambda: B.getLocalEq(xB, T, 0, [B.phases[0]])[0].chemical_potentials)
        if C.status('c11.elem.local_eq', 'mu', sa, sb, ra, rb, lambda r: np.shape(r) != (3,)):
            C.cmp('c11.elem.local_eq', 'mu', 'chemical_potentials', np.array(ra, float), np.array(rb, float))

        # ---- interfacial composition with Gibbs-Thomson contributions
        gE3 = np.array([0.0, gE[3], gE[1]])
        sa, ra = _safe(lambda: A.getInterfacialComposition(xA, T, gE3, precPhase=prec))
        sb, rb = _safe(lambda: B.getInterfacialComposition(xB, T, gE3, precPhase=prec))
        if C.status('c11.elem.interfacial', 'ifc', sa, sb, ra, rb, lambda r: np.shape(r[0]) != (3, 3) or np.shape(r[1]) != (3, 3)):
            for f, a_, b_ in (('x_matrix', ra[0], rb[0]), ('x_precipitate', ra[1], rb[1])):
                a_, b_ = np.asarray(a_, float), np.asarray(b_, float)
                stable = np.all(a_ != -1, axis=1)
                R.observe('interfacial_rows_stable', int(np.sum(stable)))
                R.observe('interfacial_rows_unstable', int(np.sum(~stable)))
                C.cmp('c11.elem.interfacial', 'ifc', f, a_, b_[:, pbf], a_selfperm=a_[:, swf] if np.any(stable) else None)

        # ---- mobility data of the diffusion module
        sa, ra = _safe(lambda: computeMobility(A, xA, T))
        sb, rb = _safe(lambda: computeMobility(B, xB, T))
        if C.status('c11.elem.mobility', 'mob', sa, sb, ra, rb, lambda r: len(r.mobility) != 1):
            pha, phb = [str(p) for p in ra.phases[0]], [str(p) for p in rb.phases[0]]
            R.check('c11.elem.mobility', pha == phb, dict(mech0, field='phases'), point=point, A=pha, B=phb)
            if pha == phb:
                C.cmp('c11.elem.mobility', 'mob', 'phase_fractions', ra.phase_fractions[0], rb.phase_fractions[0])
                ma, mb = np.asarray(ra.mobility[0], float), np.asarray(rb.mobility[0], float)
                C.cmp('c11.elem.mobility', 'mob', 'mobility', ma, mb[:, pbf], a_selfperm=ma[:, swf])
                ca, cb = np.asarray(ra.chemical_potentials[0], float), np.asarray(rb.chemical_potentials[0], float)
                C.cmp('c11.elem.mobility', 'mob', 'chemical_potentials', ca, cb[pbf], a_selfperm=ca[swf])

        R.observe('points')
        if len(C.distinct) >= 4:
            n_nt += 1
            R.add_nontrivial('q-%s-%s-%d-%d-%d' % (case['system'], case['method'], case['seed'], case['rep'], i))
    R.observe('points_with_mobility_correction', case['npts'] if case.get('corr') else 0)
    R.info.update({'system': case['system'], 'method': case['method'], 'order_A': orderA, 'nontrivial_points': n_nt, 'corr': case.get('corr')})
    R.set_nontrivial(False)


# =================================================================================================
# (2) phase order in precipitation runs

def _precip_cfg(rng, tier, k):
    cfg = precip.default_cfg('almgsi')
    three = (tier == 'thorough') and (k % 2 == 1)
    ph = ['MGSI_B_P', 'MG5SI6_B_DP'] + (['B_PRIME_L'] if three else [])
    cfg['phases'] = ph
    gam = {'MGSI_B_P': float(0.18 * rng.uniform(0.95, 1.05)), 'MG5SI6_B_DP': float(0.084 * rng.uniform(0.95, 1.08))}
    if three:
        gam['B_PRIME_L'] = float(rng.uniform(0.125, 0.14))
    cfg['gamma'] = gam
    cfg['VmBeta'] = {p: float(1e-5 * rng.uniform(0.8, 1.3)) for p in ph}       # distinct per phase: list mix-ups become visible
    cfg['x0'] = [float(0.0072 * rng.uniform(0.92, 1.08)), float(0.0057 * rng.uniform(0.92, 1.08))]
    T0 = float(rng.uniform(480, 512))
    cfg['T_candidates'] = [T0, 500.0, 490.0]
    cfg['schedule'] = {'kind': 'iso', 'T': T0}
    cfg['segments'] = [1e5]
    cfg['iterator'] = 'rk4' if (tier == 'thorough' and k % 5 == 4) else 'euler'
    cons = {'dtScale': float(rng.choice([0.1, 0.3])), 'maxVolumeChange': float([1e-3, 1e-4, 2e-5][k % 3])}
    if rng.random() < 0.3:
        cons[str(rng.choice(['checkNucleation', 'checkRcrit']))] = False
    cfg['constraints'] = cons
    r = k % 4
    if r == 0:
        site = {p: 'dislocations' for p in ph}
    elif r == 1:
        site = {p: ('bulk' if j == 0 else 'dislocations') for j, p in enumerate(ph)}
    elif r == 2:
        site = {p: 'bulk' for p in ph}
        cfg['bulkN0'] = float(10 ** rng.uniform(26, 27.5))
    else:
        site = {p: ('dislocations' if j != 1 else 'bulk') for j, p in enumerate(ph)}
    cfg['site'] = site
    cfg['dislocationDensity'] = float(10 ** rng.uniform(14.3, 15.3))
    if k % 3 == 1:
        cfg['parents'] = {ph[0]: [ph[1]]}              # ph[0] may also nucleate on the surface of ph[1] (indices are positional in kawin)
    if rng.random() < 0.4:
        cfg['shape'] = {'MG5SI6_B_DP': {'name': 'needle', 'ar': float(rng.uniform(1.5, 4.0))}}
    if rng.random() < 0.3:
        cfg['infDiff'] = {p: bool(rng.random() < 0.5) for p in ph}
    hetero = (k % 4 == 3)
    if hetero:
        # per-phase options are heterogeneous and configured BY PHASE NAME, so that anything looked up per phase by position shows:
        # one phase (which one varies) computes its aspect ratio from an elastic strain energy and is a needle / plate with
        # infinitely fast internal diffusion on bulk sites; the others are cubes / spheres without internal diffusion on dislocations
        j = (k // 4) % 2
        pa = ph[j]
        cfg['calcAR'] = [pa]
        cfg['shape'] = {pa: {'name': 'needle' if (k // 8) % 2 == 0 else 'plate', 'ar': 1.0}}
        cfg['strain'] = {pa: {'kind': 'elastic', 'E': float(rng.uniform(60e9, 80e9)), 'nu': float(rng.uniform(0.3, 0.35)),
                              'eigenstrain': [0.022, 0.022, 0.003] if (k // 8) % 2 == 0 else [0.004, 0.004, 0.02]}}
        others = [p for p in ph if p != pa]
        cfg['shape'][others[0]] = {'name': 'cubic', 'ar': float(rng.uniform(1.2, 2.5))}
        cfg['infDiff'] = {p: (p == pa) for p in ph}
        cfg['site'] = {p: ('bulk' if p == pa else 'dislocations') for p in ph}
        cfg['bulkN0'] = float(10 ** rng.uniform(27.5, 29))
        cfg.pop('parents', None)
    cfg['hetero'] = hetero
    cfg['removeCache'] = True
    ms = (700 if tier == 'quick' else 1400)
    if hetero:
        ms = 150 if tier == 'quick' else 300      # the elastic strain energy of every size class costs ~0.1 s per step
    if cfg['iterator'] == 'rk4':
        ms = ms // 3
    if three:
        ms = int(ms * 0.6)
    cfg['max_steps'] = int(ms)
    return cfg


def _cuti_cfg(rng, tier, k):
    """binary Cu-Ti with the two precipitate phases CU4TI and CU3TI2; every per-phase option is given by phase name and differs
    between the phases (interfacial energy, molar volume, site, shape), k % 3: isothermal Euler / isothermal RK4 / non-isothermal"""
    cfg = precip.default_cfg('cuti')
    ph = list(cfg['phases'])
    cfg['gamma'] = {'CU4TI': float(rng.uniform(0.03, 0.045)), 'CU3TI2': float(rng.uniform(0.06, 0.08))}
    cfg['VmBeta'] = {'CU4TI': float(7.6e-6 * rng.uniform(0.9, 1.0)), 'CU3TI2': float(7.6e-6 * rng.uniform(1.05, 1.2))}
    cfg['x0'] = [float(rng.uniform(0.016, 0.024))]
    T0 = float(rng.uniform(610, 650))
    mode = k % 3
    noniso = (mode == 2)
    if noniso:
        dT = float(rng.uniform(8, 20)) * (1 if (k // 3) % 2 == 0 else -1)
        scheds = [{'kind': 'array', 'hours': [0.0, float(rng.uniform(0.02, 0.06))], 'temps': [T, T + dT]} for T in (T0, 623.15, 640.0)]
        cfg['pbm'] = {'cMin': 1e-10, 'cMax': 1e-8, 'bins': 36, 'minBins': 25, 'maxBins': 60, 'adaptive': True}   # table rebuilds are costly
    else:
        scheds = [{'kind': 'iso', 'T': T} for T in (T0, 623.15, 640.0)]
    if mode == 0 or (mode == 1 and tier != 'quick'):
        # grid-extending pair: the size-class grid ends at 1.2..1.6 nm so that both phases grow into their last class early and classes are
        # APPENDED (PopulationBalanceModel.addSizeClasses: +10 classes up to maxBins, then a full re-mesh back to minBins)
        cfg['pbm'] = {'cMin': 1e-10, 'cMax': float(rng.uniform(1.2e-9, 1.6e-9)), 'bins': 40, 'minBins': 30, 'maxBins': 80, 'adaptive': True}
        cfg['grid_extending'] = True
    cfg['schedule_candidates'] = scheds
    cfg['schedule'] = scheds[0]
    cfg['T_candidates'] = []
    cfg['segments'] = [1e6]
    cfg['iterator'] = 'rk4' if (mode == 1 or (noniso and (k // 3) % 2 == 1)) else 'euler'
    cfg['constraints'] = {'dtScale': float(rng.choice([0.1, 0.3])), 'maxVolumeChange': float([1e-3, 1e-4][(k // 3) % 2])}
    if (k // 3) % 2 == 1:
        cfg['site'] = {'CU4TI': 'bulk', 'CU3TI2': 'dislocations'}
        cfg['dislocationDensity'] = float(10 ** rng.uniform(14.5, 15.5))
        cfg['shape'] = {'CU4TI': {'name': 'plate', 'ar': float(rng.uniform(1.5, 3.0))}}
    if k % 4 == 3:
        cfg['parents'] = {'CU4TI': ['CU3TI2']}
    cfg['bulkN0'] = float(10 ** rng.uniform(29, 30))
    cfg['removeCache'] = True
    # grid-extending pairs run long enough after the first appends (step ~100-140) for the appended classes to fill: a seeded wrong
    # Gibbs-Thomson term in appended classes moved the histories by only 2e-8 after 250 steps but by 4e-2 after 400
    ms = {0: 400, 1: 120, 2: 150}[mode] if tier == 'quick' else {0: 600, 1: 350, 2: 300}[mode]
    cfg['max_steps'] = int(ms)
    return cfg


def _phase_inputs_from_model(model):
    """per-phase inputs of the step-size rules, taken from the live model exactly as getDt hands them over"""
    P = len(model.phases)
    return {'names': [str(p) for p in model.phases], 'n': int(model.pData.n), 'temperature': model.pData.temperature,
            'PBM': list(model.PBM), 'growth': list(model.growth), 'dissolutionIndex': np.array(model.dissolutionIndex),
            'nucRate': model.pData.nucRate, 'Rnuc': model.pData.Rnuc, 'Rcrit': model.pData.Rcrit, 'dG': model.pData.drivingForce,
            'VmAlpha': model.matrixParameters.volume.Vm, 'VmBeta': [model.precipitateParameters[p].volume.Vm for p in range(P)],
            'GB': [model.precipitateParameters[p].nucleation for p in range(P)]}


RULES = ['psd', 'nucleation', 'temperature', 'rcrit', 'volume']
RULE_FUNC = {'psd': 'computeDTfromPSD', 'nucleation': 'computeDTfromNucleationRate', 'temperature': 'computeDTfromTemperature',
             'rcrit': 'computeDTfromRcrit', 'volume': 'computeDTfromVolume'}


def _eval_rules(cons, I, perm, dtPrev, dtMax, rules=RULES):
    """evaluate the public step-size rules with the per-phase inputs listed in the order `perm` (list of phase positions)"""
    perm = list(perm)
    n = I['n']
    names = [I['names'][j] for j in perm]
    out = {}
    col = lambda a: np.asarray(a)[:, perm]
    if 'psd' in rules:
        out['psd'] = cons.computeDTfromPSD(n, I['temperature'], [I['PBM'][j] for j in perm], [I['growth'][j] for j in perm],
                                           np.asarray(I['dissolutionIndex'])[perm], names, dtMax)
    if 'nucleation' in rules:
        out['nucleation'] = cons.computeDTfromNucleationRate(n, col(I['nucRate']), names, dtPrev, dtMax)
    if 'temperature' in rules:
        out['temperature'] = cons.computeDTfromTemperature(n, I['temperature'], dtPrev, dtMax)
    if 'rcrit' in rules:
        out['rcrit'] = cons.computeDTfromRcrit(n, col(I['Rcrit']), col(I['dG']), names, dtPrev, dtMax)
    if 'volume' in rules:
        out['volume'] = cons.computeDTfromVolume(n, col(I['nucRate']), col(I['Rnuc']), [I['PBM'][j] for j in perm],
                                                 [I['growth'][j] for j in perm], I['VmAlpha'], [I['VmBeta'][j] for j in perm],
                                                 [I['GB'][j] for j in perm], names, dtMax)
    return {k: float(v) for k, v in out.items()}


def _check_rules(R, cons, I, dtPrev, dtMax, source, detail, perms=None, count_nt=None, failed=None):
    P = len(I['names'])
    ident = list(range(P))
    try:
        base = _eval_rules(cons, I, ident, dtPrev, dtMax)
    except Exception as e:
        R.exception('c11.rule.volume', e, {'source': source, 'clause': 'identity_order_raised'}, **detail)
        return None
    for perm in (perms if perms is not None else list(itertools.permutations(ident))[1:]):
        try:
            got = _eval_rules(cons, I, perm, dtPrev, dtMax)
        except Exception as e:
            R.exception('c11.rule.volume', e, {'source': source, 'clause': 'permuted_order_raised'}, perm=list(perm), **detail)
            continue
        for k in RULES:
            a, b = base[k], got[k]
            if a == b:
                ok, rel = True, 0.0
            else:
                rel = abs(a - b) / max(abs(a), abs(b), 1e-300)
                ok = np.isfinite(rel) and rel <= TOL_RULE
            R.worst('rule_%s_%s' % (k, source), rel if np.isfinite(rel) else 1e300)
            if not ok and failed is not None:
                failed.add(k)
            R.check('c11.rule.' + k, ok, {'rule': RULE_FUNC[k], 'source': source, 'nphases': P},
                    identity_order=a, permuted_order=b, perm=list(perm), phases=I['names'], dtMax=dtMax, dtPrev=dtPrev, **detail)
    if count_nt is not None:
        # non-trivial per rule: the single-phase evaluations are not all equal (some phase limits, another does not / differently)
        for k in ('psd', 'nucleation', 'rcrit', 'volume'):
            try:
                singles = [_eval_rules(cons, I, [j], dtPrev, dtMax, rules=[k])[k] for j in ident]
            except Exception:
                continue
            if len(set(singles)) > 1:
                count_nt[k] = count_nt.get(k, 0) + 1
    return base


class _PhaseRunMonitor:
    """removeCache / parent phases at build time; in-run rule oracle on the model's own state at every step"""

    def __init__(self, cfg, R, in_run=True):
        self.cfg = cfg
        self.R = R
        self.in_run = in_run
        self.binding = {}
        self.nt = {}
        self.failed_at = {}        # rule -> first pData.n at which the in-run permutation oracle of that rule failed
        self.grid = {}             # (phase name, public grid operation) -> number of calls (wrappers of vlib.precip_run.GridEvents)
        self.first_append = {}     # phase name -> step of its first addSizeClasses

    def on_build(self, run, model):
        if self.cfg.get('removeCache', True):
            model.setThermodynamics(model.therm, removeCache=True)
        # cfg['parents'] (by phase name) is applied by vlib.precip.build_model

    def on_step(self, run, model, c):
        for j, evs in enumerate(c.get('grid_events') or []):
            for e in evs:
                name = str(model.phases[j])
                self.grid[(name, e['op'])] = self.grid.get((name, e['op']), 0) + 1
                if e['op'] == 'addSizeClasses':
                    self.first_append.setdefault(name, int(c['step']))
        if not self.in_run:
            return
        n = int(model.pData.n)
        if n < 1:
            return
        I = _phase_inputs_from_model(model)
        dtPrev = float(model.pData.time[n] - model.pData.time[n - 1])
        dtMax = float(model.finalTime - model.pData.time[n])
        if not dtMax > 0:
            return
        failed = set()
        base = _check_rules(self.R, model.constraints, I, dtPrev, dtMax, 'in_run', {'step': int(c['step'])}, count_nt=self.nt, failed=failed)
        for k in failed:
            self.failed_at.setdefault(k, n)
        if base:
            lim = [k for k in RULES if base[k] < dtMax]
            if lim:
                kmin = min(lim, key=lambda k: base[k])
                self.binding[kmin] = self.binding.get(kmin, 0) + 1
            else:
                self.binding['none'] = self.binding.get('none', 0) + 1

    def on_exception(self, *a):
        pass

    def on_solve_return(self, *a):
        pass


def _phase_run(cfg, R, in_run):
    from vlib.precip_run import TrajectoryRun
    mon = _PhaseRunMonitor(cfg, R, in_run)
    run = TrajectoryRun(cfg, R, [mon], max_steps=cfg['max_steps'])
    run.execute()
    return run, mon


def _compare_histories(A, B, perm, tol):
    """B's phase position j holds A's phase perm[j]. Returns per-history (worst rel, first diverging step or None)."""
    n = min(len(A['time']), len(B['time']))
    res = {}
    for k in precip.HISTORIES:
        a = np.asarray(A[k], dtype=float)[:n]
        b = np.asarray(B[k], dtype=float)[:n]
        if a.ndim >= 2 and k != 'composition':
            a = a[:, perm]
        a2, b2 = a.reshape(n, -1), b.reshape(n, -1)
        fin = np.isfinite(a2) & np.isfinite(b2)
        patt = np.all((np.isfinite(a2) == np.isfinite(b2)), axis=1)
        scale = np.maximum.accumulate(np.max(np.where(np.isfinite(a2), np.abs(a2), 0.0), axis=1)) + 1e-300
        d = np.max(np.where(fin, np.abs(a2 - b2), 0.0), axis=1) / scale
        d = np.where(patt, d, np.inf)
        bad = np.nonzero(~(d <= tol))[0]
        res[k] = (float(np.max(d)) if n else 0.0, int(bad[0]) if len(bad) else None)
    return res


def _run_precip(case, R):
    cfg0 = case['cfg']
    observe_only = bool(case.get('observe_only'))
    base = None
    candidates = cfg0.get('schedule_candidates') or [{'kind': 'iso', 'T': float(T)} for T in cfg0['T_candidates']]
    for sched in candidates:
        cfg = json.loads(json.dumps(cfg0))
        cfg['schedule'] = sched
        runA, monA = _phase_run(cfg, R, in_run=not observe_only)
        if R.inconclusive:
            return
        if runA.error is not None or runA.rejected:
            # that a configuration runs at all is C03's subject: counted, the case is not non-trivial
            R.observe('base_run_failed')
            R.info['base_run_error'] = '%r %s' % (runA.error, R.info.get('rejected'))
            R.set_nontrivial(False)
            return
        A = precip.snapshot_histories(runA.model)
        active = [str(p) for j, p in enumerate(cfg['phases']) if np.max(A['precipitateDensity'][:, j]) >= ACTIVE_DENSITY]
        if len(active) >= 2:
            base = (cfg, runA, monA, A, active)
            break
        R.observe('temperature_search_retries')
    if base is None:
        R.info['note'] = 'no temperature candidate with two nucleating phases'
        R.set_nontrivial(False)
        if not observe_only:
            R.inconclusive = 'no temperature candidate gave two nucleating phases'
        return
    cfg, runA, monA, A, active = base
    P = len(cfg['phases'])
    mech0 = {'system': cfg['system'], 'schedule': cfg['schedule']['kind'], 'nphases': P, 'iterator': cfg['iterator'],
             'sites': '+'.join(sorted(set(cfg['site'].values()))),
             'parents': bool(cfg.get('parents')), 'calcAR': bool(cfg.get('calcAR'))}
    R.info.update({'system': cfg['system'], 'schedule': cfg['schedule'], 'phases': cfg['phases'], 'active': active, 'steps': len(A['time']) - 1, 'capped': runA.capped,
                   'constraints': cfg['constraints'], 'binding_rule_steps': monA.binding, 'in_run_nontrivial_steps': monA.nt,
                   'max_density': [float(np.max(A['precipitateDensity'][:, j])) for j in range(P)]})
    appends = {p: monA.grid.get((p, 'addSizeClasses'), 0) for p in cfg['phases']}
    remesh = {p: monA.grid.get((p, 'changeSizeClasses'), 0) for p in cfg['phases']}
    R.info.update({'grid_appends': appends, 'grid_remeshes': remesh, 'first_append_step': monA.first_append})
    for j, p in enumerate(cfg['phases']):
        R.observe('grid_appends_%s_listed_phase' % ('first' if j == 0 else 'later'), appends[p])
        R.observe('grid_remeshes', remesh[p])
    both_appended = all(v >= 1 for v in appends.values())
    R.info['temperature_span'] = float(np.max(A['temperature']) - np.min(A['temperature']))
    if R.info['temperature_span'] > 1.0:
        R.observe('nonisothermal_pairs_with_more_than_1K')
    for k, v in monA.binding.items():
        R.observe('binding_' + k, v)
    for k, v in monA.nt.items():
        R.observe('in_run_nontrivial_' + k, v)
    npairs = 0
    for order in list(itertools.permutations(range(P)))[1:]:
        cfgB = json.loads(json.dumps(cfg))
        cfgB['phases'] = [cfg['phases'][j] for j in order]
        runB, monB = _phase_run(cfgB, R, in_run=False)
        if runB.error is not None or runB.rejected:
            if observe_only:
                continue
            if runB.error is not None:
                R.exception('c11.phase.steps', runB.error, dict(mech0, clause='permuted_run_raised'), order=cfgB['phases'])
            else:
                R.check('c11.phase.steps', False, dict(mech0, clause='permuted_config_rejected'), order=cfgB['phases'])
            continue
        B = precip.snapshot_histories(runB.model)
        perm = list(order)
        res = _compare_histories(A, B, perm, TOL_TRAJ[P])
        if observe_only:
            for k, (w, first) in res.items():
                R.worst('observed_only_cached_' + k, w if np.isfinite(w) else 1e300)
            R.worst('observed_only_cached_steps_diff', abs(len(A['time']) - len(B['time'])))
            continue
        npairs += 1
        steps_ok = len(A['time']) == len(B['time']) and runA.capped == runB.capped
        firsts = [(f, k) for k, (w, f) in res.items() if f is not None]
        first = min(firsts) if firsts else None
        # attribution: step-size rules whose in-run permutation oracle had already failed when the runs separated
        # (time[f] results from the step size chosen in state f-1)
        fired = sorted(k for k, n0 in monA.failed_at.items() if first is not None and n0 <= first[0] - 1)
        mech0 = dict(mech0, in_run_rule_violations='+'.join(fired) if fired else 'none')
        R.check('c11.phase.steps', steps_ok, mech0, steps_A=len(A['time']) - 1, steps_B=len(B['time']) - 1, order=cfgB['phases'],
                capped=(runA.capped, runB.capped))
        det_common = {'order': cfgB['phases'], 'base_order': cfg['phases'], 'schedule': cfg['schedule']}

        def at_step(k, f):
            return {'first_diverging_step': f, 'first_diverging_overall': first, 'A_at_step': np.asarray(A[k])[f],
                    'B_at_step': np.asarray(B[k])[f], 't_A': A['time'][f], 't_B': B['time'][f], 'worst_rel': res[k][0]}
        for k, (w, f) in res.items():
            R.worst('traj%d_%s' % (P, k), w if np.isfinite(w) else 1e300)
        wt, ft = res['time']
        R.check('c11.phase.time_grid', ft is None, dict(mech0, history='time'), **det_common, **(at_step('time', ft) if ft is not None else {}))
        # one evaluation per history; a diverging pair is reported once, for the history that separates first
        div = sorted((f, k) for k, (w, f) in res.items() if f is not None and k != 'time')
        R.count('c11.phase.histories', len(res) - 1 - (1 if div else 0))
        if div:
            f, k = div[0]
            R.check('c11.phase.histories', False, dict(mech0, history=k), diverging_histories=[(kk, ff) for ff, kk in div],
                    **det_common, **at_step(k, f))
        if cfg.get('grid_extending'):
            # non-trivial for this class only if EVERY phase appended size classes in the base run (then the phase listed second does
            # so in either order); the comparison is then also counted for the deciding monitor of the grid-extension clause
            if both_appended:
                R.check('c11.phase.grid_extension', not div and ft is None and steps_ok, dict(mech0, clause='histories_with_appended_size_classes'),
                        appends=appends, first_append_step=monA.first_append, **det_common)
                R.add_nontrivial('p-%d-%d-%s' % (case['seed'], case['k'], ''.join(str(j) for j in order)))
            else:
                R.observe('grid_extending_pair_without_appends_of_every_phase')
        else:
            R.add_nontrivial('p-%d-%d-%s' % (case['seed'], case['k'], ''.join(str(j) for j in order)))
    R.observe('phase_order_pairs', npairs)
    R.set_nontrivial(False)



# =================================================================================================
# (1b) diffusion runs with permuted element lists

DIFF_SYSTEMS = {
    'NiCrAl': {'db': 'NICRAL_TDB', 'ref': 'NI', 'solutes': ['CR', 'AL'], 'single': {'CR': (0.03, 0.35), 'AL': (0.02, 0.14)},
               'homog': None, 'T': (1273.0, 1523.0)},
    'FeCrNi': {'db': 'FECRNI_DB', 'ref': 'FE', 'solutes': ['CR', 'NI'], 'single': {'CR': (0.05, 0.40), 'NI': (0.03, 0.30)},
               'homog': {'CR': (0.05, 0.45), 'NI': (0.03, 0.35)}, 'T': (1173.0, 1473.0)},
}
HFUNCS = ['wiener upper', 'wiener lower', 'hashin upper', 'hashin lower', 'lab']


def _diffusion_cfg(rng, k, quick):
    homog = (k % 4 == 3)
    system = 'FeCrNi' if (homog or k % 2 == 1) else 'NiCrAl'
    S = DIFF_SYSTEMS[system]
    win = S['homog'] if homog else S['single']
    cfg = {'system': system, 'model': 'homog' if homog else 'single', 'N': int(rng.integers(10, 16) if homog else rng.integers(14, 28)),
           'L': float(10 ** rng.uniform(-4.5, -3.3)), 'T': float(rng.uniform(*S['T'])), 'iterator': 'rk4' if k % 5 == 2 else 'euler',
           'steps': int(rng.integers(30, 50) if homog else rng.integers(25, 45)), 'profile': {}, 'bc': {}}
    if homog:
        cfg['hfunc'] = HFUNCS[(k // 4) % len(HFUNCS)]
    cfg['corr'] = {}                                   # filled after all other draws (keeps the earlier configurations unchanged)
    for e in S['solutes']:
        lo, hi = win[e]
        kind = str(rng.choice(['step', 'linear']))
        a, b = float(rng.uniform(lo, hi)), float(rng.uniform(lo, hi))
        cfg['profile'][e] = {'kind': kind, 'L': a, 'R': b, 'u': float(rng.uniform(0.3, 0.7))}
        r = rng.random()
        if r < 0.45:
            continue                                   # closed on both sides
        side = str(rng.choice(['left', 'right']))
        if r < 0.75:
            cfg['bc'][e] = {'side': side, 'type': 'composition', 'value': float(rng.uniform(lo, hi))}
        else:
            # inflow only, sized at run time (from the first stable step of run A) so that the boundary node gains `amount` over
            # the run: compositions stay inside the window (the dilute corner x -> 1e-8 has solver noise ~1e-8 in D, measured)
            cfg['bc'][e] = {'side': side, 'type': 'flux', 'amount': float(rng.uniform(0.005, 0.03)), 'value': None}
    # non-uniform mobility correction by element name: every homogenization run and two of three single-phase runs
    ncorr = (1 + (k // 4) % 2) if homog else (k % 3)
    cfg['corr'] = _draw_correction(rng, [S['ref']] + list(S['solutes']), ncorr)
    return cfg


def _build_diffusion(cfg, order):
    from kawin.thermo import GeneralThermodynamics
    from kawin.diffusion import SinglePhaseModel, HomogenizationModel
    import kawin.tests.datasets as ds
    S = DIFF_SYSTEMS[cfg['system']]
    els = [S['ref']] + list(order)
    phases = ['FCC_A1', 'BCC_A2'] if cfg['model'] == 'homog' else ['FCC_A1']
    th = GeneralThermodynamics(getattr(ds, S['db']), list(els), list(phases))
    if cfg['model'] == 'homog':
        m = HomogenizationModel([0.0, cfg['L']], cfg['N'], list(els), list(phases))
        m.setMobilityFunction(cfg['hfunc'])
    else:
        m = SinglePhaseModel([0.0, cfg['L']], cfg['N'], list(els), list(phases))
    for e in order:                                    # everything is addressed by element NAME, in the object's own order
        pr = cfg['profile'][e]
        if pr['kind'] == 'step':
            m.setCompositionStep(pr['L'], pr['R'], pr['u'] * cfg['L'], e)
        else:
            m.setCompositionLinear(pr['L'], pr['R'], e)
        bc = cfg['bc'].get(e)
        if bc:
            m.boundaryConditions.setBoundaryCondition(bc['side'], bc['type'], bc['value'] if bc['value'] is not None else 0.0, e)
    for e, f in (cfg.get('corr') or {}).items():
        th.setMobilityCorrection(e, f)
    m.setTemperature(cfg['T'])
    m.setThermodynamics(th)
    return m


class _StepCap:
    def __init__(self, n):
        self.n = n
        self.steps = 0

    def updateCoupledModel(self, model):
        self.steps += 1
        if self.steps >= self.n:
            raise core.StopRun()


def _diffusion_run(cfg, order, duration):
    from kawin.solver.Solver import SolverType
    m = _build_diffusion(cfg, order)
    m.setup()
    _, dt0 = m.getFluxes()          # same public call sequence on both members of a pair (it fills the model's composition cache)
    if duration is None:
        # not a whole number of (initially constant) steps: otherwise rounding noise of 1e-13 in the step size decides whether
        # a last sliver step of ~1e-12*duration is needed (seen: 27 vs 28 steps)
        duration = float(dt0) * (cfg['steps'] - 0.5)
        for e, bc in cfg['bc'].items():
            if bc['type'] == 'flux' and bc['value'] is None:
                J = bc['amount'] * float(m.dz) / duration
                bc['value'] = float(J if bc['side'] == 'left' else -J)      # positive left-face / negative right-face flux = inflow
    for e, bc in cfg['bc'].items():
        if bc['type'] == 'flux':
            m.boundaryConditions.setBoundaryCondition(bc['side'], bc['type'], bc['value'], e)
    cap = _StepCap(cfg['steps'] + 5)
    m.addCouplingModel(cap)
    capped = False
    try:
        m.solve(duration, solverType=SolverType.RK4 if cfg['iterator'] == 'rk4' else SolverType.EXPLICITEULER)
    except core.StopRun:
        capped = True
    return m, duration, capped


def _run_diffusion(case, R):
    rng = core.case_rng(case['seed'], PROPERTY, case['idx'])
    cfg = _diffusion_cfg(rng, case['k'], True)
    S = DIFF_SYSTEMS[cfg['system']]
    orderA = list(S['solutes']) if case['k'] % 2 == 0 else list(S['solutes'])[::-1]
    orderB = orderA[::-1]
    mech = {'system': cfg['system'], 'model': cfg['model'], 'iterator': cfg['iterator'], 'hfunc': cfg.get('hfunc'),
            'mobility_correction': len(cfg.get('corr') or {})}
    if cfg.get('corr'):
        R.observe('diffusion_pairs_with_mobility_correction')
    sa, ra = _safe(lambda: _diffusion_run(cfg, orderA, None))
    if sa == 'exc':
        R.observe('diffusion_base_run_raised')
        R.info['error'] = repr(ra)[:300]
        R.set_nontrivial(False)
        return
    mA, duration, capA = ra
    if not np.isfinite(duration) or duration <= 0:
        R.observe('diffusion_rejected_bad_dt')
        R.set_nontrivial(False)
        return
    sb, rb = _safe(lambda: _diffusion_run(cfg, orderB, duration))
    if sb == 'exc':
        R.exception('c11.elem.diffusion_profile', rb, dict(mech, clause='availability'), cfg=cfg, order=orderB)
        return
    mB, _, capB = rb
    xa, ta = np.array(mA._recordedX), np.array(mA._recordedTime)
    xb, tb = np.array(mB._recordedX), np.array(mB._recordedTime)
    pb = [orderB.index(e) for e in orderA]
    n = min(len(ta), len(tb))
    R.check('c11.elem.diffusion_time', len(ta) == len(tb) and capA == capB, dict(mech, clause='number_of_steps'),
            steps_A=len(ta) - 1, steps_B=len(tb) - 1, cfg=cfg)
    dts = np.abs(ta[:n] - tb[:n]) / max(float(np.max(np.abs(ta[:n]))), 1e-300)
    bad = np.nonzero(~(dts <= TOL_DIFF))[0]
    R.worst('diffusion_time', float(np.max(dts)))
    R.check('c11.elem.diffusion_time', len(bad) == 0, dict(mech, clause='time_grid'), first_diverging_step=int(bad[0]) if len(bad) else None,
            t_A=ta[bad[0]] if len(bad) else None, t_B=tb[bad[0]] if len(bad) else None, cfg=cfg)
    xbm = xb[:n][:, pb, :]
    scale = max(float(np.max(np.abs(xa[:n]))), 1e-300)
    dev = np.max(np.abs(xa[:n] - xbm).reshape(n, -1), axis=1) / scale
    finite = np.all(np.isfinite(xa[:n]).reshape(n, -1) == np.isfinite(xbm).reshape(n, -1), axis=1)
    dev = np.where(finite & np.isfinite(dev), dev, np.inf)
    bad = np.nonzero(~(dev <= TOL_DIFF))[0]
    R.worst('diffusion_profile', float(np.max(dev)) if np.all(np.isfinite(dev)) else 1e300)
    R.count('c11.elem.diffusion_profile', max(n - 1, 0))
    R.check('c11.elem.diffusion_profile', len(bad) == 0, dict(mech, clause='profiles'),
            first_diverging_step=int(bad[0]) if len(bad) else None, worst=float(np.max(dev)), cfg=cfg, order_A=orderA,
            A_at_step=xa[bad[0]] if len(bad) else None, B_at_step_mapped=xbm[bad[0]] if len(bad) else None)
    moved = float(np.max(np.abs(xa[n - 1] - xa[0])))
    rows_differ = float(np.max(np.abs(xa[n - 1][0] - xa[n - 1][1]))) > 1e-3
    R.info.update({'cfg': cfg, 'steps': n - 1, 'moved': moved, 'order_A': orderA})
    R.observe('diffusion_steps', n - 1)
    R.set_nontrivial(n - 1 >= 10 and moved > 1e-4 and rows_differ, key='d-%d-%d' % (case['seed'], case['k']))



# =================================================================================================
# (3) direct permutation oracle: synthetic multi-phase inputs

SITE_NAMES = ['bulk', 'dislocations', 'grain boundaries', 'grain edges', 'grain corners']
SITE_KMAX = {'grain boundaries': 1.0, 'grain edges': np.sqrt(3) / 2, 'grain corners': np.sqrt(2.0 / 3.0)}
PHASE_NAMES = ['ALPHA', 'BETA', 'GAMMA_P', 'DELTA', 'ETA']


def _loguni(rng, lo, hi):
    return float(np.exp(rng.uniform(np.log(lo), np.log(hi))))


def _synthetic_pbm(rng):
    from kawin.precipitation.PopulationBalance import PopulationBalanceModel
    bins = int(rng.integers(12, 50))
    pbm = PopulationBalanceModel(1e-10, _loguni(rng, 2e-9, 5e-8), bins, max(6, bins // 2), bins * 2)
    r = pbm.PSDsize
    kind = rng.random()
    if kind < 0.15:
        psd = np.zeros(bins)                                        # empty phase
    else:
        mu, sg = np.log(_loguni(rng, r[1], r[-2])), rng.uniform(0.15, 0.6)
        psd = _loguni(rng, 1e16, 1e25) * np.exp(-0.5 * ((np.log(r) - mu) / sg) ** 2)
        if kind < 0.5:
            psd[rng.random(bins) < 0.3] = 0.0                       # holes
        psd[psd < 1e-8 * psd.max()] = 0.0
    pbm.PSD = psd
    return pbm


def _synthetic_growth(rng, pbm):
    rb = pbm.PSDbounds
    kind = rng.random()
    if kind < 0.1:
        return np.zeros(len(rb))
    rstar = _loguni(rng, rb[0], rb[-1])
    g = _loguni(rng, 1e-13, 1e-7) * (1.0 / rstar - 1.0 / rb) * rstar       # Gibbs-Thomson like: negative below r*, positive above
    if kind < 0.3:
        g = -np.abs(g)
    return g


def _synthetic_nucleation(rng, gamma=None, site=None, gbEnergy=None):
    from kawin.precipitation.parameters.Nucleation import NucleationBarrierParameters
    site = site or str(rng.choice(SITE_NAMES))
    gamma = gamma or float(rng.uniform(0.05, 0.3))
    if gbEnergy is None:
        gbEnergy = float(rng.uniform(0.1, 0.9) * 2 * gamma * SITE_KMAX.get(site, 1.0))
    return NucleationBarrierParameters(site=site, gamma=gamma, gbEnergy=gbEnergy)


def _synthetic_rule_input(rng):
    P = int(rng.choice([2, 2, 3, 3, 4]))
    n = int(rng.integers(0, 5))
    I = {'names': PHASE_NAMES[:P], 'n': n}
    if rng.random() < 0.8:
        I['temperature'] = np.full(n + 1, float(rng.uniform(400, 900)))
    else:
        I['temperature'] = float(rng.uniform(400, 900)) + np.cumsum(rng.uniform(-3, 6, n + 1))
    I['PBM'] = [_synthetic_pbm(rng) for _ in range(P)]
    I['growth'] = [_synthetic_growth(rng, b) for b in I['PBM']]
    I['dissolutionIndex'] = np.array([int(rng.integers(0, max(1, b.bins // 3))) for b in I['PBM']], dtype=np.int32)

    def hist(gen, pzero):
        a = np.array([[gen() for _ in range(P)] for _ in range(n + 1)])
        a[rng.random(a.shape) < pzero] = 0.0
        if n > 0 and rng.random() < 0.2:
            a[n, int(rng.integers(P))] = a[n - 1, int(rng.integers(P))]
        return a
    I['nucRate'] = hist(lambda: _loguni(rng, 1e-8, 1e24), 0.2)
    if n > 0 and rng.random() < 0.3:                                  # slowly varying rates (the rule compares consecutive rows)
        I['nucRate'][n] = I['nucRate'][n - 1] * rng.uniform(0.5, 2.0, P)
    I['Rnuc'] = hist(lambda: _loguni(rng, 3e-10, 3e-9), 0.2)
    I['Rcrit'] = hist(lambda: _loguni(rng, 2e-10, 5e-9), 0.15)
    if n > 0 and rng.random() < 0.5:
        I['Rcrit'][n] = I['Rcrit'][n - 1] * (1 + rng.uniform(-0.1, 0.1, P) * (rng.random(P) < 0.8))
    I['dG'] = hist(lambda: float(rng.uniform(-2e8, 1e9)), 0.1)
    I['VmAlpha'] = float(rng.uniform(0.7e-5, 1.3e-5))
    I['VmBeta'] = [float(rng.uniform(0.6e-5, 1.5e-5)) for _ in range(P)]
    I['GB'] = [_synthetic_nucleation(rng) for _ in range(P)]
    dtMax = _loguni(rng, 1e-2, 1e6)
    dtPrev = _loguni(rng, 1e-4, 1.0) * dtMax
    return I, dtPrev, dtMax


def _synthetic_constraints(rng):
    from kawin.precipitation.PrecipitationParameters import Constraints
    cons = Constraints()
    if rng.random() < 0.5:
        cons.maxVolumeChange = _loguni(rng, 1e-6, 1e-2)
        cons.maxRcritChange = _loguni(rng, 1e-3, 1e-1)
        cons.maxNucleationRateChange = float(rng.uniform(0.1, 1.0))
        cons.maxNonIsothermalDT = float(rng.uniform(0.5, 5.0))
    return cons


def _describe_input(I):
    return {'n': I['n'], 'temperature': I['temperature'], 'bins': [b.bins for b in I['PBM']], 'populated': [bool(np.any(b.PSD > 0)) for b in I['PBM']],
            'nucRate': I['nucRate'], 'Rnuc': I['Rnuc'], 'Rcrit': I['Rcrit'], 'dG': I['dG'], 'VmBeta': I['VmBeta'],
            'sites': [g.description.name for g in I['GB']]}


def _run_rules(case, R):
    rng = core.case_rng(case['seed'], PROPERTY, case['idx'])
    nt = {}
    for i in range(case['n']):
        I, dtPrev, dtMax = _synthetic_rule_input(rng)
        cons = _synthetic_constraints(rng)
        before = dict(nt)
        _check_rules(R, cons, I, dtPrev, dtMax, 'synthetic', {'input': _describe_input(I), 'i': i}, count_nt=nt)
        R.observe('rule_inputs')
        if sum(nt.values()) - sum(before.values()) >= 2:
            R.add_nontrivial('r-%d-%d-%d' % (case['seed'], case['k'], i))
    for k, v in nt.items():
        R.observe('synthetic_nontrivial_' + k, v)
    R.info.update({'inputs': case['n'], 'nontrivial_per_rule': nt})
    R.set_nontrivial(False)


# ---------------------------------------------------------------------------------------------------------------
def _synthetic_model_spec(rng, with_parents=True):
    """JSON-like description of a multi-phase model (no backend needed for the step-size and site functions)"""
    P = int(rng.choice([2, 3, 3]))
    names = PHASE_NAMES[:P]
    nsites = int(rng.choice([1, 2, 2, 3]))
    pool = [str(s) for s in rng.choice(SITE_NAMES, size=nsites, replace=False)]
    spec = {'names': names, 'site': {}, 'gamma': {}, 'VmBeta': {}, 'parents': {}, 'VmAlpha': float(rng.uniform(0.7e-5, 1.3e-5)),
            'grainSize': _loguni(rng, 0.3, 50.0), 'grainAspectRatio': float(rng.uniform(1, 3)), 'dislocationDensity': _loguni(rng, 1e12, 1e16),
            'x0': [float(rng.uniform(0.002, 0.02)), float(rng.uniform(0.002, 0.02))]}
    kmin = None
    for p in names:
        s = str(rng.choice(pool))
        spec['site'][p] = s
        spec['gamma'][p] = float(rng.uniform(0.05, 0.3))
        spec['VmBeta'][p] = float(rng.uniform(0.6e-5, 1.5e-5))
        lim = SITE_KMAX.get(s, 1.0) * 2 * spec['gamma'][p]
        kmin = lim if kmin is None else min(kmin, lim)
    spec['GBenergy'] = float(kmin * rng.uniform(0.1, 0.9))
    if rng.random() < 0.5:
        spec['bulkN0'] = _loguni(rng, 1e22, 1e29)
    if with_parents:
        for p in names:
            if rng.random() < 0.4:
                others = [q for q in names if q != p]
                k = int(rng.integers(1, len(others) + 1))
                spec['parents'][p] = [str(q) for q in rng.choice(others, size=k, replace=False)]
    spec['pbm'] = {p: {'cMax': _loguni(rng, 2e-9, 5e-8), 'bins': int(rng.integers(12, 50))} for p in names}
    return spec


def _build_synthetic_model(spec, order):
    from kawin.precipitation import PrecipitateModel, MatrixParameters, PrecipitateParameters
    matrix = MatrixParameters(['MG', 'SI'])
    matrix.volume.setVolume(spec['VmAlpha'], 'VM', 4)
    matrix.initComposition = list(spec['x0'])
    matrix.GBenergy = spec['GBenergy']
    nd = {'grainSize': spec['grainSize'], 'aspectRatio': spec['grainAspectRatio'], 'dislocationDensity': spec['dislocationDensity']}
    if 'bulkN0' in spec:
        nd['bulkN0'] = spec['bulkN0']
    matrix.nucleationSites.setNucleationDensity(**nd)
    precs = []
    for p in order:
        pp = PrecipitateParameters(p)
        pp.gamma = spec['gamma'][p]
        pp.volume.setVolume(spec['VmBeta'][p], 'VM', 4)
        pp.nucleation.setNucleationType(spec['site'][p])
        precs.append(pp)
    model = PrecipitateModel(thermodynamics=None, matrixParameters=matrix, precipitateParameters=precs)
    model.setTemperature(500.0)
    for p in order:
        model.setPBMParameters(cMin=1e-10, cMax=spec['pbm'][p]['cMax'], bins=spec['pbm'][p]['bins'],
                               minBins=max(6, spec['pbm'][p]['bins'] // 2), maxBins=2 * spec['pbm'][p]['bins'], phase=p)
    for p in order:
        if spec['parents'].get(p):
            model.setParentPhases(p, list(spec['parents'][p]))
    # what PrecipitateBase.setup() does for the nucleation parameters (the thermodynamic part of setup needs a backend)
    for j in range(len(order)):
        model.precipitateParameters[j].nucleation.gbEnergy = model.matrixParameters.GBenergy
        model.precipitateParameters[j].validate()
    return model


def _synthetic_distribution(rng, pbm, n0_scale):
    r = pbm.PSDsize
    if rng.random() < 0.15:
        return np.zeros(len(r))
    mu, sg = np.log(_loguni(rng, r[1], r[-2])), rng.uniform(0.15, 0.6)
    x = np.exp(-0.5 * ((np.log(r) - mu) / sg) ** 2)
    return x / max(x.sum(), 1e-300) * n0_scale


def _site_n0(model, j):
    """N0 of the site type of phase j (used to size the synthetic distributions)"""
    ns = model.matrixParameters.nucleationSites
    name = model.precipitateParameters[j].nucleation.description.name
    n0 = {'BULK': ns.bulkN0, 'DISLOCATIONS': ns.dislocationN0, 'GRAIN BOUNDARIES': ns.GBareaN0, 'GRAIN EDGES': ns.GBedgeN0,
          'GRAIN CORNERS': ns.GBcornerN0}[name]
    return float(abs(n0))


def _site_scale(model):
    """density scale of the site balance (N0 - used + parent sites): the largest site density of the matrix, whichever
    branch the balance takes (the result is a difference, so its rounding noise is relative to the minuend)"""
    ns = model.matrixParameters.nucleationSites
    return float(max(abs(ns.bulkN0), abs(ns.dislocationN0), abs(ns.GBareaN0), abs(ns.GBedgeN0), abs(ns.GBcornerN0)))


def _run_sites(case, R):
    rng = core.case_rng(case['seed'], PROPERTY, case['idx'])
    nnt = 0
    for i in range(case['n']):
        spec = _synthetic_model_spec(rng)
        names = spec['names']
        P = len(names)
        try:
            base = _build_synthetic_model(spec, names)
        except ValueError as e:
            R.observe('rejected_site_config')
            continue
        # distributions by phase name; amounts comparable to the site densities so that competition matters
        scales = {p: _site_n0(base, j) for j, p in enumerate(names)}
        big = _site_scale(base)
        dist = {}
        for j, p in enumerate(names):
            r1 = float(np.mean(base.PBM[j].PSDsize))
            site = spec['site'][p]
            lat = (6.022e23 / spec['VmAlpha'])
            if site in ('bulk', 'grain corners'):
                amount = scales[p]
            elif site in ('dislocations', 'grain edges'):
                amount = scales[p] / (r1 * lat ** (1 / 3))
            else:
                amount = scales[p] / (r1 ** 2 * lat ** (2 / 3))
            dist[p] = _synthetic_distribution(rng, base.PBM[j], amount * _loguni(rng, 1e-4, 1.5))
        t = 1.0
        ref = {}
        ok_base = True
        for j, p in enumerate(names):
            st, v = _safe(lambda: float(base._calcNucleationSites(t, [dist[q] for q in names], j)))
            if st == 'exc':
                R.observe('site_identity_order_raised')
                ok_base = False
                break
            ref[p] = v
        if not ok_base:
            continue
        for order in list(itertools.permutations(names))[1:]:
            order = list(order)
            model = _build_synthetic_model(spec, order)
            xs = [dist[q] for q in order]
            for j, p in enumerate(order):
                st, v = _safe(lambda: float(model._calcNucleationSites(t, xs, j)))
                mech = {'site': spec['site'][p], 'nphases': P, 'has_parents': bool(spec['parents'].get(p)),
                        'shares_site': sum(1 for q in names if spec['site'][q] == spec['site'][p]) > 1}
                if st == 'exc':
                    R.exception('c11.sites', v, dict(mech, clause='permuted_order_raised'), spec=spec, order=order, phase=p)
                    continue
                scale = max(abs(ref[p]), abs(v), big, 1e-300)
                rel = abs(ref[p] - v) / scale
                R.worst('sites', rel)
                R.check('c11.sites', rel <= TOL_RULE, mech, identity_order=ref[p], permuted_order=v, order=order, phase=p, spec=spec,
                        populated={q: bool(np.any(dist[q] > 0)) for q in names})
        R.observe('site_inputs')
        dep = 0
        for p in names:
            shares = any(q != p and spec['site'][q] == spec['site'][p] and np.any(dist[q] > 0) for q in names)
            parents = any(np.any(dist[q] > 0) for q in spec['parents'].get(p, []))
            if (shares or parents) and ref[p] > 0:
                dep += 1
        if dep >= 1:
            nnt += 1
            R.add_nontrivial('s-%d-%d-%d' % (case['seed'], case['k'], i))
    R.info.update({'inputs': case['n'], 'nontrivial': nnt})
    R.set_nontrivial(False)


def _run_getdt(case, R):
    """PrecipitateModel.getDt on models with permuted phases that hold the same synthetic state"""
    rng = core.case_rng(case['seed'], PROPERTY, case['idx'])
    nnt = 0
    for i in range(case['n']):
        spec = _synthetic_model_spec(rng, with_parents=False)
        names = spec['names']
        P = len(names)
        n = int(rng.integers(0, 5))
        st = {'time': np.cumsum(np.array([_loguni(rng, 1e-3, 10.0) for _ in range(n + 1)])),
              'temperature': np.full(n + 1, 500.0) if rng.random() < 0.8 else 500.0 + np.cumsum(rng.uniform(-2, 4, n + 1))}
        st['time'][0] = 0.0 if n > 0 else st['time'][0]
        per = {}
        try:
            base = _build_synthetic_model(spec, names)
        except ValueError:
            R.observe('rejected_site_config')
            continue
        for j, p in enumerate(names):
            pbm = base.PBM[j]
            psd = _synthetic_distribution(rng, pbm, _loguni(rng, 1e16, 1e25))
            per[p] = {'psd': psd, 'growth': _synthetic_growth(rng, pbm), 'diss': int(rng.integers(0, max(1, pbm.bins // 3))),
                      'nucRate': np.array([_loguni(rng, 1e-8, 1e24) if rng.random() > 0.2 else 0.0 for _ in range(n + 1)]),
                      'Rnuc': np.array([_loguni(rng, 3e-10, 3e-9) if rng.random() > 0.2 else 0.0 for _ in range(n + 1)]),
                      'Rcrit': np.array([_loguni(rng, 2e-10, 5e-9) if rng.random() > 0.15 else 0.0 for _ in range(n + 1)]),
                      'dG': rng.uniform(-2e8, 1e9, n + 1)}
            if n > 0 and rng.random() < 0.5:
                per[p]['Rcrit'][n] = per[p]['Rcrit'][n - 1] * (1 + rng.uniform(-0.05, 0.05))
            if n > 0 and rng.random() < 0.4:
                per[p]['nucRate'][n] = per[p]['nucRate'][n - 1] * rng.uniform(0.5, 2.0)
        final = float(st['time'][n] + _loguni(rng, 1e-2, 1e6))
        cons_kw = {}
        if rng.random() < 0.6:
            cons_kw = {'maxVolumeChange': _loguni(rng, 1e-6, 1e-2), 'maxRcritChange': _loguni(rng, 1e-3, 1e-1), 'dtScale': float(rng.choice([1e-3, 0.1, 0.3]))}

        def evaluate(order):
            from kawin.precipitation.PrecipitationParameters import PrecipitationData
            m = base if list(order) == list(names) else _build_synthetic_model(spec, list(order))
            m.setConstraints(**cons_kw)
            pd = PrecipitationData(m.phases, m.elements, N=n + 1)
            pd.time[:] = st['time']
            pd.temperature[:] = st['temperature']
            for j, p in enumerate(order):
                pd.nucRate[:, j] = per[p]['nucRate']
                pd.Rnuc[:, j] = per[p]['Rnuc']
                pd.Rcrit[:, j] = per[p]['Rcrit']
                pd.drivingForce[:, j] = per[p]['dG']
                m.PBM[j].PSD = np.array(per[p]['psd'], copy=True)
            m.pData = pd
            m.growth = [np.array(per[p]['growth'], copy=True) for p in order]
            m.dissolutionIndex = np.array([per[p]['diss'] for p in order], dtype=np.int32)
            m.finalTime = final
            return float(m.getDt(None)), m
        sa, ra = _safe(lambda: evaluate(names))
        if sa == 'exc':
            R.observe('getdt_identity_order_raised')
            R.info['getdt_error'] = repr(ra)[:200]
            continue
        dt0, m0 = ra
        for order in list(itertools.permutations(names))[1:]:
            sb, rb = _safe(lambda: evaluate(order))
            mech = {'nphases': P, 'source': 'synthetic'}
            if sb == 'exc':
                R.exception('c11.rule.getdt', rb, dict(mech, clause='permuted_order_raised'), order=list(order))
                continue
            dt1 = rb[0]
            rel = 0.0 if dt0 == dt1 else abs(dt0 - dt1) / max(abs(dt0), abs(dt1), 1e-300)
            R.worst('getdt', rel if np.isfinite(rel) else 1e300)
            ok = bool(np.isfinite(rel) and rel <= TOL_RULE)
            if not ok:
                # attribution (failure path only): which public rules are order dependent on this very state
                try:
                    I0 = _phase_inputs_from_model(m0)
                    dtp = 0.01 if n == 0 else float(st['time'][n] - st['time'][n - 1])
                    b0 = _eval_rules(m0.constraints, I0, list(range(P)), dtp, final - st['time'][n])
                    dep = set()
                    for pp_ in list(itertools.permutations(range(P)))[1:]:
                        b1 = _eval_rules(m0.constraints, I0, list(pp_), dtp, final - st['time'][n])
                        dep |= {k for k in RULES if b0[k] != b1[k]}
                    mech = dict(mech, order_dependent_rules='+'.join(sorted(dep)) if dep else 'none')
                except Exception:
                    mech = dict(mech, order_dependent_rules='unknown')
            R.check('c11.rule.getdt', ok, mech, identity_order=dt0, permuted_order=dt1, order=list(order),
                    spec=spec, n=n, state={p: {k: v for k, v in per[p].items() if k not in ('psd', 'growth')} for p in names}, final=final)
        R.observe('getdt_inputs')
        # non-trivial: some rule limits the step and the single-rule limits differ between phases
        I = _phase_inputs_from_model(m0)
        cnt = {}
        dtPrev = 0.01 if n == 0 else float(st['time'][n] - st['time'][n - 1])
        for k in ('psd', 'nucleation', 'rcrit', 'volume'):
            try:
                singles = [_eval_rules(m0.constraints, I, [j], dtPrev, final - st['time'][n], rules=[k])[k] for j in range(P)]
                if len(set(singles)) > 1:
                    cnt[k] = 1
            except Exception:
                pass
        if len(cnt) >= 2:
            nnt += 1
            R.add_nontrivial('g-%d-%d-%d' % (case['seed'], case['k'], i))
    R.info.update({'inputs': case['n'], 'nontrivial': nnt})
    R.set_nontrivial(False)
