"""C05 - the solver honours its time and state contract for any model.

Harness-written GenericModel subclasses (vlib/c05_models.py: random nested state layouts, scripted getDt
proposals, stop schedules, optional change of layout inside postProcess) and Couplers of 2-4 of them are run
through the real GenericModel.solve -> DESolver.solve -> ExplicitEulerIterator / RK4Iterator.  Every callback of
every model is observed.  One run = 1-3 consecutive solve() calls ("segments") of one top-level model.

Monitors (T = dt_total as passed, tf = t0 + T in floating point as the library forms it, M = max(|t0|,|tf|),
U = ulp(M) = resolution of the clock on [t0, tf]):
  time_increasing  every accepted time (argument of postProcess) is > the previous one           (no slack)
  no_overshoot     accepted time <= tf + 2U.  The slack is needed: the library's last step is
                   c + fl(tf - c), which lands one ulp above tf when both roundings are ties (measured: 0.6 % of
                   random (c, tf) pairs); sub-resolution excess is not held against "never exceeds".
  end_time         a run in which no model asked to stop ends with |t_end - tf| <= 2U, and the model's own time
                   is the last accepted time
  step_bounds      each step h = t_k - t_(k-1) <= maxFrac*T + 4U, and >= minFrac*T - 4U unless the step belongs
                   to the terminal suffix (t_last - t_(k-1) < minFrac*T + 4U: "the last step may be shorter"; the
                   suffix has at most a clamp step plus a one-ulp fix-up step)
  step_cap         logical decision of termination (class 'normal' only, i.e. minFrac*T >= 2U): accepted steps
                   <= floor((T+U/2)/(dtmin-U/2)) + 3  (each non-terminal step advances the clock by >= dtmin-U/2)
  stop_ends_run    after a postProcess returned stop=True no callback of any model is entered, the number of
                   accepted steps is the scheduled stop step, the model time is the time of that step
  structure        structure signature (nesting, scalar-ness, array shapes) of every x / dXdt handed to
                   getdXdt, getDt, correctdXdt, postProcess equals the one the model supplied last (getCurrentX
                   or the value returned by its postProcess); per sub-model inside a Coupler
  state_time_tie   constant-derivative models: x_end = x_ref + c*(t_end - t_ref) elementwise within
                   (n+4)*(|c|*U + 16 eps (|x_ref| + |c||t_end - t_ref|)) (n steps since the reference point;
                   rounding of n clock additions and n state updates)
  no_exception     solve() on an admissible configuration returns (exceptions from kawin frames are violations)

Decisions where the statement is silent (not asserted): dtype of arrays/scalars (python float comes back as
numpy float64, which the signature treats as the same scalar leaf), that an un-clamped proposal is used as is, stage times (C06), minFrac > maxFrac,
proposals of other types than python float/int and numpy float64, configurations whose *maximum* step is below
8 ulp of the clock (unsatisfiable: rejected and counted), models whose callbacks raise.

Resolution-limit class (minFrac*T < 2U, e.g. the default minDtFrac=1e-8 with T < 1e8 ulp(t0)): the same monitors
apply; on the unchanged tree a proposal that is clamped to a step below the clock resolution leaves currTime
unchanged for ever.  The model's logical step cap / stall detector ends the run and time_increasing reports it
with mech {cls: resolution_limit, where: before_end, expected_dt: below_resolution}.
"""
import math

import numpy as np

from vlib import core
from vlib import c05_models as cm

PROPERTY = 'C05'
LEVEL = 'exploration'
RULE = ('each case = 50 runs; a run = harness-written model (random nested layout; default / overridden flatten) or Coupler '
        'of 2-4 such models, scripted getDt proposals over {0,<0,inf,NaN,1e-300..1e300,edge values,alternating}, '
        'stop schedule, t0 in {0, +-1e-5..1e10}, T, min<=max step fractions, iterator {Euler,RK4} x {enum,function,wrapped}, '
        '1-3 consecutive solve() calls; a run is non-trivial when >=3 steps were accepted and >=1 proposal was '
        'clamped; a case is non-trivial when >=10 of its runs are; distinct by hash of the drawn run configurations')
REQUIRED_MONITORS = ['time_increasing', 'no_overshoot', 'end_time', 'step_bounds', 'step_cap', 'stop_ends_run',
                     'structure', 'state_time_tie', 'no_exception']
REACH = ['solver/Solver.py:DESolver.solve', 'solver/Solver.py:DESolver._getdXdt', 'solver/Solver.py:DESolver._updateX',
         'solver/Iterators.py:ExplicitEulerIterator', 'solver/Iterators.py:RK4Iterator',
         'GenericModel.py:GenericModel.solve', 'GenericModel.py:GenericModel.flattenX',
         'GenericModel.py:GenericModel.unflattenX', 'GenericModel.py:Coupler.flattenX',
         'GenericModel.py:Coupler.unflattenX', 'GenericModel.py:Coupler.postProcess', 'GenericModel.py:Coupler.getDt']
MIN_NONTRIVIAL = {'quick': 50, 'thorough': 500}
CASE_TIMEOUT = 300
MAX_INCONCLUSIVE_FRACTION = 0.0
ASSUMPTIONS = ['IEEE-754 double arithmetic, round to nearest even',
               'the clock resolution on [t0,tf] is ulp(max(|t0|,|tf|)); excesses below 2 (time) / 4 (step) ulp are not violations',
               'termination is decided on logical step counts (cap inside the model), never on wall-clock time']
NRUNS = 50
EPS = 2.220446049250313e-16

_CLASSES = None


def plan(tier, seed):
    n = 80 if tier == 'quick' else 2000
    kinds = ['single'] * 9 + ['coupled'] * 7 + ['reslimit_single'] * 2 + ['reslimit_coupled'] * 2
    return [{'kind': kinds[i % len(kinds)], 'nruns': NRUNS, 'tier': tier} for i in range(n)]


# ------------------------------------------------------------------------------------------------ generators

def _ulp(x):
    x = abs(float(x))
    return float(np.spacing(x)) if x > 0 else 5e-324


def _logu(rng, a, b):
    return float(10.0 ** rng.uniform(a, b))


def gen_times(rng, reslimit):
    """-> (t0, T, minF, maxF)"""
    if reslimit:
        t0 = _logu(rng, 0, 12) * (-1.0 if rng.random() < 0.1 else 1.0)
        u0 = _ulp(t0)
        T = u0 * _logu(rng, 1.6, 4.0)
        maxF = 1.0 if rng.random() < 0.5 else _logu(rng, -1.0, 0.0)
        while maxF * T < 10 * u0:
            maxF = min(1.0, maxF * 2)
        r = rng.random()
        hi = 0.4 * u0 / T
        if r < 0.1:
            minF = 0.0
        elif r < 0.45 and 1e-8 < hi:
            minF = 1e-8
        else:
            minF = _logu(rng, -14, math.log10(hi))
        return t0, T, minF, maxF
    if rng.random() < 0.35:
        t0 = 0.0
    else:
        t0 = _logu(rng, -5, 10) * (-1.0 if rng.random() < 0.1 else 1.0)
    if t0 != 0.0 and rng.random() < 0.4:
        T = abs(t0) * _logu(rng, -11, 2)
    else:
        T = _logu(rng, -4, 6)
    r = rng.random()
    maxF = 1.0 if r < 0.45 else (_logu(rng, -2.5, 0) if r < 0.95 else float(rng.uniform(1, 3)))
    r = rng.random()
    if r < 0.65:
        minF = _logu(rng, -2.7, math.log10(maxF)) if maxF > 2e-3 else maxF * float(rng.uniform(0.2, 1))
    elif r < 0.75:
        minF = maxF
    else:
        minF = min(maxF, 1e-8 if rng.random() < 0.3 else _logu(rng, -12, -3))
    return t0, T, minF, maxF


KINDS = ['zero', 'neg', 'inf', 'huge', 'nan', 'tiny', 'ok', 'big_ok', 'log', 'edge']


def gen_script(rng, T, minF, maxF):
    lo = max(minF, 1e-3 * maxF, 1e-13) * T
    hi = maxF * T
    lo = min(lo, hi)

    def val(kind):
        if kind == 'zero':
            return [0.0, -0.0, 0][int(rng.integers(3))]
        if kind == 'neg':
            return [-1.0, -T * _logu(rng, -10, 3), -math.inf, -1e300, -5e-324, -3][int(rng.integers(6))]
        if kind == 'inf':
            return math.inf
        if kind == 'huge':
            return [1e300, 1.7976931348623157e308, T * 1e6, 10 ** 30][int(rng.integers(4))]
        if kind == 'nan':
            return math.nan
        if kind == 'tiny':
            return [1e-300, 5e-324, 1e-200, T * 1e-25][int(rng.integers(4))]
        if kind == 'ok':
            return _logu(rng, math.log10(lo), math.log10(hi)) if hi > lo else hi
        if kind == 'big_ok':
            return hi * float(rng.uniform(0.3, 1.0))
        if kind == 'log':
            return _logu(rng, -300, 300)
        e = [minF * T, maxF * T, math.nextafter(minF * T, 0.0), math.nextafter(maxF * T, math.inf), T, T / 3,
             math.nextafter(minF * T, math.inf), math.nextafter(maxF * T, 0.0)]
        return e[int(rng.integers(len(e)))]
    style = ['const', 'alternating', 'mix', 'burst'][int(rng.integers(4))]
    if style == 'const':
        kinds = [KINDS[int(rng.integers(len(KINDS)))]]
        vals = [val(kinds[0])]
    elif style == 'alternating':
        kinds = [KINDS[int(rng.integers(len(KINDS)))] for _ in range(int(rng.integers(2, 5)))]
        vals = [val(k) for k in kinds]
    elif style == 'mix':
        kinds = [KINDS[int(rng.integers(len(KINDS)))] for _ in range(48)]
        vals = [val(k) for k in kinds]
    else:
        bad = [k for k in KINDS if k not in ('ok', 'big_ok')]
        kinds = []
        for _ in range(32):
            kinds.append(bad[int(rng.integers(len(bad)))] if rng.random() < 0.25 else ('ok' if rng.random() < 0.6 else 'big_ok'))
        vals = [val(k) for k in kinds]
    out = []
    for v in vals:
        if isinstance(v, float) and rng.random() < 0.3:
            v = np.float64(v)
        out.append(v)
    return style, sorted(set(kinds)), out


def gen_model_cfg(rng, T, minF, maxF, allow_relayout=True):
    mode = ['default', 'default', 'nd', 'nested'][int(rng.integers(4))]
    spec = cm.random_layout(rng, mode)
    n = cm.spec_size(spec)
    deriv = 'const' if rng.random() < 0.8 else 'linear'
    x0 = rng.normal(size=n) * _logu(rng, -3, 3)
    if deriv == 'const':
        c = rng.normal(size=n) * _logu(rng, -3, 3) / T
        c[rng.random(n) < 0.15] = 0.0
    else:
        c = rng.uniform(0, 2, size=n) / T
    style, kinds, script = gen_script(rng, T, minF, maxF)
    cfg = {'mode': mode, 'spec': spec, 'deriv': deriv, 'x0': x0, 'c': c, 'script': script,
           'script_style': style, 'script_kinds': kinds, 'relayout': None}
    if allow_relayout and rng.random() < 0.3:
        spec2 = cm.random_layout(rng, mode)
        n2 = cm.spec_size(spec2)
        c2 = (rng.normal(size=n2) * _logu(rng, -3, 3) / T) if deriv == 'const' else rng.uniform(0, 2, size=n2) / T
        cfg['relayout'] = {'at': int(rng.integers(1, 6)), 'spec': spec2, 'x': rng.normal(size=n2) * _logu(rng, -3, 3), 'c': c2}
    return cfg


def cfg_summary(cfg):
    return {'mode': cfg['mode'], 'spec': cm.spec_json(cfg['spec']), 'deriv': cfg['deriv'], 'style': cfg['script_style'],
            'kinds': cfg['script_kinds'], 'script_head': [repr(v) for v in cfg['script'][:6]],
            'relayout': None if cfg['relayout'] is None else {'at': cfg['relayout']['at'], 'spec': cm.spec_json(cfg['relayout']['spec'])}}


# ------------------------------------------------------------------------------------------------ one run

def _eff_proposal(props):
    vals = [float(p) for p in props]
    if not vals:
        return math.nan
    if any(v != v for v in vals):
        return math.nan
    return min(vals)


def _iterator(name, form, rec):
    from kawin.solver.Solver import SolverType
    from kawin.solver.Iterators import ExplicitEulerIterator, RK4Iterator
    fn = ExplicitEulerIterator if name == 'euler' else RK4Iterator
    if form == 'enum':
        return SolverType.EXPLICITEULER if name == 'euler' else SolverType.RK4
    if form == 'function':
        return fn

    def wrapped(f, t, X_old, updateX):
        Xn, dt = fn(f, t, X_old, updateX)
        rec.append((float(t), float(dt), int(np.ndim(X_old)), np.shape(Xn) == np.shape(X_old)))
        return Xn, dt
    return wrapped


def run_one(R, rng, kind, ridx, tier):
    global _CLASSES
    if _CLASSES is None:
        _CLASSES = cm.make_classes()
    ScriptModel, ScriptCoupler = _CLASSES
    reslimit = kind.startswith('reslimit')
    coupled = kind.endswith('coupled')
    it_name = 'euler' if rng.random() < 0.5 else 'rk4'
    it_form = ['enum', 'function', 'wrapped'][int(rng.integers(3))] if rng.random() < 0.6 else 'enum'
    t0, T, minF, maxF = gen_times(rng, reslimit)
    nseg = 1 if rng.random() < 0.6 else int(rng.integers(2, 4))
    segs = []
    for s in range(nseg):
        if s == 0:
            segs.append([T, minF, maxF])
        else:
            if reslimit or rng.random() < 0.5:
                segs.append([T * _logu(rng, -0.5, 0.5), minF, maxF])
            else:
                _, T2, minF2, maxF2 = gen_times(rng, False)
                segs.append([T * _logu(rng, -1, 1), minF2, maxF2])
    B = [60, 150, 400][int(rng.integers(3))]
    stops = [None if rng.random() < 0.6 else int(rng.integers(1, 12)) for _ in range(nseg)]
    verbose = rng.random() < 0.05

    log = cm.RunLog()
    nsub = int(rng.integers(2, 5)) if coupled else 1
    cfgs = [gen_model_cfg(rng, T, minF, maxF) for _ in range(nsub)]
    subs = [ScriptModel('m%d' % i, log, cfgs[i], t0, clock=(i == 0)) for i in range(nsub)]
    stop_owner = int(rng.integers(nsub))
    top = ScriptCoupler(subs, log, t0) if coupled else subs[0]
    summary = {'run': ridx, 'kind': kind, 'iterator': it_name, 'form': it_form, 't0': t0, 'segments': segs, 'stops': stops,
               'budget': B, 'nsub': nsub, 'stop_owner': stop_owner, 'models': [cfg_summary(c) for c in cfgs]}
    base = {'iterator': it_name, 'form': it_form, 'coupled': coupled}
    total_steps = 0
    clamped_any = False
    itrec = []
    solver_arg = _iterator(it_name, it_form, itrec)

    for si, (Ts, minFs, maxFs) in enumerate(segs):
        t0s = float(top.getCurrentX()[0])
        tf = t0s + Ts
        M = max(abs(t0s), abs(tf))
        U = _ulp(M)
        Teff = tf - t0s
        dtmin = minFs * Teff
        dtmax = maxFs * Teff
        if not (dtmax >= 8 * U) or not (Teff > 0):
            R.observe('rejected_max_step_below_resolution')
            continue
        cls = 'resolution_limit' if dtmin < 2 * U else 'normal'
        mech = dict(base, cls=cls)
        R.observe('segments_' + cls)
        if cls == 'normal':
            cap = int(math.floor((Teff + U / 2) / (dtmin - U / 2))) + 3
        else:
            cap = None
        cap_lim = 600 if tier == 'quick' else 2000
        budget = cap + 2 if (cap is not None and cap <= cap_lim) else B
        log.begin_segment(t0s, budget)
        for j, m in enumerate(subs):
            m.stop_at = stops[si] if j == stop_owner else None
            if hasattr(m, 'pre_relayout'):
                del m.pre_relayout
        detail = {'run': summary, 'segment': si, 't0': t0s, 'tf': tf, 'T': Ts, 'minFrac': minFs, 'maxFrac': maxFs, 'ulp': U}
        failed = False
        try:
            top.solve(Ts, solverType=solver_arg, verbose=verbose, vIt=int(rng.integers(1, 20)),
                      minDtFrac=minFs, maxDtFrac=maxFs)
            R.count('no_exception')
        except core.StopRun:
            pass
        except Exception as e:
            if core.innermost_is_harness(e.__traceback__) and not log.sig_bad:
                raise
            if core.innermost_is_harness(e.__traceback__):
                R.observe('harness_exception_after_structure_violation')
            else:
                R.exception('no_exception', e, mech, **detail)
            failed = True

        times = np.array(log.times, dtype=float)
        n = len(times) - 1
        total_steps += n
        R.observe('accepted_steps', n)
        R.observe('callbacks', sum(log.callbacks.values()))
        detail['n_steps'] = n
        detail['times_head'] = times[:6]
        detail['times_tail'] = times[-6:]
        sched_stop = stops[si] is not None and n >= stops[si]

        # ---- structure
        nbad = len(log.sig_bad)
        R.count('structure', log.sig_evals - nbad)
        for b in [b for b in log.sig_bad if b][:3]:
            R.check('structure', False, dict(mech, callback=b['callback'], mode=b['mode']), bad=b, **detail)
        log.sig_evals = 0
        log.sig_bad = []

        # ---- time_increasing
        if n:
            h = np.diff(times)
            ninc = int(np.sum(h > 0))
            R.count('time_increasing', ninc)
            if ninc < n:
                i = int(np.argmin(h > 0))
                prev = float(times[i])
                props = log.proposals[i] if i < len(log.proposals) else []
                eff = _eff_proposal(props)
                rem = tf - prev
                e = eff if eff > dtmin else dtmin
                lim = dtmax if dtmax < rem else rem
                e = e if e < lim else lim
                pk = ('nan' if eff != eff else 'nonpositive' if eff <= 0 else
                      'positive_below_resolution' if prev + eff == prev else 'resolvable')
                R.check('time_increasing', False,
                        dict(mech, where='at_end' if prev >= tf else 'before_end',
                             expected_dt='below_resolution' if prev + e == prev else 'resolvable', proposal=pk),
                        step=i + 1, t_prev=prev, t_new=float(times[i + 1]), proposals=[repr(p) for p in props],
                        dtmin=dtmin, dtmax=dtmax, **detail)
                R.observe('stalls_' + cls)

            # ---- no_overshoot
            over = (times[1:] - tf) / U
            R.worst('overshoot_ulps', float(np.max(over)))
            nok = int(np.sum(over <= 2))
            R.count('no_overshoot', nok)
            if nok < n:
                i = int(np.argmax(over > 2))
                R.check('no_overshoot', False, mech, step=i + 1, t=float(times[i + 1]), excess_ulps=float(over[i]), **detail)

            # ---- step bounds
            up = (h - maxFs * Ts) / U
            R.worst('step_upper_excess_ulps', float(np.max(up)))
            nok = int(np.sum(up <= 4))
            R.count('step_bounds', nok)
            if nok < n:
                i = int(np.argmax(up > 4))
                R.check('step_bounds', False, dict(mech, bound='upper'), step=i + 1, h=float(h[i]), limit=maxFs * Ts, **detail)
            suffix = (times[-1] - times[:-1]) < minFs * Ts + 4 * U
            low = (minFs * Ts - h) / U
            lowc = np.where(suffix, -np.inf, low)
            R.observe('terminal_suffix_steps', int(np.sum(suffix & (low > 4))))
            if np.any(~suffix):
                R.worst('step_lower_deficit_ulps', float(np.max(lowc)))
            nok = int(np.sum(lowc <= 4))
            R.count('step_bounds', nok)
            if nok < n:
                i = int(np.argmax(lowc > 4))
                R.check('step_bounds', False, dict(mech, bound='lower'), step=i + 1, h=float(h[i]), limit=minFs * Ts,
                        remaining_to_last=float(times[-1] - times[i]), **detail)

            # clamped proposals (non-triviality only)
            for i in range(min(n, len(log.proposals))):
                eff = _eff_proposal(log.proposals[i])
                rem = tf - times[i]
                if not (eff >= dtmin and eff <= min(dtmax, rem)):
                    clamped_any = True
                    R.observe('clamped_proposals')

        # ---- stop
        stopped = log.stop_requested
        if stopped:
            src = 'stall' if log.stalled is not None else 'schedule' if sched_stop else 'budget'
            smech = dict(mech, stop_source=src, requester=('first' if stop_owner == 0 or src != 'schedule' else 'later') if coupled else 'single')
            ok = log.post_stop == 0 and not log.aborted
            if src == 'schedule':
                ok = ok and n == stops[si]
            ok = ok and float(top.getCurrentX()[0]) == float(times[-1])
            R.check('stop_ends_run', ok, smech, post_stop_callbacks=log.post_stop, kinds=log.post_stop_kinds,
                    stop_step=stops[si], model_time=float(top.getCurrentX()[0]), **detail)
            R.observe('stops_' + src)
        elif not failed:
            # ---- end time
            err = abs(times[-1] - tf) / U
            R.worst('end_time_err_ulps', err)
            mt = float(top.getCurrentX()[0])
            R.check('end_time', err <= 2 and mt == float(times[-1]) and all(float(m.t) == float(times[-1]) for m in subs),
                    mech, t_end=float(times[-1]), model_time=mt, err_ulps=err, **detail)
            if n == 0:
                R.observe('zero_step_runs')

        # ---- step cap
        if cap is not None and not failed:
            if n > cap:
                R.check('step_cap', False, mech, cap=cap, dtmin=dtmin, **detail)
            elif not log.budget_hit or budget > cap:
                R.check('step_cap', True)
            else:
                R.observe('budget_stop_cap_undecided')
        elif cap is None and log.budget_hit:
            R.observe('budget_stop_reslimit')

        # ---- sub-models all saw the same accepted times
        if coupled and n and not failed:
            same = all(m.post_times[-n:] == subs[0].post_times[-n:] for m in subs)
            R.check('structure', same, dict(mech, callback='postProcess_times'), **detail)

        # ---- state/time tie
        if not failed and n:
            for j, m in enumerate(subs):
                if m.deriv != 'const':
                    continue
                checks = []
                if hasattr(m, 'pre_relayout'):
                    spec_o, c_o, rt, rx, rn, tt, xf = m.pre_relayout
                    checks.append((c_o, rt, rx, rn, tt, xf, 'before_relayout'))
                if m.ref_steps > 0:
                    checks.append((m.c, m.ref_t, m.ref_x, m.ref_steps, float(m.t), cm.hflat(m.x), 'end'))
                for (c, rt, rx, rn, tt, xf, where) in checks:
                    if xf.shape != rx.shape:
                        R.check('state_time_tie', False, dict(mech, kind='size'), model=j, where=where, **detail)
                        continue
                    if xf.size == 0:
                        continue
                    exp = rx + c * (tt - rt)
                    tol = (rn + 4) * (np.abs(c) * U + 16 * EPS * (np.abs(rx) + np.abs(c) * abs(tt - rt))) + 1e-300
                    ratio = float(np.max(np.abs(xf - exp) / tol))
                    R.worst('state_resid_over_tol', ratio)
                    R.check('state_time_tie', ratio <= 1.0, dict(mech, kind='value', mode=m.mode), model=j, where=where,
                            observed=xf, expected=exp, tol=tol, steps=rn, **detail)
        if it_form == 'wrapped' and itrec:
            R.observe('wrapped_iterator_steps', len(itrec))
            del itrec[:]
        if failed or log.stalled is not None or log.aborted:
            break
    nt = total_steps >= 3 and clamped_any
    return nt, summary


def run_case(case, R):
    rng = core.case_rng(case['seed'], PROPERTY, case['idx'])
    nnt = 0
    keys = []
    for r in range(case['nruns']):
        nt, summary = run_one(R, rng, case['kind'], r, case.get('tier', 'quick'))
        nnt += bool(nt)
        keys.append(summary)
    R.observe('runs', case['nruns'])
    R.observe('runs_nontrivial', nnt)
    R.info['runs_nontrivial'] = nnt
    R.set_nontrivial(nnt >= 10, core.case_hash(keys))


MANIFEST = {
    'text': 'Harness-written GenericModel subclasses and Couplers of 2-4 of them (random nested state layouts, scripted step '
            'proposals incl. 0, negative, inf, NaN, 1e-300..1e300, stop schedules, layout changes in postProcess) are run through '
            'the real solve() with both iterators from start times over 15 decades; accepted times, step sizes, stop behaviour, '
            'structure of every state handed to a callback, and the state/time tie of constant-derivative models are asserted; '
            'non-termination is decided by a logical step cap inside the model.',
    'note': 'sampled, not exhaustive; slack 2 ulp (time) / 4 ulp (step) of the clock resolution; dtype of returned scalars is not asserted',
    'technique': 'invariant hooks in adversarial user programs (step observer at every public callback) + closed-form reference for constant derivatives',
}
